#!/usr/bin/env python3
import json, os, subprocess, sys, glob, concurrent.futures, time
prop = sys.argv[1]
here = os.path.dirname(os.path.abspath(__file__))
verif = os.path.dirname(here)
cases = []
for e in json.load(open(here + '/variants/index.json')):
    if e['prop'] == prop and e['status'] == 'ok':
        cases.append(dict(kind='variant', name=e['name'], patch=f"{here}/variants/{e['name']}.diff", rule=e['rule']))
for e in json.load(open(here + '/benign/index.json')):
    if prop in e['props'] and e['status'] == 'ok':
        cases.append(dict(kind='benign', name=e['name'], patch=f"{here}/benign/{e['name']}.diff", rule=None))
for m in sorted(glob.glob(verif + '/seeded/*/meta.json')):
    meta = json.load(open(m))
    exp = meta.get('expected_detection', {})
    if prop in exp:
        cases.append(dict(kind='seeded', name=meta['id'], patch=os.path.dirname(m) + '/patch.diff', rule=exp[prop]))
def run(c):
    p = subprocess.run([here + '/variant.sh', c['patch'], prop, 'thorough'], stdout=subprocess.PIPE, stderr=subprocess.STDOUT)
    out = p.stdout.decode(errors='replace')
    return c, p.returncode, out
t0 = time.time()
results, failed = [], []
with concurrent.futures.ThreadPoolExecutor(max_workers=6) as ex:
    for c, rc, out in ex.map(run, cases):
        rec = dict(kind=c['kind'], name=c['name'], expected_rule=c['rule'], exit=rc)
        if rc in (4, 5):
            rec['verdict'] = 'not exercised (patch does not apply / build)'
        elif c['kind'] == 'benign':
            rec['verdict'] = 'silent' if rc == 0 else 'FALSE ALARM'
            if rc != 0: failed.append(rec); rec['report'] = [l for l in out.splitlines() if '-R' in l][:3]
        else:
            named = (c['rule'] is None) or any((c['rule'] + ' ') in l or (c['rule'] + '\t') in l or ('  ' + c['rule'] + '  ') in l for l in out.splitlines())
            if rc == 1 and named:
                rec['verdict'] = 'detected'
                rec['report'] = [l for l in out.splitlines() if c['rule'] and c['rule'] in l][:2]
            elif rc == 1:
                rec['verdict'] = 'detected by another rule'
                rec['report'] = [l for l in out.splitlines() if '-R' in l][:2]
            else:
                rec['verdict'] = 'MISSED'
                failed.append(rec)
        results.append(rec)
summary = dict(property=prop, cases=len(results), detected=sum(1 for r in results if r['verdict'].startswith('detected')),
               silent_benign=sum(1 for r in results if r['verdict'] == 'silent'), not_exercised=sum(1 for r in results if r['verdict'].startswith('not exercised')),
               failed=len(failed), wall_s=round(time.time() - t0, 1), results=results)
# merge into the evidence file written by the thorough run
ev_path = f'{verif}/evidence/{prop}.json'
try:
    ev = json.load(open(ev_path))
    ev['coverage']['selftest'] = summary
    ev['wall_s'] = ev.get('wall_s', 0) + summary['wall_s']
    json.dump(ev, open(ev_path, 'w'), indent=1)
except Exception as e:
    print('cannot merge selftest into evidence:', e)
print(f"selftest property={prop} cases={summary['cases']} detected={summary['detected']} benign-silent={summary['silent_benign']} not-exercised={summary['not_exercised']} failed={summary['failed']} wall={summary['wall_s']}s")
for r in failed:
    print(f"SELFTEST-FAILED rule={r['expected_rule']} variant={r['name']} kind={r['kind']} verdict={r['verdict']} {r.get('report', '')}")
sys.exit(3 if failed else 0)
