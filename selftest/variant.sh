#!/bin/sh
# usage: variant.sh <patch-file> <PROP> [tier] [-R]
# Copies /repo's working tree to a scratch dir, applies the patch (git apply), type-checks it, runs the
# checker for PROP on the copy and prints its output; the copy is removed before returning.
# exit: the checker's exit code (1 = violation reported on the variant, 0 = silent).
set -u
patch=$1; prop=$2; tier=${3:-quick}; rev=${4:-}
export GOFLAGS=-mod=mod GOPROXY=off GOSUMDB=off GOTOOLCHAIN=local; unset GOWORK
d=$(mktemp -d /tmp/variant-XXXXXX)
trap 'rm -rf "$d"' EXIT
cp -r /repo/. "$d"/ && rm -rf "$d/.git"
( cd "$d" && git init -q . 2>/dev/null && git apply $rev --whitespace=nowarn "$patch" ) || { echo "PATCH-DOES-NOT-APPLY $patch"; exit 4; }
# -trimpath keeps the build cache keys independent of the scratch directory (otherwise every variant adds
# ~100 MB to the Go build cache)
( cd "$d" && go build -trimpath ./... ) || { echo "VARIANT-DOES-NOT-BUILD $patch"; exit 5; }
${FZFCHECK:-/verif/bin/fzfcheck} -repo "$d" -prop "$prop" -tier "$tier" -known /verif/known_findings.json -evidence "$d/evidence.json"
