#!/bin/sh
# usage: selftest.sh <PROP>
# Thorough-tier self-validation of the rules of one property: every seeded variant (own AST/text-level edits in
# selftest/variants, confirmed sub-agent mutants in seeded/<id>/ that this property's check is expected to catch)
# must be reported, naming the expected rule; every benign edit must stay silent. Each variant is applied to a
# scratch copy of /repo's current tree which is deleted immediately. A patch that no longer applies is recorded
# as "not exercised" (never a verdict about the tree). A silent rule on its own variant => exit 3 (broken check).
prop=$1
here=$(cd "$(dirname "$0")" && pwd)
exec python3 "$here/selftest.py" "$prop"
