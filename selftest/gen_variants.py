#!/usr/bin/env python3
"""Generates the self-validation variants as unified diffs against /repo's HEAD.
Each entry: (name, property, rule expected to fire, file, old text, new text). A variant whose old text is no
longer present is skipped (reported as 'not generated'), never treated as a failure of the tree under test.
BENIGN entries are behaviour-preserving edits on which every check of the listed properties must stay silent."""
import os, subprocess, shutil, sys, json, tempfile
REPO = '/repo'
V = []
def v(name, prop, rule, file, old, new, count=1): V.append(dict(name=name, prop=prop, rule=rule, file=file, old=old, new=new, count=count))
B = []
def b(name, props, file, old, new, count=1): B.append(dict(name=name, props=props, file=file, old=old, new=new, count=count))

# ---- C01
v('c01r1-unbind-boundary', 'C01', 'C01-R1', 'src/pattern.go', "\tptr.procFun[termExactBoundary] = algo.ExactMatchBoundary\n", "")
v('c01r1-dup-matcher', 'C01', 'C01-R1', 'src/pattern.go', "ptr.procFun[termSuffix] = algo.SuffixMatch", "ptr.procFun[termSuffix] = algo.PrefixMatch")
v('c01r2-global-case', 'C01', 'C01-R2', 'src/pattern.go', "p.iter(pfun, input, term.caseSensitive, term.normalize,", "p.iter(pfun, input, p.caseSensitive, term.normalize,")
v('c01r3-inv-cacheable', 'C01', 'C01-R3', 'src/pattern.go', "if !cacheable || idx > 0 || term.inv || fuzzy", "if !cacheable || idx > 0 || fuzzy")
v('c01r3-or-cacheable', 'C01', 'C01-R3', 'src/pattern.go', "if !cacheable || idx > 0 || term.inv || fuzzy", "if !cacheable || idx < 0 || term.inv || fuzzy")
v('c01r3-key-inv', 'C01', 'C01-R3', 'src/pattern.go', "if len(termSet) == 1 && !termSet[0].inv && (p.fuzzy", "if len(termSet) == 1 && (p.fuzzy")
v('c01r3-add-unguarded', 'C01', 'C01-R3', 'src/pattern.go', "\tif p.cacheable {\n\t\tp.cache.Add(chunk, cacheKey, matches)\n\t}\n", "\tp.cache.Add(chunk, cacheKey, matches)\n")
# ---- C02
v('c02r1-no-cap-test', 'C02', 'C02-R1', 'src/algo/algo.go', "if slab != nil && cap(slab.I16) > offset+size {", "if slab != nil {")
v('c02r1-cap-other-expr', 'C02', 'C02-R1', 'src/algo/algo.go', "if slab != nil && cap(slab.I32) > offset+size {", "if slab != nil && cap(slab.I32) > size {")
v('c02r2-guard-too-low', 'C02', 'C02-R2', 'src/algo/algo.go', "if r < 0x00C0 || r > 0x2184 {", "if r < 0x00C0 || r > 0x1FFF {")
# ---- C03
v('c03r1-gapstart', 'C03', 'C03-R1', 'src/algo/algo.go', "scoreGapStart     = -3", "scoreGapStart     = -2")
v('c03r1-scheme-bonus', 'C03', 'C03-R1', 'src/algo/algo.go', "\tcase \"history\":\n\t\tbonusBoundaryWhite = bonusBoundary\n", "\tcase \"history\":\n\t\tbonusBoundaryWhite = bonusBoundary - 2\n")
b('bigger-slab', ['C02', 'C03', 'C05'], 'src/constants.go', "slab16Size int = 100 * 1024", "slab16Size int = 4 << 20")  # safe since fix 7e8ad36 bounds the pattern length itself
v('c03r2-weaker-pattern-guard', 'C03', 'C03-R2', 'src/algo/algo.go', "|| M > maxPatternLengthV2 {", "|| M > 2*maxPatternLengthV2 {")
v('c03r2-no-fallback', 'C03', 'C03-R2', 'src/algo/algo.go', "\t// (N*M can overflow on 32-bit platforms)\n\tif slab != nil && N > cap(slab.I16)/M || M > maxPatternLengthV2 {\n\t\treturn FuzzyMatchV1(caseSensitive, normalize, forward, input, pattern, withPos, slab)\n\t}\n", "")
v('c03r2-odd-slab', 'C03', 'C03-R2', 'src/core.go', "slab := util.MakeSlab(slab16Size, slab32Size)", "slab := util.MakeSlab(slab16Size*64, slab32Size)")
# ---- C04
v('c04r1-five-criteria', 'C04', 'C04-R1', 'src/options.go', "\tif len(criteria) > 4 {", "\tif len(criteria) > 5 {")
v('c04r1-slot-index', 'C04', 'C04-R1', 'src/result.go', "result.points[3-idx] = val", "result.points[idx] = val")
v('c04r2-generic-upward', 'C04', 'C04-R2', 'src/result_others.go', "for idx := 3; idx >= 0; idx-- {", "for idx := 0; idx <= 3; idx++ {")
v('c04r2-generic-polarity', 'C04', 'C04-R2', 'src/result_others.go', "\t\tif left < right {\n\t\t\treturn true\n\t\t} else if left > right {\n\t\t\treturn false\n\t\t}", "\t\tif left > right {\n\t\t\treturn true\n\t\t} else if left < right {\n\t\t\treturn false\n\t\t}")
v('c04r2-bigendian-unsafe', 'C04', 'C04-R2', 'src/result_x86.go', "//go:build 386 || amd64", "//go:build 386 || amd64 || s390x")
v('c04r2-bigendian-unsafe2', 'C04', 'C04-R2', 'src/result_others.go', "//go:build !386 && !amd64", "//go:build !386 && !amd64 && !s390x")
v('c04r3-sorted-flag', 'C04', 'C04-R3', 'src/matcher.go', "return NewMerger(pattern, partialResults, m.sort && request.pattern.sortable, m.tac,", "return NewMerger(pattern, partialResults, m.sort, m.tac,")
v('c04r3-swap-comparators', 'C04', 'C04-R3', 'src/matcher.go', "\t\t\t\tif m.tac {\n\t\t\t\t\tsort.Sort(ByRelevanceTac(sliceMatches))\n\t\t\t\t} else {\n\t\t\t\t\tsort.Sort(ByRelevance(sliceMatches))\n\t\t\t\t}", "\t\t\t\tif m.tac {\n\t\t\t\t\tsort.Sort(ByRelevance(sliceMatches))\n\t\t\t\t} else {\n\t\t\t\t\tsort.Sort(ByRelevanceTac(sliceMatches))\n\t\t\t\t}")
v('c04r4-length-first', 'C04', 'C04-R4', 'src/options.go', "return str, []criterion{byScore, byLength}, nil", "return str, []criterion{byLength, byScore}, nil")
# ---- C05
v('c05r1-shared-slab', 'C05', 'C05-R1', 'src/matcher.go', "\t\t}(idx, m.slab[idx], chunks)", "\t\t}(idx, m.slab[0], chunks)")
v('c05r2-overlap', 'C05', 'C05-R2', 'src/algo/algo.go', "\toffset16, C0 := alloc16(offset16, slab, N)", "\toffset16, C0 := alloc16(0, slab, N)")
v('c05r9-no-boundary-init', 'C05', 'C05-R9', 'src/algo/algo.go', "\t\tHleft[0] = 0\n", "")
v('c03-no-boundary-init', 'C03', 'C05-R9', 'src/algo/algo.go', "\t\tHleft[0] = 0\n", "")
# ---- C06
v('c06r1-no-advance', 'C06', 'C06-R1', 'src/reader.go', "\t\tbuf := slab[:n]\n\t\tslab = slab[n:]\n", "\t\tbuf := slab[:n]\n")
v('c06r2-no-tail-copy', 'C06', 'C06-R2', 'src/chunklist.go', "\t\tif tail > 0 && cnt > 1 {\n\t\t\tnewChunk := *ret[0]\n\t\t\tret[0] = &newChunk\n\t\t}\n", "")
v('c06r3-header-consumes-ordinal', 'C06', 'C06-R3', 'src/core.go', "\t\t\tif len(header) < opts.HeaderLines {\n\t\t\t\theader = append(header, byteString(data))\n\t\t\t\theaderUpdated = true\n\t\t\t\treturn false\n\t\t\t}", "\t\t\tif len(header) < opts.HeaderLines {\n\t\t\t\theader = append(header, byteString(data))\n\t\t\t\theaderUpdated = true\n\t\t\t\titemIndex++\n\t\t\t\treturn false\n\t\t\t}")
# ---- C07
v('c07r2-queue-first', 'C07', 'C07-R2', 'src/terminal.go', "\tif t.printQuery {\n\t\tt.printer(string(t.input))\n\t}\n\tif len(t.expect) > 0 {\n\t\tt.printer(t.pressed)\n\t}\n\tfor _, s := range t.printQueue {\n\t\tt.printer(s)\n\t}\n", "\tfor _, s := range t.printQueue {\n\t\tt.printer(s)\n\t}\n\tif t.printQuery {\n\t\tt.printer(string(t.input))\n\t}\n\tif len(t.expect) > 0 {\n\t\tt.printer(t.pressed)\n\t}\n")
v('c07r3-quit-code', 'C07', 'C07-R3', 'src/terminal.go', "exit(func() int { return ExitInterrupt })", "exit(func() int { return ExitError })")
v('c07r3-close-code', 'C07', 'C07-R3', 'src/terminal.go', "\t\t\t\t\t\t\tif t.output() {\n\t\t\t\t\t\t\t\treturn ExitOk\n\t\t\t\t\t\t\t}\n\t\t\t\t\t\t\treturn ExitNoMatch", "\t\t\t\t\t\t\tt.output()\n\t\t\t\t\t\t\treturn ExitOk")
v('c07r4-print-before-close', 'C07', 'C07-R4', 'src/terminal.go', "\t\t\tt.tui.Close()\n\t\t\tcode = getCode()\n", "\t\t\tcode = getCode()\n\t\t\tt.tui.Close()\n")
# ---- C08
v('c08r3-no-cache-clear', 'C08', 'C08-R3', 'src/core.go', "\t\t\t\t\t\t\tpatternCache = make(map[string]*Pattern)\n\t\t\t\t\t\t\tcache.Clear()\n\t\t\t\t\t\t\tinputRevision.bumpMinor()", "\t\t\t\t\t\t\tpatternCache = make(map[string]*Pattern)\n\t\t\t\t\t\t\tinputRevision.bumpMinor()")
v('c08r3-nth-no-bump', 'C08', 'C08-R3', 'src/core.go', "\t\t\t\t\t\t\tnth = *val.nth\n\t\t\t\t\t\t\tbump = true\n", "\t\t\t\t\t\t\tnth = *val.nth\n")
v('c08r4-publish-cancelled', 'C08', 'C08-R4', 'src/matcher.go', "\t\tif !cancelled {\n\t\t\tif merger.cacheable() {", "\t\tif !cancelled || request.final {\n\t\t\tif merger.cacheable() {")
v('c08r5-no-revision-test', 'C08', 'C08-R5', 'src/pattern.go', "\t\tif transformed.revision == p.revision {\n\t\t\treturn transformed.tokens\n\t\t}", "\t\treturn transformed.tokens")
# ---- C09
v('c09r1-direct-insert', 'C09', 'C09-R1', 'src/terminal.go', "\t\t\t\t\t\tif !t.selectItem(t.merger.Get(i).item) {\n\t\t\t\t\t\t\tbreak\n\t\t\t\t\t\t}", "\t\t\t\t\t\titem := t.merger.Get(i).item\n\t\t\t\t\t\tt.selected[item.Index()] = selectedItem{time.Now(), item}")
v('c09r1-limit-side', 'C09', 'C09-R1', 'src/terminal.go', "\tif len(t.selected) >= t.multi {\n\t\treturn false\n\t}", "\tif len(t.selected) > t.multi {\n\t\treturn false\n\t}")
v('c09r2-no-bell-case', 'C09', 'C09-R2', 'src/terminal.go', "\t\t\tcase actBell:\n\t\t\t\tt.tui.Bell()\n", "")
v('c09r3-no-constrain', 'C09', 'C09-R3', 'src/terminal.go', "func (t *Terminal) printList() {\n\tt.constrain()\n", "func (t *Terminal) printList() {\n")
# ---- C10
v('c10r2-pos-not-shifted', 'C10', 'C10-R2', 'src/pattern.go', "\t\t\tif pos != nil {\n\t\t\t\tfor idx := range *pos {\n\t\t\t\t\t(*pos)[idx] += int(part.prefixLength)\n\t\t\t\t}\n\t\t\t}\n", "")
v('c10r2-end-not-shifted', 'C10', 'C10-R2', 'src/pattern.go', "eidx := int32(res.End) + part.prefixLength", "eidx := int32(res.End)")
v('c10r1-second-interpreter', 'C10', 'C10-R1', 'src/item.go', "\ttokens := Tokenize(item.AsString(stripAnsi), delimiter)\n", "\ttokens := Tokenize(item.AsString(stripAnsi), delimiter)\n\tif r := (Range{}); r.begin > len(tokens) {\n\t\treturn \"\"\n\t}\n")
# ---- C12
v('c12r1-backslash-quote', 'C12', 'C12-R1', 'src/util/util_unix.go', "escaper = strings.NewReplacer(\"'\", \"'\\\\''\")", "escaper = strings.NewReplacer(\"'\", \"\\\\'\")")
v('c12r1-esq', 'C12', 'C12-R1', 'src/proxy.go', "return \"'\" + strings.ReplaceAll(str, \"'\", \"'\\\\''\") + \"'\"", "return \"'\" + strings.ReplaceAll(str, \"'\", \"\\\\'\") + \"'\"")
v('c12r2-unquoted-default', 'C12', 'C12-R2', 'src/terminal.go', "\t\t\t\tdefault:\n\t\t\t\t\treturn params.executor.QuoteEntry(item.AsString(params.stripAnsi))", "\t\t\t\tdefault:\n\t\t\t\t\treturn item.AsString(params.stripAnsi)")
v('c12r2-unquoted-query', 'C12', 'C12-R2', 'src/terminal.go', "\t\t\treturn params.executor.QuoteEntry(params.query)", "\t\t\treturn params.query")
v('c12r3-unquoted-arg', 'C12', 'C12-R3', 'src/tmux.go', "\t\targStr += \" \" + escapeSingleQuote(arg)", "\t\targStr += \" \" + arg")
# ---- C13
v('c13r1-search-unlocked', 'C13', 'C13-R1', 'src/cache.go', "func (cc *ChunkCache) Search(chunk *Chunk, key string) []Result {\n\tif len(key) == 0 || !chunk.IsFull() {\n\t\treturn nil\n\t}\n\n\tcc.mutex.Lock()\n\tdefer cc.mutex.Unlock()\n", "func (cc *ChunkCache) Search(chunk *Chunk, key string) []Result {\n\tif len(key) == 0 || !chunk.IsFull() {\n\t\treturn nil\n\t}\n\n")
v('c13r1-killed-unlocked', 'C13', 'C13-R1', 'src/reader.go', "\t\tr.mutex.Lock()\n\t\tdefer r.mutex.Unlock()\n\t\tif r.killed {", "\t\tif r.killed {")
v('c13r3-no-wait', 'C13', 'C13-R3', 'src/matcher.go', "\t\t\treturn nil, wait()", "\t\t\tgo wait()\n\t\t\treturn nil, true")
v('c13r3-no-done', 'C13', 'C13-R3', 'src/matcher.go', "\t\t\tdefer func() { waitGroup.Done() }()\n", "")
# ---- C14
v('c14r1-paste-left-on', 'C14', 'C14-R1', 'src/tui/light.go', "func (r *LightRenderer) disableModes() {\n\tr.disableMouse()\n\tr.csi(\"?2004l\")\n}", "func (r *LightRenderer) disableModes() {\n\tr.disableMouse()\n}")
v('c14r1-mouse-guard', 'C14', 'C14-R1', 'src/tui/light.go', "func (r *LightRenderer) disableMouse() {\n\tif r.mouse {", "func (r *LightRenderer) disableMouse() {\n\tif r.mouse && r.fullscreen {")
v('c14r1-no-restore-on-pause', 'C14', 'C14-R1', 'src/tui/light.go', "func (r *LightRenderer) Pause(clear bool) {\n\tr.disableModes()\n\tr.restoreTerminal()\n", "func (r *LightRenderer) Pause(clear bool) {\n\tr.disableModes()\n")
v('c14r2-stop-without-exit', 'C14', 'C14-R2', 'src/terminal.go', "\t\t\t\t\tcase reqBecome:\n\t\t\t\t\t\texit(func() int { return ExitBecome })\n\t\t\t\t\t\treturn", "\t\t\t\t\tcase reqBecome:\n\t\t\t\t\t\tcode = ExitBecome\n\t\t\t\t\t\trunning = false\n\t\t\t\t\t\tt.mutex.Unlock()\n\t\t\t\t\t\treturn")
v('c14r2-no-kill-after-loop', 'C14', 'C14-R2', 'src/terminal.go', "\t\tif t.hasPreviewer() {\n\t\t\tt.killPreview(previewerDone)\n\t\t}\n\t\tcancel()", "\t\tcancel()")
v('c14r2-quit-before-kill', 'C14', 'C14-R2', 'src/terminal.go', "\t\tt.running.Set(false)\n\t\tif t.hasPreviewer() {", "\t\tt.eventBox.Set(EvtQuit, quitSignal{code, nil})\n\t\tt.running.Set(false)\n\t\tif t.hasPreviewer() {")
v('c20r3-kill-dropped', 'C20', 'C14-R2', 'src/terminal.go', "\tselect {\n\tcase t.killChan <- true:\n\tcase <-previewerDone:\n\t\treturn\n\tcase <-timeout:\n\t\treturn\n\t}", "\tselect {\n\tcase t.killChan <- true:\n\tcase <-previewerDone:\n\t\treturn\n\tdefault:\n\t\treturn\n\t}")
v('c14r3-scroll-leak', 'C14', 'C14-R3', 'src/terminal.go', "\treplaced, tempFiles := t.replacePlaceholder(t.activePreviewOpts.scroll, false, \"\", []*Item{t.currentItem(), nil})\n\tremoveFiles(tempFiles)\n", "\treplaced, _ := t.replacePlaceholder(t.activePreviewOpts.scroll, false, \"\", []*Item{t.currentItem(), nil})\n")
v('c14r4-wait-in-goroutine', 'C14', 'C14-R4', 'src/terminal.go', "\t\t\t\t\t\tcmd.Wait()         // NOTE: We should not call Wait before EOF", "\t\t\t\t\t\tgo cmd.Wait()      // NOTE: We should not call Wait before EOF")
v('c14r5-short-guard', 'C14', 'C14-R5', 'src/tui/light.go', "\t\t\tif len(r.buffer) < 4 {\n\t\t\t\treturn Event{Invalid, 0, nil}\n\t\t\t}\n\t\t\t*sz = 4", "\t\t\tif len(r.buffer) < 3 {\n\t\t\t\treturn Event{Invalid, 0, nil}\n\t\t\t}\n\t\t\t*sz = 4")
# ---- C16
v('c16r2-listen-first', 'C16', 'C16-R2', 'src/server.go', "\tif !address.IsLocal() && len(apiKey) == 0 {\n\t\treturn nil, port, errors.New(\"FZF_API_KEY is required to allow remote access\")\n\t}\n", "")
v('c16r4-plain-compare', 'C16', 'C16-R4', 'src/server.go', "subtle.ConstantTimeCompare([]byte(apiKey), server.apiKey) != 1", "(subtle.ConstantTimeCompare([]byte(apiKey), server.apiKey) != 1 || !bytes.HasPrefix(server.apiKey, []byte(apiKey)))")
v('c16r3-get-writes', 'C16', 'C16-R3', 'src/terminal.go', "\tselectedItems := t.sortSelected()\n\tselected := make([]StatusItem,", "\tt.cy = 0\n\tselectedItems := t.sortSelected()\n\tselected := make([]StatusItem,")
v('c16r5-other-parser', 'C16', 'C16-R5', 'src/server.go', "actions, err := parseSingleActionList(strings.Trim(string(body), \"\\r\\n\"))", "actions, err := parseActionList(strings.Trim(string(body), \"\\r\\n\"), \"\", []*action{}, false)")
# ---- C17
v('c17r1-dropped-error', 'C17', 'C17-R1', 'src/options.go', "\t\t\tif opts.Criteria, err = parseTiebreak(str); err != nil {\n\t\t\t\treturn err\n\t\t\t}", "\t\t\topts.Criteria, _ = parseTiebreak(str)\n\t\t\tparseTiebreak(str)")
v('c17r2-argv-first', 'C17', 'C17-R2', 'src/options.go', "\tindex := 0\n\n\tif useDefaults {", "\tindex := 0\n\n\tif err := parseOptions(&index, opts, args); err != nil {\n\t\treturn nil, err\n\t}\n\targs = nil\n\tif useDefaults {")
v('c17r3-print-unmasked', 'C17', 'C17-R3', 'src/options.go', "(?:re|un|toggle-)bind|pos|put|print|search)", "(?:re|un|toggle-)bind|pos|put|search)")
v('c17r4-exit-ok-on-error', 'C17', 'C17-R4', 'main.go', "\tif err != nil {\n\t\texit(fzf.ExitError, err)\n\t\treturn\n\t}", "\tif err != nil {\n\t\texit(fzf.ExitOk, err)\n\t\treturn\n\t}")
# ---- C18
v('c18r2-append-always', 'C18', 'C18-R2', 'src/terminal.go', "\t\t\tif code <= ExitNoMatch && t.history != nil {", "\t\t\tif t.history != nil {")
v('c18r3-cursor-bound', 'C18', 'C18-R3', 'src/history.go', "\tif h.cursor > 0 {\n\t\th.cursor--", "\tif h.cursor >= 0 {\n\t\th.cursor--")
v('c18r1-modified-to-file', 'C18', 'C18-R1', 'src/history.go', "\th.lines = append(lines, \"\")\n", "\th.lines = append(lines, \"\")\n\tfor i, s := range h.modified {\n\t\tif i < len(h.lines) {\n\t\t\th.lines[i] = s\n\t\t}\n\t}\n")
# ---- C19
v('c19r2-skipdir-for-files', 'C19', 'C19-R2', 'src/reader.go', "\t\t\tisDir := de.IsDir()\n", "\t\t\tisDir := de.IsDir()\n\t\t\tif !opts.hidden && filepath.Base(path)[0] == '.' {\n\t\t\t\treturn filepath.SkipDir\n\t\t\t}\n")
v('c19r1-unused-flag', 'C19', 'C19-R1', 'src/reader.go', "\t\tFollow: opts.follow,\n", "")
# ---- C20
v('c20r1-enqueue-no-cancel', 'C20', 'C20-R1', 'src/terminal.go', "\t\t\t_, list := t.buildPlusList(command, false)\n\t\t\tt.cancelPreview()\n", "\t\t\t_, list := t.buildPlusList(command, false)\n")
v('c20r2-one-reap', 'C20', 'C20-R2', 'src/terminal.go', "\t\t\t\t\t\t<-reapChan         // Goroutine 2 and 3 finished\n\t\t\t\t\t\t<-reapChan\n", "\t\t\t\t\t\t<-reapChan         // Goroutine 2 and 3 finished\n")

# ---- C11
v('c11r1-skip-after-seq', 'C11', 'C11-R1', 'src/ansi.go', "\t\tprevIdx = idx\n", "\t\tprevIdx = idx + 1\n")
v('c11r1-interp-range', 'C11', 'C11-R1', 'src/ansi.go', "newState := interpretCode(str[start:idx], state)", "newState := interpretCode(str[start:], state)")
v('c11r1-rescan-from-start', 'C11', 'C11-R1', 'src/ansi.go', "\t\tstart += idx\n\t\tidx += end\n", "\t\tstart += idx\n\t\tidx = end\n")
v('c11r2-byte-offsets', 'C11', 'C11-R2', 'src/ansi.go', "runeCount += utf8.RuneCountInString(prev)", "runeCount += len(prev)")
v('c11r3-22-leaves-dim', 'C11', 'C11-R3', 'src/ansi.go', "\t\t\t\t\tstate.attr = state.attr &^ tui.Bold\n\t\t\t\t\tstate.attr = state.attr &^ tui.Dim\n", "\t\t\t\t\tstate.attr = state.attr &^ tui.Bold\n")
v('c11r3-24-clears-italic', 'C11', 'C11-R3', 'src/ansi.go', "\t\t\t\tcase 24: // tput rmul\n\t\t\t\t\tstate.attr = state.attr &^ tui.Underline", "\t\t\t\tcase 24: // tput rmul\n\t\t\t\t\tstate.attr = state.attr &^ tui.Italic")
v('c11r4-bright-bg-to-fg', 'C11', 'C11-R4', 'src/ansi.go', "state.bg = tui.Color(num - 100 + 8)", "state.fg = tui.Color(num - 100 + 8)")
v('c11r4-range-width', 'C11', 'C11-R4', 'src/ansi.go', "num >= 90 && num <= 97", "num >= 90 && num <= 98")
v('c11r4-49-resets-fg', 'C11', 'C11-R4', 'src/ansi.go', "\t\t\t\tcase 49:\n\t\t\t\t\tstate.bg = -1", "\t\t\t\tcase 49:\n\t\t\t\t\tstate.fg = -1")
v('c11r5-green-shift', 'C11', 'C11-R5', 'src/ansi.go', "*ptr = *ptr | tui.Color(num<<8)", "*ptr = *ptr | tui.Color(num<<4)")
v('c11r5-stuck-selector', 'C11', 'C11-R5', 'src/ansi.go', "\t\t\t\tcase 5:\n\t\t\t\t\tstate256++\n\t\t\t\tdefault:\n\t\t\t\t\tstate256 = 0\n", "\t\t\t\tcase 5:\n\t\t\t\t\tstate256++\n\t\t\t\tdefault:\n")
v('c11r6-final-no-at', 'C11', 'C11-R6', 'src/ansi.go', "if 'a' <= c && c <= 'z' || 'A' <= c && c <= 'Z' || c == '@' {", "if 'a' <= c && c <= 'z' || 'A' <= c && c <= 'Z' {")
v('c11r6-param-no-question', 'C11', 'C11-R6', 'src/ansi.go', "'8', '9', ';', ':', '?':", "'8', '9', ';', ':':")
v('c11r6-prefilter-no-bs', 'C11', 'C11-R6', 'src/ansi.go', "\t\tcase '\\x0e', '\\x0f', '\\x1b', '\\x08':\n\t\t\t// We ignore", "\t\tcase '\\x0e', '\\x0f', '\\x1b':\n\t\t\t// We ignore")
v('c11r6-esc-newline', 'C11', 'C11-R6', 'src/ansi.go', "if i+1 < len(s) && s[i+1] != '\\n' {", "if i+1 < len(s) {")
v('c11r6-isprint-open', 'C11', 'C11-R6', 'src/ansi.go', "return '\\x20' <= c && c <= '\\x7e'", "return '\\x20' < c && c <= '\\x7e'")
v('c11r6-osc-sep', 'C11', 'C11-R6', 'src/ansi.go', "(s[i+j] == ';' || s[i+j] == ':') && isPrint", "s[i+j] == ';' && isPrint")
v('c11r7-no-carry', 'C11', 'C11-R7', 'src/core.go', "\t\t\t\tlineAnsiState = newState\n", "\t\t\t\t_ = newState\n")
v('c11r7-raw-text', 'C11', 'C11-R7', 'src/core.go', "\t\t\t\ttrimmed, _, _ := extractColor(byteString(data), nil, nil)\n\t\t\t\treturn util.ToChars(stringBytes(trimmed)), nil", "\t\t\t\ttrimmed, _, _ := extractColor(byteString(data), nil, nil)\n\t\t\t\t_ = trimmed\n\t\t\t\treturn util.ToChars(data), nil")

# ---- C15
v('c15r1-drop-selected', 'C15', 'C15-R1', 'src/terminal.go', "\t\tprevLine.selected == newLine.selected &&\n", "")
v('c15r1-drop-label', 'C15', 'C15-R1', 'src/terminal.go', "\t\tprevLine.label == newLine.label &&\n", "")
v('c15r1-drop-firstline', 'C15', 'C15-R1', 'src/terminal.go', "forceRedraw := !prevLine.valid || prevLine.other || prevLine.firstLine != newLine.firstLine", "forceRedraw := !prevLine.valid || prevLine.other")
v('c15r1-self-compare', 'C15', 'C15-R1', 'src/terminal.go', "\t\tprevLine.result == newLine.result {", "\t\tprevLine.result == prevLine.result {")
v('c15r2-drop-label-case', 'C15', 'C15-R2', 'src/terminal.go', "\t\t\t\t\tcase reqRedrawListLabel:\n\t\t\t\t\t\tt.printLabel(t.wborder, t.listLabel, t.listLabelOpts, t.listLabelLen, t.listBorderShape, true)\n", "")
v('c15r2-header-no-print', 'C15', 'C15-R2', 'src/terminal.go', "\t\t\t\t\t\tif !t.resizeIfNeeded() {\n\t\t\t\t\t\t\tt.printHeader()\n\t\t\t\t\t\t}\n", "\t\t\t\t\t\tt.resizeIfNeeded()\n")
v('c15r2-printall-no-header', 'C15', 'C15-R2', 'src/terminal.go', "\tt.printInfo()\n\tt.printHeader()\n\tt.printPreview()\n}", "\tt.printInfo()\n\tt.printPreview()\n}")
v('c15r2-info-flag', 'C15', 'C15-R2', 'src/terminal.go', "\t\t\t\t\tcase reqInfo:\n\t\t\t\t\t\tinfo = true\n", "\t\t\t\t\tcase reqInfo:\n")
v('c15r3-early-return', 'C15', 'C15-R3', 'src/terminal.go', "\t\t\t\tt.uiMutex.Lock()\n\t\t\t\tt.mutex.Lock()\n\t\t\t\tinfo := false\n", "\t\t\t\tt.uiMutex.Lock()\n\t\t\t\tt.mutex.Lock()\n\t\t\t\tif t.suppress && len(keys) == 1 && keys[0] == int(reqInfo) {\n\t\t\t\t\tt.printInfo()\n\t\t\t\t\tt.mutex.Unlock()\n\t\t\t\t\tt.uiMutex.Unlock()\n\t\t\t\t\treturn\n\t\t\t\t}\n\t\t\t\tinfo := false\n")
v('c15r4-cache-kept', 'C15', 'C15-R4', 'src/terminal.go', "\tt.prevLines = make([]itemLine, screenHeight)\n", "\tif len(t.prevLines) != screenHeight {\n\t\tt.prevLines = make([]itemLine, screenHeight)\n\t}\n")
v('c15r4-print-before-resize', 'C15', 'C15-R4', 'src/terminal.go', "\tt.resizeWindows(t.forcePreview, true)\n\tt.printList()\n\tt.printPrompt()", "\tt.printPrompt()\n\tt.resizeWindows(t.forcePreview, true)\n\tt.printList()")
v('c15r4-clear-no-redraw', 'C15', 'C15-R4', 'src/terminal.go', "\t\t\t\t\tt.mutex.Unlock()\n\t\t\t\t\tt.reqBox.Set(reqReinit, nil)\n\t\t\t\t\treturn false", "\t\t\t\t\tt.mutex.Unlock()\n\t\t\t\t\tt.reqBox.Set(reqList, nil)\n\t\t\t\t\treturn false")
v('c15r5-cy-no-offset', 'C15', 'C15-R5', 'src/terminal.go', "line = t.printItem(item, line, maxy, itemCount, itemCount == t.cy-t.offset, barRange)", "line = t.printItem(item, line, maxy, itemCount, itemCount == t.cy, barRange)")
v('c15r5-selected-by-row', 'C15', 'C15-R5', 'src/terminal.go', "\t_, selected := t.selected[item.Index()]\n\tlabel := \"\"", "\t_, selected := t.selected[int32(index)]\n\tlabel := \"\"")

v('c11r10-sgr0-keeps-bg', 'C11', 'C11-R10', 'src/ansi.go', "\t\t\t\tcase 0:\n\t\t\t\t\tstate.fg = -1\n\t\t\t\t\tstate.bg = -1\n", "\t\t\t\tcase 0:\n\t\t\t\t\tstate.fg = -1\n")
v('c11r10-empty-resets-lbg', 'C11', 'C11-R10', 'src/ansi.go', "\tif count == 0 {\n\t\tstate.fg = -1\n", "\tif count == 0 {\n\t\tstate.lbg = -1\n\t\tstate.fg = -1\n")
v('c15r6-empty-row-unmarked', 'C15', 'C15-R6', 'src/terminal.go', "\tt.move(line, 0, true)\n\tt.markEmptyLine(line)\n", "\tt.move(line, 0, true)\n")
v('c15r7-selection-survives-reload', 'C15', 'C15-R7', 'src/terminal.go', "\t\t\t// Reloaded: clear selection\n\t\t\tt.selected = make(map[int32]selectedItem)\n", "\t\t\t// Reloaded\n")

v('c02r5-last-char-lower-only', 'C02', 'C02-R5', 'src/algo/algo.go', "\t\tbu = b - 32\n", "\t\tbu = b\n")
v('c02r5-skip-lower-only', 'C01', 'C02-R5', 'src/algo/algo.go', "\t\tuidx := bytes.IndexByte(byteArray, b-32)\n\t\tif uidx >= 0 {\n\t\t\tidx = uidx\n\t\t}\n", "")

v('c13r7-worker-writes-item', 'C13', 'C13-R7', 'src/result.go', "func buildResult(item *Item, offsets []Offset, score int) Result {\n", "func buildResult(item *Item, offsets []Offset, score int) Result {\n\tif len(offsets) == 0 {\n\t\titem.colors = nil\n\t}\n")
v('c11r11-colon-only-when-no-semicolon', 'C11', 'C11-R11', 'src/ansi.go', "\t} else if j := strings.IndexByte(s[:i], ':'); j >= 0 {\n\t\t// A colon comes before the first semicolon (e.g. \"38:5:100;4\")\n\t\ti = j\n\t}\n", "\t}\n")
v('c05r10-unguarded-lookahead', 'C05', 'C05-R10', 'src/algo/algo.go', "next < M && j < lastIdx && j+1 >= int(F[next]) {", "next < M && j < lastIdx {")

v('c03r4-scheme-as-typed', 'C03', 'C03-R4', 'src/options.go', "\tstr = strings.ToLower(str)\n\tswitch str {\n\tcase \"history\":", "\tswitch strings.ToLower(str) {\n\tcase \"history\":")
v('c03r4-default-under-criteria', 'C01', 'C03-R4', 'src/options.go', "\tif len(opts.Scheme) == 0 {\n\t\topts.Scheme = \"default\"\n\t\tif len(opts.Criteria) == 0 {", "\tif len(opts.Scheme) == 0 && len(opts.Criteria) == 0 {\n\t\topts.Scheme = \"default\"\n\t\t{")
v('c01r5-isempty-one-mode', 'C01', 'C01-R5', 'src/pattern.go', "\tif !p.extended {\n\t\treturn len(p.text) == 0\n\t}\n\treturn len(p.termSets) == 0", "\treturn len(p.termSets) == 0")
v('c02r3-raw-pidx', 'C02', 'C02-R3', 'src/algo/algo.go', "if ok && pidx_ == len(pattern)-1 {", "if ok && pidx == len(pattern)-1 {")
v('c02r6-store-only-when-normalising', 'C02', 'C02-R6', 'src/algo/algo.go', "\t\t\tif normalize {\n\t\t\t\tchar = normalizeRune(char)\n\t\t\t}\n\t\t\tT[off] = char\n", "\t\t\tif normalize {\n\t\t\t\tchar = normalizeRune(char)\n\t\t\t\tT[off] = char\n\t\t\t}\n")
v('c04r8-raw-uint16', 'C04', 'C04-R8', 'src/util/chars.go', "chars.trimLength = AsUint16(i - j + 1)", "chars.trimLength = uint16(i - j + 1)")
v('c04r9-sort-keeps-cache', 'C04', 'C04-R9', 'src/matcher.go', "\t\tif request.sort != m.sort || request.revision != m.revision {\n\t\t\tm.sort = request.sort\n", "\t\tif request.sort != m.sort {\n\t\t\tm.sort = request.sort\n\t\t\tdelete(m.mergerCache, request.pattern.AsString())\n\t\t}\n\t\tif request.revision != m.revision {\n")
v('c13r8-build-outside-lock', 'C13', 'C13-R8', 'src/chunklist.go', "\tret := cl.lastChunk().push(cl.trans, data)\n\tcl.mutex.Unlock()\n\treturn ret\n", "\tchunk := cl.lastChunk()\n\tcl.mutex.Unlock()\n\treturn chunk.push(cl.trans, data)\n")
v('c06r6-itemlines-alias', 'C06', 'C06-R6', 'src/terminal.go', "\t\ttext := make([]rune, item.text.Length())\n\t\tcopy(text, item.text.ToRunes())\n\t\treturn [][]rune{text}, false\n", "\t\treturn [][]rune{item.text.ToRunes()}, false\n")

v('c15r8-mark-other-row', 'C15', 'C15-R8', 'src/terminal.go', "\t\tt.move(y, x, clear)\n\t\tt.markOtherLine(y)\n", "\t\tt.move(y, x, clear)\n\t\tt.markOtherLine(line)\n")
v('c04r10-sort-from-pattern', 'C04', 'C04-R10', 'src/core.go', "matcher.sort = sort && pattern.sortable", "matcher.sort = pattern.sortable")
v('c08r12-clear-only-on-reload', 'C08', 'C08-R12', 'src/matcher.go', "\t\t\tif request.revision != m.revision {\n", "\t\t\tm.revision = request.revision\n\t\t\tif !request.revision.compatible(m.revision) {\n")

# ---- benign edits (must stay silent)
b('rename-previousInput', ['C08', 'C09'], 'src/terminal.go', 'previousInput', 'inputBefore', count=0)
b('rename-leftover', ['C06'], 'src/reader.go', 'leftover', 'carry', count=0)
b('flip-alloc16', ['C02', 'C03', 'C05'], 'src/algo/algo.go', "\tif slab != nil && cap(slab.I16) > offset+size {\n\t\tslice := slab.I16[offset : offset+size]\n\t\treturn offset + size, slice\n\t}\n\treturn offset, make([]int16, size)", "\tif slab == nil || cap(slab.I16) <= offset+size {\n\t\treturn offset, make([]int16, size)\n\t}\n\tslice := slab.I16[offset : offset+size]\n\treturn offset + size, slice")
b('explicit-unlock-lookup', ['C13', 'C08'], 'src/cache.go', "\tcc.mutex.Lock()\n\tdefer cc.mutex.Unlock()\n\n\tqc, ok := cc.cache[chunk]\n\tif ok {\n\t\tlist, ok := (*qc)[key]\n\t\tif ok {\n\t\t\treturn list\n\t\t}\n\t}\n\treturn nil", "\tcc.mutex.Lock()\n\tqc, ok := cc.cache[chunk]\n\tif ok {\n\t\tlist, ok := (*qc)[key]\n\t\tif ok {\n\t\t\tcc.mutex.Unlock()\n\t\t\treturn list\n\t\t}\n\t}\n\tcc.mutex.Unlock()\n\treturn nil")
b('reorder-close', ['C14', 'C20'], 'src/tui/light.go', "\tif !r.showCursor {\n\t\tr.csi(\"?25h\")\n\t}\n\tr.disableModes()\n", "\tr.disableModes()\n\tif !r.showCursor {\n\t\tr.csi(\"?25h\")\n\t}\n")
b('quote-method-value', ['C12'], 'src/terminal.go', "\t\tcase match == \"{q}\" || match == \"{fzf:query}\":\n\t\t\treturn params.executor.QuoteEntry(params.query)", "\t\tcase match == \"{q}\" || match == \"{fzf:query}\":\n\t\t\tquote := params.executor.QuoteEntry\n\t\t\treturn quote(params.query)")
b('key-check-helper-order', ['C16'], 'src/server.go', "\tif len(server.apiKey) != 0 && subtle.ConstantTimeCompare([]byte(apiKey), server.apiKey) != 1 {\n\t\treturn unauthorized(\"invalid api key\")\n\t}", "\tif len(server.apiKey) > 0 {\n\t\tif subtle.ConstantTimeCompare(server.apiKey, []byte(apiKey)) == 0 {\n\t\t\treturn unauthorized(\"invalid api key\")\n\t\t}\n\t}")
b('history-early-return', ['C18'], 'src/history.go', "\tif h.cursor > 0 {\n\t\th.cursor--\n\t}\n\treturn h.current()", "\tif h.cursor <= 0 {\n\t\treturn h.current()\n\t}\n\th.cursor--\n\treturn h.current()")
b('walker-switch-order', ['C19'], 'src/options.go', "\t\tcase \"hidden\":\n\t\t\topts.hidden = true\n\t\tcase \"follow\":\n\t\t\topts.follow = true\n", "\t\tcase \"follow\":\n\t\t\topts.follow = true\n\t\tcase \"hidden\":\n\t\t\topts.hidden = true\n")
b('exit-codes-switch', ['C07'], 'src/terminal.go', "\t\t\t\t\t\t\tif t.output() {\n\t\t\t\t\t\t\t\treturn ExitOk\n\t\t\t\t\t\t\t}\n\t\t\t\t\t\t\treturn ExitNoMatch", "\t\t\t\t\t\t\tif !t.output() {\n\t\t\t\t\t\t\t\treturn ExitNoMatch\n\t\t\t\t\t\t\t}\n\t\t\t\t\t\t\treturn ExitOk")
b('seq-strict', ['C08', 'C13'], 'src/matcher.go', "if val.seq >= request.seq {", "if val.seq > request.seq {")
# (a benign 'new action' edit needs the stringer tool to regenerate actiontype_string.go; not available offline)
b('lookup-then-guard', ['C01'], 'src/pattern.go', "\tif p.cacheable {\n\t\tif cached := p.cache.Lookup(chunk, cacheKey); cached != nil {\n\t\t\treturn cached\n\t\t}\n\t}", "\tcached := p.cache.Lookup(chunk, cacheKey)\n\tif p.cacheable && cached != nil {\n\t\treturn cached\n\t}")

b('ansi-introducer-expr', ['C11'], 'src/ansi.go', "\tswitch c {\n\tcase '[', '(', ')':\n\t\treturn true\n\t}\n\treturn false", "\treturn c == '(' || c == '[' || c == ')'")
b('ansi-rename-state256', ['C11'], 'src/ansi.go', 'state256', 'extState', count=0)
b('ansi-finals-reorder', ['C11'], 'src/ansi.go', "if 'a' <= c && c <= 'z' || 'A' <= c && c <= 'Z' || c == '@' {", "if c == '@' || 'A' <= c && c <= 'Z' || 'a' <= c && c <= 'z' {")
b('ansi-attr-compound', ['C11'], 'src/ansi.go', "state.attr = state.attr | tui.Bold", "state.attr |= tui.Bold")
b('ansi-colour-switch', ['C11'], 'src/ansi.go', "\t\t\t\t\tif num >= 30 && num <= 37 {\n\t\t\t\t\t\tstate.fg = tui.Color(num - 30)\n\t\t\t\t\t} else if num >= 40 && num <= 47 {\n\t\t\t\t\t\tstate.bg = tui.Color(num - 40)\n\t\t\t\t\t} else if", "\t\t\t\t\tif num >= 40 && num <= 47 {\n\t\t\t\t\t\tstate.bg = tui.Color(num - 40)\n\t\t\t\t\t} else if num >= 30 && num <= 37 {\n\t\t\t\t\t\tstate.fg = tui.Color(num - 30)\n\t\t\t\t\t} else if")

b('render-compare-order', ['C15'], 'src/terminal.go', "\t\tprevLine.current == newLine.current &&\n\t\tprevLine.selected == newLine.selected &&\n", "\t\tnewLine.selected == prevLine.selected &&\n\t\tprevLine.current == newLine.current &&\n")
b('render-printall-order', ['C15'], 'src/terminal.go', "\tt.printList()\n\tt.printPrompt()\n\tt.printInfo()\n", "\tt.printPrompt()\n\tt.printInfo()\n\tt.printList()\n")
b('render-rename-info', ['C15'], 'src/terminal.go', "\t\t\t\tinfo := false\n", "\t\t\t\tinfo := false || false\n")
b('render-header-flip', ['C15'], 'src/terminal.go', "\t\t\t\t\t\tif !t.resizeIfNeeded() {\n\t\t\t\t\t\t\tt.printHeader()\n\t\t\t\t\t\t}\n", "\t\t\t\t\t\tif resized := t.resizeIfNeeded(); resized {\n\t\t\t\t\t\t\tbreak\n\t\t\t\t\t\t}\n\t\t\t\t\t\tt.printHeader()\n")
b('boundary-init-through-root', ['C03', 'C05'], 'src/algo/algo.go', "\t\tHleft[0] = 0\n", "\t\tH[row+f-f0-1] = 0\n")

b('reload-reset-order', ['C15'], 'src/terminal.go', "\t\t\tt.selected = make(map[int32]selectedItem)\n\t\t\tt.clearNumLinesCache()\n", "\t\t\tt.clearNumLinesCache()\n\t\t\tt.selected = make(map[int32]selectedItem)\n")

b('prefilter-upper-first', ['C01', 'C02', 'C03', 'C05'], 'src/algo/algo.go', "\t\tif scope[offset] == b || scope[offset] == bu {", "\t\tif scope[offset] == bu || scope[offset] == b {")

b('replace-query-append-copy', ['C06', 'C07', 'C13'], 'src/terminal.go', "t.input = copySlice(current.text.ToRunes())", "t.input = append([]rune{}, current.text.ToRunes()...)")
b('asuint16-switch', ['C04'], 'src/util/util.go', "\tif val > math.MaxUint16 {\n\t\treturn math.MaxUint16\n\t} else if val < 0 {\n\t\treturn 0\n\t}\n\treturn uint16(val)", "\tif val < 0 {\n\t\treturn 0\n\t}\n\tif val > math.MaxUint16 {\n\t\treturn math.MaxUint16\n\t}\n\treturn uint16(val)")

b('tmux-first-token-geq', ['C17'], 'src/options.go', "\tif len(tokens) > 0 {\n\t\tfirst = tokens[0]\n\t}", "\tif len(tokens) >= 1 {\n\t\tfirst = tokens[0]\n\t}")
b('islocal-order', ['C16'], 'src/server.go', "return addr.host == \"localhost\" || addr.host == \"127.0.0.1\"", "return addr.host == \"127.0.0.1\" || addr.host == \"localhost\"")
b('history-current-rename', ['C18'], 'src/history.go', "\tif str, prs := h.modified[h.cursor]; prs {\n\t\treturn str\n\t}", "\tif edited, found := h.modified[h.cursor]; found {\n\t\treturn edited\n\t}")
b('awk-white-order', ['C10'], 'src/tokenizer.go', "white := r == 9 || r == 32", "white := r == 32 || r == 9")
b('proxy-remove-order', ['C14'], 'src/proxy.go', "\t\t\t\tos.Remove(temp)\n\t\t\t\tos.Remove(input)\n\t\t\t\tos.Remove(output)\n", "\t\t\t\tos.Remove(output)\n\t\t\t\tos.Remove(input)\n\t\t\t\tos.Remove(temp)\n")
b('reset-seq-first', ['C08'], 'src/matcher.go', "\tpattern := m.patternBuilder(patternRunes)\n\n\tvar event util.EventType\n\tif cancel {\n\t\tevent = reqReset\n\t} else {\n\t\tevent = reqRetry\n\t}\n\tm.reqSeq++\n", "\tm.reqSeq++\n\tpattern := m.patternBuilder(patternRunes)\n\n\tvar event util.EventType\n\tif cancel {\n\t\tevent = reqReset\n\t} else {\n\t\tevent = reqRetry\n\t}\n")

b('matcher-revision-after-clear', ['C08', 'C04', 'C13', 'C05'], 'src/matcher.go', "\t\t\t\tm.cache.Clear()\n\t\t\t\tm.revision = request.revision\n\t\t\t}\n", "\t\t\t\tm.cache.Clear()\n\t\t\t}\n\t\t\tm.revision = request.revision\n")
b('dumpstatus-max-args', ['C16'], 'src/terminal.go', "matches := make([]StatusItem, util.Max(0, util.Min(params.limit, t.merger.Length()-params.offset)))", "matches := make([]StatusItem, util.Max(util.Min(params.limit, t.merger.Length()-params.offset), 0))")
b('alt-unescape-order', ['C17'], 'src/options.go', "\t\t\t\tcase escapedColon:\n\t\t\t\t\tr = ':'\n\t\t\t\tcase escapedComma:\n\t\t\t\t\tr = ','\n", "\t\t\t\tcase escapedComma:\n\t\t\t\t\tr = ','\n\t\t\t\tcase escapedColon:\n\t\t\t\t\tr = ':'\n")
b('preview-flags-or', ['C12', 'C20'], 'src/terminal.go', "\t\tif flags.plus {\n\t\t\tplus = true\n\t\t}\n", "\t\tplus = plus || flags.plus\n")
b('equals-field-order', ['C11'], 'src/ansi.go', "return s.fg == t.fg && s.bg == t.bg && s.attr == t.attr && s.lbg == t.lbg && s.url == t.url", "return s.url == t.url && s.lbg == t.lbg && s.attr == t.attr && s.bg == t.bg && s.fg == t.fg")

# ---- round 7 rules: broken variants (beyond the reverse patches of D19..D39) and behaviour-preserving edits
v('c02r9-v1-classified-fold', 'C02', 'C02-R9', 'src/algo/algo.go', "\t\t\t} else if char > unicode.MaxASCII {\n\t\t\t\tchar = unicode.To(unicode.LowerCase, char)\n\t\t\t}\n\t\t}\n\t\tif normalize {\n\t\t\tchar = normalizeRune(char)\n\t\t}\n\t\tpchar := pattern[indexAt(pidx, lenPattern, forward)]", "\t\t\t} else if char > unicode.MaxASCII && unicode.IsUpper(char) {\n\t\t\t\tchar = unicode.To(unicode.LowerCase, char)\n\t\t\t}\n\t\t}\n\t\tif normalize {\n\t\t\tchar = normalizeRune(char)\n\t\t}\n\t\tpchar := pattern[indexAt(pidx, lenPattern, forward)]")
v('c03r5-prefix-score-plus-one', 'C03', 'C03-R5', 'src/algo/algo.go', "\treturn Result{trimmedLen, trimmedLen + lenPattern, score}, nil\n}\n\n// SuffixMatch", "\treturn Result{trimmedLen, trimmedLen + lenPattern, score + int(bonusBoundaryWhite)}, nil\n}\n\n// SuffixMatch")
v('c03r6-history-keeps-delimiter-bonus', 'C03', 'C03-R6', 'src/algo/algo.go', "\tcase \"history\":\n\t\tbonusBoundaryWhite = bonusBoundary\n\t\tbonusBoundaryDelimiter = bonusBoundary\n", "\tcase \"history\":\n\t\tbonusBoundaryWhite = bonusBoundary\n")
v('c18r8-fatal-keeps-looping', 'C18', 'C18-R8', 'src/terminal.go', "\t\t\t\tcase reqClose, reqQuit, reqPrintQuery, reqBecome, reqFatal:", "\t\t\t\tcase reqClose, reqQuit, reqPrintQuery, reqBecome:")
v('c14r10-scrollbar-guard-lss', 'C14', 'C14-R10', 'src/terminal.go', "\tif total == 0 || total*perLine <= height {", "\tif total == 0 || total*perLine < height {")
v('c09r9-constrain-no-max', 'C09', 'C09-R9', 'src/terminal.go', "\t\tt.cy = util.Constrain(t.cy, 0, util.Max(0, count-1))", "\t\tt.cy = util.Constrain(t.cy, 0, count-1)")
v('c08r15-merge-drops-denylist', 'C08', 'C08-R15', 'src/terminal.go', "\tif len(pending.denylist) > 0 && pending.revision.compatible(r.revision) {\n\t\tr.denylist = append(pending.denylist, r.denylist...)\n\t}\n", "")
v('c08r15-post-with-set', 'C08', 'C08-R15', 'src/terminal.go', "\t\t\tt.eventBox.Update(EvtSearchNew, func(pending any) any {\n\t\t\t\tif prev, ok := pending.(searchRequest); ok {\n\t\t\t\t\treturn reloadRequest.merge(prev)\n\t\t\t\t}\n\t\t\t\treturn *reloadRequest\n\t\t\t})", "\t\t\tt.eventBox.Update(EvtSearchNew, func(pending any) any {\n\t\t\t\treturn *reloadRequest\n\t\t\t})")
v('c11r15-restart-keeps-ordinal', 'C11', 'C11-R15', 'src/core.go', "\t\titemIndex = 0\n\t\tlineAnsiState = nil\n", "\t\tlineAnsiState = nil\n")
v('c14r11-terminate-keeps-files', 'C14', 'C14-R11', 'src/reader.go', "\tremoveFiles(r.tempFiles)\n\tr.tempFiles = nil\n\tr.mutex.Unlock()\n}", "\tr.tempFiles = nil\n\tr.mutex.Unlock()\n}")
v('c14r11-quit-keeps-next', 'C14', 'C14-R11', 'src/core.go', "\t\t\t\t\tif nextCommand != nil {\n\t\t\t\t\t\tremoveFiles(nextCommand.tempFiles)\n\t\t\t\t\t}\n\t\t\t\t\t// A reload request that we have not handled yet", "\t\t\t\t\t// A reload request that we have not handled yet")
v('c16r11-execute-silent-unlisted', 'C16', 'C16-R11', 'src/terminal.go', "\t\tactExecute,\n\t\tactExecuteSilent,\n\t\tactExecuteMulti,\n\t\tactReload,", "\t\tactExecute,\n\t\tactExecuteMulti,\n\t\tactReload,")
v('c01r6-nbsp-rewrite', 'C01', 'C01-R6', 'src/pattern.go', "\t\tlowerText := strings.ToLower(text)\n", "\t\ttext = strings.ReplaceAll(text, \"\\u00a0\", \" \")\n\t\tlowerText := strings.ToLower(text)\n")
v('c01r4-space-before-escape', 'C01', 'C01-R4', 'src/pattern.go', "\t\tif str[i] == '\\\\' && i+1 < len(str) && str[i+1] == ' ' {\n\t\t\ttoken.WriteByte(' ')\n\t\t\ti++\n\t\t} else if str[i] == ' ' {", "\t\tif str[i] == ' ' && i > 0 {\n\t\t\ttokens = append(tokens, token.String())\n\t\t\ttoken.Reset()\n\t\t} else if str[i] == '\\\\' && i+1 < len(str) && str[i+1] == ' ' {\n\t\t\ttoken.WriteByte(' ')\n\t\t\ti++\n\t\t} else if str[i] == ' ' {")
v('c18r9-append-uncapped', 'C18', 'C18-R9', 'src/history.go', "\tif len(lines) > h.maxSize {\n\t\tlines = lines[len(lines)-h.maxSize:]\n\t}\n", "")
v('c06r9-stream-despite-tail', 'C06', 'C06-R9', 'src/core.go', " && !opts.Sync && opts.Tail == 0\n", " && !opts.Sync\n")
v('c13r10-push-outside-lock', 'C13', 'C13-R10', 'src/chunklist.go', "\tret := cl.lastChunk().push(cl.trans, data)\n\tcl.mutex.Unlock()\n\treturn ret\n", "\tlast := cl.lastChunk()\n\tcl.mutex.Unlock()\n\treturn last.push(cl.trans, data)\n")

b('v1-range-test-order', ['C01', 'C02', 'C03', 'C05'], 'src/algo/algo.go', "\t\t\tif char >= 'A' && char <= 'Z' {\n\t\t\t\tchar += 32\n\t\t\t} else if char > unicode.MaxASCII {\n\t\t\t\tchar = unicode.To(unicode.LowerCase, char)\n\t\t\t}\n\t\t}\n\t\tif normalize {\n\t\t\tchar = normalizeRune(char)\n\t\t}\n\t\tpchar := pattern[indexAt(pidx, lenPattern, forward)]", "\t\t\tif char <= 'Z' && char >= 'A' {\n\t\t\t\tchar += 32\n\t\t\t} else if char > unicode.MaxASCII {\n\t\t\t\tchar = unicode.To(unicode.LowerCase, char)\n\t\t\t}\n\t\t}\n\t\tif normalize {\n\t\t\tchar = normalizeRune(char)\n\t\t}\n\t\tpchar := pattern[indexAt(pidx, lenPattern, forward)]")
b('stream-tail-lss-one', ['C06', 'C08', 'C13'], 'src/core.go', " && !opts.Sync && opts.Tail == 0\n", " && !opts.Sync && opts.Tail < 1\n")
b('init-defaults-swapped', ['C03', 'C05'], 'src/algo/algo.go', "\tdelimiterChars = \"/,:;|\"\n\tinitialCharClass = charWhite\n\tswitch scheme {", "\tinitialCharClass = charWhite\n\tdelimiterChars = \"/,:;|\"\n\tswitch scheme {")
b('req-stop-if-chain', ['C18', 'C07', 'C09'], 'src/terminal.go', "\t\t\t\tswitch event {\n\t\t\t\tcase reqClose, reqQuit, reqPrintQuery, reqBecome, reqFatal:\n\t\t\t\t\t// The session ends with this request; stop processing keys\n\t\t\t\t\tlooping = false\n\t\t\t\t}", "\t\t\t\tif event == reqClose || event == reqQuit || event == reqPrintQuery || event == reqBecome || event == reqFatal {\n\t\t\t\t\tlooping = false\n\t\t\t\t}")
b('preview-range-geq-one', ['C14', 'C20'], 'src/terminal.go', "t.activePreviewOpts.cycle && offsetRange > 0 {", "t.activePreviewOpts.cycle && offsetRange >= 1 {")
b('vset-max-args-swapped', ['C09'], 'src/terminal.go', "\tt.cy = util.Constrain(o, 0, util.Max(0, t.merger.Length()-1))", "\tt.cy = util.Constrain(o, 0, util.Max(t.merger.Length()-1, 0))")
b('label-pos-two-statements', ['C17'], 'src/options.go', "\t\t\tif opts.column, err = atoi(token); err != nil {\n\t\t\t\treturn err\n\t\t\t}", "\t\t\topts.column, err = atoi(token)\n\t\t\tif err != nil {\n\t\t\t\treturn err\n\t\t\t}")
b('merge-statement-order', ['C08', 'C10'], 'src/terminal.go', "\tr.changed = r.changed || pending.changed\n\tif r.nth == nil {\n\t\tr.nth = pending.nth\n\t}\n", "\tif r.nth == nil {\n\t\tr.nth = pending.nth\n\t}\n\tr.changed = pending.changed || r.changed\n")
b('restart-reset-order', ['C11', 'C06', 'C15'], 'src/core.go', "\t\titemIndex = 0\n\t\tlineAnsiState = nil\n\t\tinputRevision.bumpMajor()\n\t\theader = make([]string, 0, opts.HeaderLines)\n", "\t\titemIndex = 0\n\t\tinputRevision.bumpMajor()\n\t\theader = make([]string, 0, opts.HeaderLines)\n\t\tlineAnsiState = nil\n")
b('walker-isdir-late', ['C19'], 'src/reader.go', "\t\t\t\t// A symbolic link to a directory that we follow is a directory\n\t\t\t\tisDir = true\n\t\t\t\tbase := filepath.Base(path)", "\t\t\t\tbase := filepath.Base(path)\n\t\t\t\tisDir = true")
b('split-writestring', ['C01'], 'src/pattern.go', "\t\t\ttoken.WriteByte(' ')\n\t\t\ti++\n", "\t\t\ttoken.WriteString(\" \")\n\t\t\ti++\n")
b('history-cap-flipped', ['C18'], 'src/history.go', "\tif len(lines) > maxSize {\n\t\tlines = lines[len(lines)-maxSize:]\n\t}\n", "\tif maxSize < len(lines) {\n\t\tlines = lines[len(lines)-maxSize:]\n\t}\n")
b('terminate-order', ['C14', 'C13'], 'src/reader.go', "\tr.killed = true\n\tif r.termFunc != nil {\n\t\tr.termFunc()\n\t\tr.termFunc = nil\n\t}\n\t// fzf may exit before the reader gets to remove them\n\tremoveFiles(r.tempFiles)\n\tr.tempFiles = nil\n", "\tr.killed = true\n\t// fzf may exit before the reader gets to remove them\n\tremoveFiles(r.tempFiles)\n\tr.tempFiles = nil\n\tif r.termFunc != nil {\n\t\tr.termFunc()\n\t\tr.termFunc = nil\n\t}\n")
b('watcher-peek-first', ['C20', 'C14'], 'src/terminal.go', "\t\t\t\t\t\t\ttimer := time.NewTimer(previewDelayed)\n\t\t\t\t\t\t\t// cancelPreview does not block. A request that was enqueued while\n\t\t\t\t\t\t\t// this command was being started found nobody listening, so its\n\t\t\t\t\t\t\t// cancellation was lost. It is still in the box.\n\t\t\t\t\t\t\tsuperseded := t.previewBox.Peek(reqPreviewEnqueue)\n", "\t\t\t\t\t\t\tsuperseded := t.previewBox.Peek(reqPreviewEnqueue)\n\t\t\t\t\t\t\ttimer := time.NewTimer(previewDelayed)\n")
b('process-execution-order', ['C16'], 'src/terminal.go', "\t\tactExecute,\n\t\tactExecuteSilent,\n\t\tactExecuteMulti,", "\t\tactExecuteMulti,\n\t\tactExecuteSilent,\n\t\tactExecute,")
b('tail-filter-named-diff', ['C09', 'C06'], 'src/terminal.go', "\t\t\t\tif k-minIndex >= 0 {", "\t\t\t\tif d := k - minIndex; d >= 0 {")
b('equal-score-two-steps', ['C03', 'C05'], 'src/algo/algo.go', "\t\tscore, _ := calculateScore(caseSensitive, normalize, text, pattern, trimmedLen, trimmedLen+lenPattern, false)\n\t\treturn Result{trimmedLen, trimmedLen + lenPattern, score}, nil", "\t\teidx := trimmedLen + lenPattern\n\t\tscore, _ := calculateScore(caseSensitive, normalize, text, pattern, trimmedLen, eidx, false)\n\t\treturn Result{trimmedLen, eidx, score}, nil")
b('proxy-done-named', ['C07', 'C14'], 'src/proxy.go', "\t<-outputDone\n\treturn ExitOk, nil", "\t_, _ = <-outputDone\n\treturn ExitOk, nil")

# ---- behaviour-preserving edits for the second batch of round-7 rules
b('bonus-threshold-geq', ['C03', 'C05'], 'src/algo/algo.go', "func bonusFor(prevClass charClass, class charClass) int16 {\n\tif class > charNonWord {", "func bonusFor(prevClass charClass, class charClass) int16 {\n\tif class >= charDelimiter {")
b('or-group-flag-first', ['C01'], 'src/pattern.go', "\t\t\t\toffset, currentScore = off, score\n\t\t\t\tmatched = true\n\t\t\t\tif withPos {", "\t\t\t\tmatched = true\n\t\t\t\toffset, currentScore = off, score\n\t\t\t\tif withPos {")
b('merger-get-flipped-compare', ['C04', 'C13'], 'src/merger.go', "\t\tif firstChunk.count < chunkSize && idx >= firstChunk.count {", "\t\tif firstChunk.count < chunkSize && firstChunk.count <= idx {")
b('findindex-mirror-order', ['C09'], 'src/merger.go', "\t\tindex = int(itemIndex - mg.minIndex)\n\t\tif mg.tac {\n\t\t\tindex = mg.count - index - 1\n\t\t}", "\t\tindex = int(itemIndex - mg.minIndex)\n\t\tif mg.tac {\n\t\t\tindex = mg.count - 1 - index\n\t\t}")
b('isempty-neq-zero', ['C08'], 'src/pattern.go', "\tif len(p.denylist) > 0 {\n\t\treturn false\n\t}\n\tif !p.extended {", "\tif len(p.denylist) != 0 {\n\t\treturn false\n\t}\n\tif !p.extended {")
b('output-branches-swapped', ['C07', 'C09'], 'src/terminal.go', "\tfound := len(t.selected) > 0\n\tif !found {\n\t\tcurrent := t.currentItem()\n\t\tif current != nil {\n\t\t\tt.printer(transform(current))\n\t\t\tfound = true\n\t\t}\n\t} else {\n\t\tfor _, sel := range t.sortSelected() {\n\t\t\tt.printer(transform(sel.item))\n\t\t}\n\t}\n\treturn found", "\tfound := len(t.selected) > 0\n\tif found {\n\t\tfor _, sel := range t.sortSelected() {\n\t\t\tt.printer(transform(sel.item))\n\t\t}\n\t} else {\n\t\tcurrent := t.currentItem()\n\t\tif current != nil {\n\t\t\tt.printer(transform(current))\n\t\t\tfound = true\n\t\t}\n\t}\n\treturn found")
b('walker-empty-command-string-compare', ['C19'], 'src/reader.go', "\t\tcmd := os.Getenv(\"FZF_DEFAULT_COMMAND\")\n\t\tif len(cmd) == 0 {", "\t\tcmd := os.Getenv(\"FZF_DEFAULT_COMMAND\")\n\t\tif cmd == \"\" {")
b('pluslist-neq-zero', ['C20', 'C12'], 'src/terminal.go', "(forcePlus || plus) && len(t.selected) > 0) {", "(forcePlus || plus) && len(t.selected) != 0) {")
b('header-height-test-flipped', ['C15'], 'src/terminal.go', "t.headerWindow != nil && primaryHeaderLines != t.headerWindow.Height()) ||", "t.headerWindow != nil && t.headerWindow.Height() != primaryHeaderLines) ||")
b('normalize-range-order', ['C01', 'C02'], 'src/algo/normalize.go', "\t\tif r < 0x00C0 || r > 0x2184 {\n\t\t\tcontinue\n\t\t}", "\t\tif r > 0x2184 || r < 0x00C0 {\n\t\t\tcontinue\n\t\t}")
b('marker-break-geq', ['C17'], 'src/options.go', "\t\tif idx == 3 {\n\t\t\tbreak\n\t\t}", "\t\tif idx >= 3 {\n\t\t\tbreak\n\t\t}")
b('rubout-named-killed', ['C09'], 'src/terminal.go', "\tt.yanked = copySlice(t.input[t.cx:pcx])\n\tt.input = append(t.input[:t.cx], after...)", "\tkilled := copySlice(t.input[t.cx:pcx])\n\tt.yanked = killed\n\tt.input = append(t.input[:t.cx], after...)")
b('keymatch-operands-swapped', ['C07'], 'src/terminal.go', "\treturn event.Type == key.Type && event.Char == key.Char ||", "\treturn key.Type == event.Type && key.Char == event.Char ||")
b('history-write-via-create', ['C18'], 'src/history.go', "\treturn os.WriteFile(h.path, []byte(strings.Join(h.lines, \"\\n\")), 0600)", "\tdata := []byte(strings.Join(h.lines, \"\\n\"))\n\treturn os.WriteFile(h.path, data, 0600)")
v('c10r7-placeholder-trimright', 'C10', 'C10-R7', 'src/terminal.go', "\t\t\t\t\tstr = strings.TrimSuffix(str, *params.delimiter.str)", "\t\t\t\t\tstr = strings.TrimRight(str, *params.delimiter.str)")
v('c14r13-next-selected-no-guard', 'C14', 'C14-R13', 'src/terminal.go', "\t\t\t\t\tfor i := 1; i < total; i++ {\n\t\t\t\t\t\ty := (t.cy + i) % total", "\t\t\t\t\tfor i := 1; i <= total; i++ {\n\t\t\t\t\t\ty := (t.cy + i) % total")
v('c18r10-openfile-no-trunc', 'C18', 'C18-R10', 'src/history.go', "\treturn os.WriteFile(h.path, []byte(strings.Join(h.lines, \"\\n\")), 0600)", "\tf, err := os.OpenFile(h.path, os.O_WRONLY|os.O_CREATE, 0600)\n\tif err != nil {\n\t\treturn err\n\t}\n\tdefer f.Close()\n\t_, err = f.WriteString(strings.Join(h.lines, \"\\n\"))\n\treturn err")
v('c05r13-pattern-scratch', 'C05', 'C05-R13', 'src/pattern.go', "\tif p.extended {\n\t\tif offsets, bonus, pos := p.extendedMatch(item, withPos, slab); len(offsets) == len(p.termSets) {", "\tp.cacheKey = p.cacheKey[:len(p.cacheKey)]\n\tif p.extended {\n\t\tif offsets, bonus, pos := p.extendedMatch(item, withPos, slab); len(offsets) == len(p.termSets) {")

# ---- round 8 rules: broken variants other than the seeded changes themselves, and behaviour-preserving edits
v('c01r10-length-compare', 'C01', 'C01-R10', 'src/terminal.go', "t.pasting == nil && string(previousInput) != string(t.input)", "t.pasting == nil && len(previousInput) != len(t.input)")
b('changed-set-under-if', ['C01', 'C08'], 'src/terminal.go', "\t\t\tchanged = changed || queryChanged\n", "\t\t\tif queryChanged {\n\t\t\t\tchanged = true\n\t\t\t}\n")
v('c01r11-leading-blank-only', 'C01', 'C01-R11', 'src/util/chars.go', "\tfor i := 0; i < chars.Length(); i++ {\n\t\tchar := chars.Get(i)\n\t\tif !unicode.IsSpace(char) {", "\tfor i := 0; i < chars.Length(); i++ {\n\t\tchar := chars.Get(i)\n\t\tif char != ' ' && char != '\\t' {")
b('trailing-ws-ascii-fast-path', ['C01', 'C05'], 'src/util/chars.go', "func (chars *Chars) TrailingWhitespaces() int {\n\twhitespaces := 0\n", "func (chars *Chars) TrailingWhitespaces() int {\n\twhitespaces := 0\n\tif chars.inBytes {\n\t\tfor i := len(chars.slice) - 1; i >= 0; i-- {\n\t\t\tb := chars.slice[i]\n\t\t\tif b != ' ' && b != '\\t' && b != '\\n' && b != '\\v' && b != '\\f' && b != '\\r' {\n\t\t\t\tbreak\n\t\t\t}\n\t\t\twhitespaces++\n\t\t}\n\t\treturn whitespaces\n\t}\n")
v('c02r14-white-too-big', 'C02', 'C02-R14', 'src/algo/algo.go', "\tcase \"default\":\n\t\tbonusBoundaryWhite = bonusBoundary + 2", "\tcase \"default\":\n\t\tbonusBoundaryWhite = bonusBoundary + 3")
v('c02r15-v1-latin1-gap', 'C02', 'C02-R15', 'src/algo/algo.go', "\t\t\t} else if char > unicode.MaxASCII {", "\t\t\t} else if char > unicode.MaxLatin1 {")
b('fold-guard-geq-128', ['C02'], 'src/algo/algo.go', "\t\t\t} else if char > unicode.MaxASCII {", "\t\t\t} else if char >= 128 {")
v('c03r8-matcher-of-first-term', 'C03', 'C03-R8', 'src/pattern.go', "\t\t\tpfun := p.procFun[term.typ]", "\t\t\tpfun := p.procFun[termSet[0].typ]")
v('c05r15-reslice-slab', 'C05', 'C05-R15', 'src/algo/algo.go', "\tif slab != nil && cap(slab.I32) > offset+size {\n", "\tif slab != nil && cap(slab.I32) > offset+size {\n\t\tslab.I32 = slab.I32[:cap(slab.I32)]\n")
v('c05r16-call-counter', 'C05', 'C05-R16', 'src/algo/algo.go', "func charClassOfNonAscii(char rune) charClass {\n", "var nonAsciiLookups int\n\nfunc charClassOfNonAscii(char rune) charClass {\n\tnonAsciiLookups++\n")
v('c06r12-first-loop-to-capacity', 'C06', 'C06-R12', 'src/pattern.go', "\t\tfor idx := 0; idx < chunk.count; idx++ {", "\t\tfor idx := 0; idx < chunkSize; idx++ {")
b('matchchunk-count-in-local', ['C06', 'C13', 'C04'], 'src/pattern.go', "\t\tfor idx := 0; idx < chunk.count; idx++ {", "\t\tfor idx, n := 0, chunk.count; idx < n; idx++ {")
v('c07r12-swapped-elements', 'C07', 'C07-R12', 'src/matcher.go', "MatchRequest{chunks, pattern, final, sort, revision, m.reqSeq}", "MatchRequest{chunks, pattern, sort, final, revision, m.reqSeq}")
b('matchrequest-keyed-literal', ['C07', 'C08'], 'src/matcher.go', "MatchRequest{chunks, pattern, final, sort, revision, m.reqSeq}", "MatchRequest{chunks: chunks, pattern: pattern, final: final, sort: sort, revision: revision, seq: m.reqSeq}")
v('c08r21-own-twice', 'C08', 'C08-R21', 'src/terminal.go', "\t\tr.denylist = append(pending.denylist, r.denylist...)", "\t\tr.denylist = append(r.denylist, r.denylist...)")
b('merge-denylist-other-order', ['C08'], 'src/terminal.go', "\t\tr.denylist = append(pending.denylist, r.denylist...)", "\t\tr.denylist = append(r.denylist, pending.denylist...)")
v('c10r9-single-index-off-by-one', 'C10', 'C10-R9', 'src/tokenizer.go', "\t\t\t\tif idx < 0 {\n\t\t\t\t\tidx += numTokens + 1\n", "\t\t\t\tif idx < 0 {\n\t\t\t\t\tidx += numTokens\n")
v('c11r18-mirrored-strict', 'C11', 'C11-R18', 'src/ansi.go', "\t} else if col >= (1 << 24) {", "\t} else if (1 << 24) < col {")
b('truecolor-test-mirrored', ['C11'], 'src/ansi.go', "\t} else if col >= (1 << 24) {", "\t} else if (1 << 24) <= col {")
v('c11r19-csi-needs-four', 'C11', 'C11-R19', 'src/ansi.go', "\t\t\tif i+2 < len(s) && isCtrlSeqStart(s[i+1]) {", "\t\t\tif i+3 < len(s) && isCtrlSeqStart(s[i+1]) {")
b('csi-pretest-weaker', ['C11'], 'src/ansi.go', "\t\t\tif i+2 < len(s) && isCtrlSeqStart(s[i+1]) {", "\t\t\tif i+1 < len(s) && isCtrlSeqStart(s[i+1]) {")
v('c12r12-origtext-not-kept', 'C12', 'C12-R12', 'src/core.go', "\t\t\titem.text.Index = itemIndex\n\t\t\titem.origText = &data\n", "\t\t\titem.text.Index = itemIndex\n\t\t\tif len(data) > 0 && data[0] != ' ' {\n\t\t\t\titem.origText = &data\n\t\t\t}\n")
v('c14r17-guard-wrong-sign', 'C14', 'C14-R17', 'src/terminal.go', "\tlength := t.displayWidth(runes)\n\tif length == 0 {", "\tlength := t.displayWidth(runes)\n\tif length < 0 {")
b('label-guard-leq-zero', ['C14'], 'src/terminal.go', "\tlength := t.displayWidth(runes)\n\tif length == 0 {", "\tlength := t.displayWidth(runes)\n\tif length <= 0 {")
v('c15r14-home-when-not-fullscreen', 'C15', 'C15-R14', 'src/tui/light.go', "func (r *LightRenderer) Clear() {\n\tif r.fullscreen {", "func (r *LightRenderer) Clear() {\n\tif !r.fullscreen {")
v('c15r15-first-piece-width-dropped', 'C15', 'C15-R15', 'src/terminal.go', "\t\tsubstr, prefixWidth = t.processTabs(text[index:b], prefixWidth)", "\t\tsubstr, _ = t.processTabs(text[index:b], prefixWidth)")
v('c16r18-any-address-is-local', 'C16', 'C16-R18', 'src/server.go', "\treturn addr.host == \"localhost\" || addr.host == \"127.0.0.1\"", "\treturn addr.host == \"localhost\" || addr.host == \"127.0.0.1\" || addr.host == \"0.0.0.0\"")
b('islocal-knows-ipv6-loopback', ['C16'], 'src/server.go', "\treturn addr.host == \"localhost\" || addr.host == \"127.0.0.1\"", "\treturn addr.host == \"localhost\" || addr.host == \"127.0.0.1\" || addr.host == \"::1\"")
v('c17r20-give-up-at-backslash', 'C17', 'C17-R20', 'src/options.go', "\t\tcase '<':\n\t\t\tce = \">\"\n", "\t\tcase '<':\n\t\t\tce = \">\"\n\t\tcase '\\\\':\n\t\t\tmasked += action\n\t\t\tbreak Loop\n")
v('c17r21-backticks-expanded', 'C17', 'C17-R21', 'src/options.go', "\tparser.ParseComment = true\n\twords, err := parser.Parse(str)", "\tparser.ParseComment = true\n\tparser.ParseBacktick = true\n\twords, err := parser.Parse(str)")
v('c18r12-usage-says-more', 'C18', 'C18-R12', 'src/options.go', "Maximum number of history entries (default: 1000)", "Maximum number of history entries (default: 2000)")
v('c19r12-trailing-separator-trimmed', 'C19', 'C19-R12', 'src/reader.go', "\treturn byteString(bytes)\n}\n\nfunc (r *Reader) readFiles", "\treturn strings.TrimRight(byteString(bytes), \"/\")\n}\n\nfunc (r *Reader) readFiles")
v('c20r15-header-part-conditional', 'C20', 'C20-R15', 'src/terminal.go', "\t\tt.renderPreviewText(height, header, 0, false)", "\t\tt.renderPreviewText(height, header, 0, unchanged && t.previewed.filled)")
v('c09r15-unkeyed-prompt-memo', 'C09', 'C09-R15', 'src/terminal.go', "func findFirstMatch(pattern string, str string) int {\n\trx, err := regexp.Compile(pattern)\n\tif err != nil {\n\t\treturn -1\n\t}\n", "var firstMatchRegexp *regexp.Regexp\n\nfunc findFirstMatch(pattern string, str string) int {\n\tif firstMatchRegexp == nil {\n\t\tcompiled, err := regexp.Compile(pattern)\n\t\tif err != nil {\n\t\t\treturn -1\n\t\t}\n\t\tfirstMatchRegexp = compiled\n\t}\n\trx := firstMatchRegexp\n")
b('keyed-regexp-memo', ['C09'], 'src/terminal.go', "func findLastMatch(pattern string, str string) int {\n\trx, err := regexp.Compile(pattern)\n\tif err != nil {\n\t\treturn -1\n\t}\n", "var lastMatchPattern string\nvar lastMatchRegexp *regexp.Regexp\n\nfunc findLastMatch(pattern string, str string) int {\n\tif lastMatchRegexp == nil || lastMatchPattern != pattern {\n\t\tcompiled, err := regexp.Compile(pattern)\n\t\tif err != nil {\n\t\t\treturn -1\n\t\t}\n\t\tlastMatchRegexp, lastMatchPattern = compiled, pattern\n\t}\n\trx := lastMatchRegexp\n")

# ---- round 9 rules (incl. those written for D58..D74): further broken variants and behaviour-preserving edits
b('v2-early-exit-max-swapped', ['C03'], 'src/algo/algo.go', "bonus >= util.Max16(bonusBoundaryWhite, bonusBoundaryDelimiter)", "bonus >= util.Max16(bonusBoundaryDelimiter, bonusBoundaryWhite)")
v('c03r9-white-only', 'C03', 'C03-R9', 'src/algo/algo.go', "bonus >= util.Max16(bonusBoundaryWhite, bonusBoundaryDelimiter)", "bonus >= bonusBoundaryWhite")
b('trimpath-slash-or-separator', ['C19'], 'src/reader.go', "bytes[0] == '.' && os.IsPathSeparator(bytes[1])", "bytes[0] == '.' && (bytes[1] == '/' || os.IsPathSeparator(bytes[1]))")
b('cycle-unless-transform', ['C10'], 'src/terminal.go', "if a.t == actChangeNth && len(tokens) > 1 {", "if a.t != actTransformNth && len(tokens) > 1 {")
v('c10r10-cycle-when-long', 'C10', 'C10-R10', 'src/terminal.go', "if a.t == actChangeNth && len(tokens) > 1 {", "if len(tokens) > 1 && len(expr) > 2 {")
b('post-complete-test-split', ['C16'], 'src/server.go', "\t\t\tif len(body) >= contentLength {\n\t\t\t\tbreak Loop\n\t\t\t}", "\t\t\tif len(body) == contentLength || len(body) > contentLength {\n\t\t\t\tbreak Loop\n\t\t\t}")
b('accent-test-conjuncts-swapped', ['C01'], 'src/pattern.go', "\t\t\tlowerText == string(algo.NormalizeRunes([]rune(lowerText))) &&\n\t\t\ttext == string(algo.NormalizeRunes([]rune(text)))", "\t\t\ttext == string(algo.NormalizeRunes([]rune(text))) &&\n\t\t\tlowerText == string(algo.NormalizeRunes([]rune(lowerText)))")
b('prompt-fits-test-mirrored', ['C15'], 'src/terminal.go', "\tif t.displayWidth(t.input) <= maxWidth {", "\tif maxWidth >= t.displayWidth(t.input) {")
v('c15r17-hide-forgets-memo', 'C15', 'C15-R17', 'src/terminal.go', "\t\t\t\tt.headerVisible = false\n\t\t\t\tt.forceRerenderList()\n", "\t\t\t\tt.headerVisible = false\n")
b('become-failure-exit-127', ['C14'], 'src/util/util_unix.go', "\tfmt.Fprintf(os.Stderr, \"fzf (become): %s\\n\", err.Error())\n\tos.Exit(126)\n}", "\tfmt.Fprintf(os.Stderr, \"fzf (become): %s\\n\", err.Error())\n\tos.Exit(127)\n}")
b('cancel-copies-with-append', ['C09'], 'src/terminal.go', "\t\t\t\t\tt.yanked = copySlice(t.input)\n\t\t\t\t\tt.input = []rune{}", "\t\t\t\t\tt.yanked = append([]rune{}, t.input...)\n\t\t\t\t\tt.input = []rune{}")
b('env-entry-short-test', ['C12', 'C16'], 'src/proxy.go', "\t\t\tif len(pair) != 2 {", "\t\t\tif len(pair) < 2 {")
b('reqseq-plus-equals', ['C13', 'C01', 'C08'], 'src/matcher.go', "\tm.reqSeq++\n\tm.reqBox.Set(event,", "\tm.reqSeq += 1\n\tm.reqBox.Set(event,")
b('merge-nth-both-tests', ['C10', 'C08'], 'src/terminal.go', "\tif r.nth == nil {\n\t\tr.nth = pending.nth\n\t}", "\tif r.nth == nil && pending.nth != nil {\n\t\tr.nth = pending.nth\n\t}")
b('wait-result-in-local', ['C06'], 'src/reader.go', "\tr.feed(execOut)\n\treturn exec.Wait() == nil", "\tr.feed(execOut)\n\terr = exec.Wait()\n\treturn err == nil")
v('c06r13-wait-before-feed', 'C06', 'C06-R13', 'src/reader.go', "\tr.feed(execOut)\n\treturn exec.Wait() == nil", "\tdone := make(chan bool, 1)\n\tgo func() { done <- exec.Wait() == nil }()\n\tr.feed(execOut)\n\treturn <-done")
v('c13r11-snapshot-under-terminal-lock', 'C13', 'C13-R11', 'src/terminal.go', "func (t *Terminal) UpdateHeader(header []string) {\n\tt.mutex.Lock()\n\tt.header = header\n\tt.mutex.Unlock()\n\tt.reqBox.Set(reqHeader, nil)\n}", "func (t *Terminal) UpdateHeader(header []string) {\n\tt.mutex.Lock()\n\tt.header = header\n\tt.eventBox.Set(EvtSearchProgress, float32(0))\n\tt.mutex.Unlock()\n\tt.reqBox.Set(reqHeader, nil)\n}")
v('c18r15-previous-bypasses-edits', 'C18', 'C18-R15', 'src/history.go', "\tif h.cursor > 0 {\n\t\th.cursor--\n\t}\n\treturn h.current()", "\tif h.cursor > 0 {\n\t\th.cursor--\n\t\treturn h.lines[h.cursor]\n\t}\n\treturn h.current()")
v('c09r18-false-when-present', 'C09', 'C09-R18', 'src/terminal.go', "\tif _, found := t.selected[item.Index()]; found {\n\t\treturn true\n\t}", "\tif _, found := t.selected[item.Index()]; found {\n\t\treturn false\n\t}")
v('c17r25-plus-colon-entry', 'C17', 'C17-R25', 'src/options.go', "string([]rune{escapedPlus, ':'})", "string([]rune{escapedComma, ':'})")
v('c03r11-compare-with-letter', 'C03', 'C03-R11', 'src/algo/algo.go', "(index_ == 0 || charClassOf(text.Get(index_-1)) <= charDelimiter)", "(index_ == 0 || charClassOf(text.Get(index_-1)) < charLower)")

def build(entries, outdir, kind):
    """One persistent scratch worktree per worker (same path for every variant, so the Go build cache hits);
    removed at the end."""
    import concurrent.futures, threading
    os.makedirs(outdir, exist_ok=True)
    for f in os.listdir(outdir):
        if f.endswith('.diff'): os.remove(os.path.join(outdir, f))
    NW = 6
    base = tempfile.mkdtemp(prefix='genvar-')
    env = dict(os.environ, GOFLAGS='-mod=mod', GOPROXY='off', GOSUMDB='off', GOTOOLCHAIN='local')
    env.pop('GOWORK', None)
    wts = []
    for i in range(NW):
        wt = f'{base}/wt{i}'
        subprocess.run(['git', '-C', REPO, 'worktree', 'add', '-q', '--detach', wt, 'HEAD'], check=True)
        wts.append(wt)
    free = list(wts); lock = threading.Lock()
    def one(e):
        with lock: wt = free.pop()
        try:
            subprocess.run(['git', '-C', wt, 'checkout', '-q', '--', '.'], check=True)
            p = os.path.join(wt, e['file'])
            s = open(p).read()
            if e['old'] not in s:
                return dict(e, status='not generated: anchor text not present')
            s2 = s.replace(e['old'], e['new']) if e['count'] == 0 else s.replace(e['old'], e['new'], e['count'])
            open(p, 'w').write(s2)
            diff = subprocess.run(['git', '-C', wt, 'diff'], stdout=subprocess.PIPE).stdout.decode()
            rc = subprocess.run('go build -trimpath ./... && GOARCH=arm64 go build -trimpath ./...', shell=True, cwd=wt, env=env, stdout=subprocess.PIPE, stderr=subprocess.STDOUT)
            if rc.returncode != 0:
                return dict(e, status='not generated: does not build: ' + rc.stdout.decode()[-200:])
            open(os.path.join(outdir, e['name'] + '.diff'), 'w').write(diff)
            return dict(e, status='ok')
        finally:
            subprocess.run(['git', '-C', wt, 'checkout', '-q', '--', '.'])
            with lock: free.append(wt)
    try:
        with concurrent.futures.ThreadPoolExecutor(max_workers=NW) as ex:
            index = list(ex.map(one, entries))
    finally:
        for wt in wts:
            subprocess.run(['git', '-C', REPO, 'worktree', 'remove', '--force', wt])
        shutil.rmtree(base, ignore_errors=True)
    for e in index:
        e.pop('old', None); e.pop('new', None)
    json.dump(index, open(os.path.join(outdir, 'index.json'), 'w'), indent=1)
    print(kind, 'generated', sum(1 for e in index if e['status'] == 'ok'), 'of', len(index))
    for e in index:
        if e['status'] != 'ok': print('  ', e['name'], e['status'])

if __name__ == '__main__':
    build(V, '/verif/selftest/variants', 'variants')
    build(B, '/verif/selftest/benign', 'benign')
