# sentences added to the manifest texts for the rules of round 11 (see DESIGN.md section 4 for each rule's statement)
ROUND11 = {
 "C01": "Round 11: a backslash escapes a space only, in splitTerms as in the trailing-blank trim (C01-R16); in bonusFor the boundary cases precede the in-word bonus, which the boundary term type relies on (C01-R17); every non-ASCII class is decided by its own unicode predicate (C03-R10).",
 "C02": "Round 11: every non-ASCII class is decided by its own unicode predicate (C03-R10).",
 "C03": "Round 11: whiteChars names the characters below U+0100 for which unicode.IsSpace holds (C03-R13); the boundary cases of bonusFor precede the in-word bonus (C01-R17).",
 "C04": "Round 11: the match offsets are made line-relative on every path, with or without positions (C04-R18).",
 "C05": "Round 11: the buffer in which the fields of a range are joined is private to the call (C05-R18).",
 "C06": "Round 11: the default command runs only when standard input is a terminal, and standard input is read otherwise (C06-R17); every posted match request gets a fresh sequence number (C13-R12).",
 "C07": "Round 11: every merger that is posted — also one taken from the cache — is stamped with the final flag of the request (C07-R13); awkTokenizer computes byte offsets in a byte loop (C07-R14).",
 "C08": "Round 11: the cache key Pattern.AsString is the query text itself (C08-R30).",
 "C09": "Round 11: each action name appends the constant of that name (C09-R26, a convention check with a table of the documented aliases); PassMerger stores the revision it is given (C08-R23); the query limit is applied behind every action list of an iteration (C09-R27).",
 "C10": "Round 11: what searchRequest.merge inherits for nth depends on nth only (C10-R15); all spellings of --delimiter go through delimiterRegexp (C10-R16).",
 "C11": "Round 11: Terminal.ansi is Options.Ansi, the flag the reader side uses (C11-R26); Chars.Prepend reads the slice as bytes only when the text is held as bytes (C11-R27).",
 "C14": "Round 11: searchRequest.merge removes the temp files of the command it discards (C14-R23); the terminal state is saved by LightRenderer.Init only (C14-R24, who-may-call).",
 "C15": "Round 11: a padded marker string is stored where the terminal reads it (C15-R28); printAll prints the prompt before the info (C15-R29); promptLines and visibleInputLinesInList are both 0 with the input hidden (C15-R30).",
 "C17": "Round 11: the end-of-argument pattern of maskActionContents is anchored at the quoted opening delimiter (C17-R30).",
 "C19": "Round 11: every leading ./ is removed (C19-R18); isDir follows symbolic links like the walker (C19-R19).",
 "C20": "Round 11: cancelPreview sends unconditionally (C20-R19).",
}
