import os, sys, time
n = 0; total = 0
while True:
    b = os.read(0, 8192)
    if not b: break
    n += b.count(b'\n'); total += len(b)
    time.sleep(0.01)
print(n, total)
