import os, pty, sys, time, select, signal
binary = os.path.abspath(sys.argv[1])
slow = sys.argv[2]  # seconds of consumer delay
out = os.path.abspath('count.txt'); flag = os.path.abspath('done.flag')
for p in (out, flag):
    try: os.unlink(p)
    except OSError: pass
script = os.path.abspath('inner.sh')
open(script,'w').write("""#!/bin/sh
seq 200000 | %s --multi --sync --bind 'load:select-all+accept' | (sleep %s; python3 /tmp/wt7-out/C07/tmuxprobe/slowcount.py) > %s 2>&1
echo "rc=$?" >> %s
touch %s
""" % (binary, slow, out, out, flag))
os.chmod(script, 0o755)
env = dict(os.environ); env['TERM']='xterm'; env.pop('TMUX',None); env.pop('TMUX_PANE',None)
env.pop('FZF_DEFAULT_OPTS',None)
pid, fd = pty.fork()
if pid == 0:
    os.execvpe('tmux', ['tmux','-L','c07probe','-f','/dev/null','new-session','-x','120','-y','40', script], env)
end = time.time()+30
buf=b''
while time.time()<end and not os.path.exists(flag):
    r,_,_ = select.select([fd],[],[],0.1)
    if r:
        try: buf += os.read(fd,65536)
        except OSError: break
time.sleep(0.3)
os.system('tmux -L c07probe kill-server 2>/dev/null')
try: os.kill(pid, signal.SIGKILL)
except OSError: pass
print(open(out).read() if os.path.exists(out) else 'no output file; terminal tail: %r' % buf[-400:])
