#!/usr/bin/env python3
"""Small pty driver used by the C14 demos.

Runs a fzf binary on a fresh pseudo terminal (the parent keeps the slave side
open, so the termios settings and everything fzf wrote can be inspected after
fzf has exited), answers cursor-position queries (ESC[6n) like a real terminal
does, keeps a private TMPDIR, and records which DEC private modes are left
set/reset by the byte stream written to the terminal.
"""
import os, sys, time, select, signal, termios, fcntl, struct, re, tempfile, shutil, subprocess

MODE_RE = re.compile(rb'\x1b\[\?([0-9;]+)([hl])')

class Term:
    def __init__(self, binary, args, stdin_data=None, env=None, rows=24, cols=80, cwd=None, stdin_stream=None, stdin_path=None):
        self.master, self.slave = os.openpty()
        fcntl.ioctl(self.slave, termios.TIOCSWINSZ, struct.pack('HHHH', rows, cols, 0, 0))
        self.termios_before = termios.tcgetattr(self.slave)
        self.tmpdir = tempfile.mkdtemp(prefix='c14-tmp-', dir=os.path.dirname(os.path.abspath(__file__)))
        e = dict(os.environ)
        for k in ('FZF_DEFAULT_OPTS', 'FZF_DEFAULT_COMMAND', 'FZF_DEFAULT_OPTS_FILE', 'TMUX', 'TMUX_PANE'):
            e.pop(k, None)
        e['TERM'] = 'xterm-256color'
        e['SHELL'] = '/bin/sh'
        e['TMPDIR'] = self.tmpdir
        if env:
            e.update(env)
        rfd = None
        self.stdin_w = None
        if stdin_data is not None:
            rfd, wfd = os.pipe()
            os.write(wfd, stdin_data)
            os.close(wfd)
        elif stdin_stream:
            rfd, self.stdin_w = os.pipe()
        elif stdin_path:
            rfd = os.open(stdin_path, os.O_RDONLY)
        self.out_r, out_w = os.pipe()
        self.pid = os.fork()
        if self.pid == 0:
            try:
                os.setsid()
                fcntl.ioctl(self.slave, termios.TIOCSCTTY, 0)
                os.dup2(rfd if rfd is not None else self.slave, 0)
                os.dup2(out_w, 1)
                os.dup2(self.slave, 2)
                os.close(self.master)
                if self.stdin_w is not None:
                    os.close(self.stdin_w)
                if cwd:
                    os.chdir(cwd)
                os.execve(binary, ['fzf'] + args, e)
            finally:
                os._exit(127)
        os.close(out_w)
        if rfd is not None:
            os.close(rfd)
        self.out = b''          # everything written to the terminal
        self.stdout = b''       # fzf's standard output
        self.status = None
        self.pump(0.5)

    def resize(self, rows, cols):
        fcntl.ioctl(self.slave, termios.TIOCSWINSZ, struct.pack('HHHH', rows, cols, 0, 0))
        os.kill(self.pid, signal.SIGWINCH)

    def pump(self, t=0.2):
        """Read terminal output for t seconds, answering ESC[6n."""
        end = time.time() + t
        while True:
            left = end - time.time()
            if left <= 0:
                break
            r, _, _ = select.select([self.master, self.out_r], [], [], min(left, 0.05))
            if self.master in r:
                try:
                    data = os.read(self.master, 65536)
                except OSError:
                    data = b''
                if data:
                    self.out += data
                    for _ in range(data.count(b'\x1b[6n')):
                        os.write(self.master, b'\x1b[5;1R')
            if self.out_r in r:
                try:
                    d = os.read(self.out_r, 65536)
                except OSError:
                    d = b''
                self.stdout += d
            self.poll()

    def poll(self):
        if self.status is None:
            p, st = os.waitpid(self.pid, os.WNOHANG)
            if p:
                self.status = st
        return self.status

    def send(self, data, t=0.3):
        os.write(self.master, data)
        self.pump(t)

    def wait_exit(self, t=5.0):
        end = time.time() + t
        while time.time() < end and self.poll() is None:
            self.pump(0.1)
        if self.status is not None:
            self.pump(0.2)
        return self.status

    def alive(self):
        return self.poll() is None

    def kill(self):
        if self.poll() is None:
            try:
                os.killpg(self.pid, signal.SIGKILL)
            except OSError:
                pass
            try:
                os.kill(self.pid, signal.SIGKILL)
            except OSError:
                pass
            try:
                os.waitpid(self.pid, 0)
            except OSError:
                pass
            self.status = -9

    # ---- inspection -------------------------------------------------
    def modes(self):
        """Final state of every DEC private mode touched by fzf's output."""
        state = {}
        for m in MODE_RE.finditer(self.out):
            for n in m.group(1).split(b';'):
                state[int(n)] = (m.group(2) == b'h')
        return state

    def termios_after(self):
        return termios.tcgetattr(self.slave)

    def tmp_leftovers(self):
        return sorted(os.listdir(self.tmpdir))

    def cleanup(self):
        self.kill()
        for fd in (self.master, self.slave, self.out_r):
            try:
                os.close(fd)
            except OSError:
                pass
        shutil.rmtree(self.tmpdir, ignore_errors=True)


def procs_matching(needle):
    """pids (with command lines) of live processes whose command line contains needle."""
    res = []
    for pid in os.listdir('/proc'):
        if not pid.isdigit():
            continue
        try:
            with open('/proc/%s/cmdline' % pid, 'rb') as f:
                cmd = f.read().replace(b'\0', b' ').decode('utf-8', 'replace').strip()
            with open('/proc/%s/stat' % pid) as f:
                st = f.read().rsplit(')', 1)[1].split()[0]
        except OSError:
            continue
        if needle in cmd and st != 'Z' and int(pid) != os.getpid():
            res.append((int(pid), cmd))
    return res
