#!/usr/bin/env python3
"""D6 (C14): --preview 'cat {f}' with a shell that cannot be started: the {f} temp file must still be removed.
usage: D6_... /path/to/fzf -> exit 0 iff $TMPDIR holds no fzf-temp-* afterwards"""
import sys, os, time, tempfile, glob, shutil
sys.path.insert(0, os.path.dirname(__file__))
from fzfpty import Fzf
tmp = tempfile.mkdtemp(prefix='d6-')
f = Fzf(sys.argv[1], ['--with-shell', '/nonexistent/sh -c', '--preview', 'cat {f}'], env={'TMPDIR': tmp}, stdin_data=b'one\ntwo\n')
try:
    time.sleep(1.0)
    f.post('down'); time.sleep(0.5)
    f.post('abort'); f.wait_exit(3)
finally:
    f.close()
left = glob.glob(os.path.join(tmp, 'fzf-temp-*'))
print('left behind:', left)
shutil.rmtree(tmp)
sys.exit(1 if left else 0)
