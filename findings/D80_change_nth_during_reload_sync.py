#!/usr/bin/env python3
"""finding3.py FZF_BINARY
During a reload-sync the search keeps using the old snapshot (and its revision). A change-nth in that
period bumps only the input revision, so the matcher's per-query merger cache is not dropped and the
result computed with the OLD --nth is published again for the same query."""
import sys, time
sys.path.insert(0, '/verif/findings')
from fzfpty import Fzf
binary = sys.argv[1]
data = ''.join('a%d-b%d\n' % (i, i) for i in range(50)).encode()
def run(port, warm):
    f = Fzf(binary, ['--nth', '1', '--delimiter', '-'], stdin_data=data, port=port)
    try:
        time.sleep(0.5)
        f.post('reload-sync(sleep 4; echo a1-b1)'); time.sleep(0.5)
        if warm:
            f.post('change-query(a)'); time.sleep(0.5)       # evaluated with nth=1: 50 matches
            f.post('change-query()'); time.sleep(0.3)
        f.post('change-nth(2)'); time.sleep(0.5)
        f.post('change-query(a)'); time.sleep(0.5)           # nth=2: field 2 is "b<i>", nothing matches
        s = f.state()[1]
        return s['matchCount'], s['totalCount']
    finally:
        f.close()
cold = run(28343, False)
warm = run(28344, True)
print('query "a" with nth=2 during reload-sync, never searched before : %d/%d' % cold)
print('query "a" with nth=2 during reload-sync, searched before with nth=1: %d/%d' % warm)
ok = cold[0] == 0 and warm[0] == 0
print('PASS' if ok else 'FAIL: the published result depends on the search history')
sys.exit(0 if ok else 1)
