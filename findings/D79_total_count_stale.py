#!/usr/bin/env python3
"""finding2.py FZF_BINARY [tries]
While input is still being read: new lines arrive, the query is changed (the coordinator takes a new
snapshot for the search but keeps the count of the previous one), then reload-sync is requested before
the next EvtReadNew. For the whole duration of the synchronous reload the counter describes another
list than the one that is searched and shown: matchCount > totalCount."""
import sys, os, time, pty, json, socket, select, signal
sys.path.insert(0, '/verif/findings')
from fzfpty import Fzf

class Fzf2(Fzf):
    def __init__(self, binary, args, port):
        self.port = port
        e = dict(os.environ)
        e.pop('FZF_DEFAULT_OPTS', None); e.pop('FZF_DEFAULT_COMMAND', None)
        e['TERM'] = 'xterm'
        rfd, self.wfd = os.pipe()
        self.pid, self.fd = pty.fork()
        if self.pid == 0:
            os.close(self.wfd)
            os.dup2(rfd, 0)
            os.execve(binary, ['fzf', '--listen', str(port)] + args, e)
        os.close(rfd)
        self.out = b''
        time.sleep(0.5); self.drain()

def quick_post(port, body):
    s = socket.create_connection(('127.0.0.1', port), timeout=5)
    body = body.encode()
    s.sendall(b'POST / HTTP/1.1\r\nContent-Length: %d\r\n\r\n' % len(body) + body)
    s.settimeout(2)
    try: s.recv(4096)
    except socket.timeout: pass
    s.close()

def attempt(binary, port):
    f = Fzf2(binary, [], port)
    try:
        os.write(f.wfd, ''.join('x-%d\n' % i for i in range(500)).encode())
        time.sleep(0.6)
        _, st = f.state()
        assert st['totalCount'] == 500, st['totalCount']
        time.sleep(0.3)
        os.write(f.wfd, ''.join('x-%d\n' % i for i in range(500, 800)).encode())
        time.sleep(0.002)
        quick_post(port, 'change-query(x)')
        quick_post(port, 'reload-sync(sleep 2; echo x-done)')
        worst = None
        t0 = time.time()
        while time.time() - t0 < 1.5:
            _, st = f.state()
            if st['matchCount'] > st['totalCount']:
                worst = (st['totalCount'], st['matchCount'], round(time.time() - t0, 2))
            time.sleep(0.2)
        return worst
    finally:
        try: os.close(f.wfd)
        except OSError: pass
        f.close()

binary = sys.argv[1]
tries = int(sys.argv[2]) if len(sys.argv) > 2 else 8
bad = 0
for n in range(tries):
    w = attempt(binary, 28320 + n % 20)
    print('try %d: %s' % (n, 'consistent' if w is None else 'INCONSISTENT total=%d match=%d (still so %.2fs after the reload was requested)' % w))
    bad += w is not None
print('FAIL' if bad else 'PASS', '(%d of %d tries inconsistent)' % (bad, tries))
sys.exit(1 if bad else 0)
