#!/usr/bin/env python3
"""D108 (C09): the 1000-rune limit of the query was applied after the actions of a key but not after the actions
bound to events that run later in the same iteration: `change:change-query(<1200 x>)` left a 1200-rune query
for good (every later action re-triggered it), where the same change-query bound to a key is cut to 1000.
usage: D108_event_action_exceeds_query_limit.py <fzf binary>"""
import os, sys, time
sys.path.insert(0, os.path.dirname(os.path.abspath(__file__)))
from fzfpty import Fzf
long_q = 'x' * 1200
f = Fzf(sys.argv[1], ['--bind', 'change:change-query(%s)' % long_q], stdin_data=b'a\nb\n', port=24805)
ok = False
try:
    time.sleep(0.4); os.write(f.fd, b'a'); time.sleep(0.6)
    a = len(f.state()[1]['query'])
    f.post('up'); time.sleep(0.4)
    b = len(f.state()[1]['query'])
    print('after the change event set a 1200-rune query: len(query)=%d ; after `up`: len(query)=%d' % (a, b))
    ok = a == 1000 and b == 1000
finally:
    f.close()
print('PASS' if ok else 'FAIL'); sys.exit(0 if ok else 1)
