#!/bin/sh
# D106 (C15): header lines are drawn like items, so where a long header line is cut depends on --hscroll; but
# toggle-hscroll (and toggle-multi-line) only asked for the list to be redrawn: the header kept the rendition of
# the previous mode (shown with --keep-right, where the difference is visible without a match). usage: D106_toggle_hscroll_header.sh <fzf binary>  (needs tmux)
S=d106_$$
hdr="HEADSTART$(printf '%060d' 0 | tr 0 x)HEADEND"
run() { # $1 = extra option, $2 = key
  tmux -L $S new-session -d -x 40 -y 10 "seq 1 5 | $BIN --no-sort --no-unicode --no-scrollbar --header '$hdr' --keep-right --bind space:toggle-hscroll $1"
  sleep 0.8
  [ -n "$2" ] && { tmux -L $S send-keys "$2"; sleep 0.6; }
  tmux -L $S capture-pane -p | grep "HEAD"
  tmux -L $S kill-server; sleep 0.4
}
BIN=$1
a=$(run "" "Space")
b=$(run "--no-hscroll" "")
echo "after toggle-hscroll  : $a"
echo "fresh --no-hscroll    : $b"
[ "$a" = "$b" ] || { echo FAIL; exit 1; }
echo PASS
