#!/bin/sh
# D18 (C11): ESC \ (string terminator) followed by text must not swallow the first letter of the text.
# Before fix dcb5e37: 'foo ESC \ bar' -> 'fooar'. usage: D18_...sh /path/to/fzf  -> exit 0 iff text is kept
f="$1"
a=$(printf 'foo\033\\bar\n' | "$f" --ansi -f '')
b=$(printf '\033]0;t\303\255tulo\033\\text after title\n' | "$f" --ansi -f '')
echo "$a"; echo "$b"
[ "$a" = "foobar" ] && [ "$b" = "0;títulotext after title" ]
