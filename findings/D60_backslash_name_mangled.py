#!/usr/bin/env python3
"""D60 (C19): on Unix a backslash is an ordinary file-name character; an entry named `.\\file` must be listed
under that name, and a directory named `.\\bs` is hidden (its name starts with a dot).
usage: D60_backslash_name_mangled.py /path/to/fzf"""
import os, pty, subprocess, sys, tempfile, shutil
def walk(binary, args, cwd):
    m, s = pty.openpty()
    env = dict(os.environ)
    for k in ('FZF_DEFAULT_OPTS', 'FZF_DEFAULT_OPTS_FILE', 'FZF_DEFAULT_COMMAND', 'MSYSTEM'):
        env.pop(k, None)
    try:
        p = subprocess.run([binary] + args + ['--print0', '-f', ''], stdin=s, cwd=cwd, env=env, stdout=subprocess.PIPE, stderr=subprocess.PIPE, timeout=60)
    finally:
        os.close(m); os.close(s)
    return sorted(x for x in p.stdout.decode().split('\0') if x)
d = tempfile.mkdtemp(prefix='d60')
try:
    os.makedirs(os.path.join(d, '.\\bs')); open(os.path.join(d, '.\\bs', 'inner'), 'w').close()
    open(os.path.join(d, '.\\file'), 'w').close(); open(os.path.join(d, 'plain'), 'w').close()
    got = walk(sys.argv[1], ['--walker=file,dir'], d)
    print(got)
    missing = [g for g in got if not os.path.lexists(os.path.join(d, g.rstrip('/')))]
    print('listed but not existing:', missing)
    ok = got == ['.\\file', 'plain']
finally:
    shutil.rmtree(d)
print('PASS' if ok else 'FAIL')
sys.exit(0 if ok else 1)
