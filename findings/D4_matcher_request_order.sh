#!/bin/sh
# usage: D4_matcher_request_order.sh /path/to/repo-tree  -> exit 0 iff the newest request always wins
set -e
export GOFLAGS=-mod=mod GOPROXY=off GOSUMDB=off GOTOOLCHAIN=local; unset GOWORK
d=$(mktemp -d /tmp/d4-XXXXXX); trap 'rm -rf "$d"' EXIT
cp -r "$1"/. "$d"/; rm -rf "$d/.git"
cp "$(dirname "$0")/D4_matcher_request_order_test.go.txt" "$d/src/zz_d4_test.go"
cd "$d" && go test -vet=off -count=1 -run TestD4NewestRequestWins ./src/
