#!/usr/bin/env python3
"""clean-tree finding 2: a well-formed request whose header block reaches fzf in two TCP segments
(split inside a header line) is rejected, because the scanner's split function applies the
"body is complete" test (len(body)+len(data) >= contentLength) to header bytes as well.
usage: finding2.py /path/to/fzf-binary"""
import sys, time, socket, os
sys.path.insert(0, os.path.dirname(os.path.abspath(__file__)))
from fzfpty import Fzf
binary = sys.argv[1]

def send(port, chunks, gap=0.3):
    s = socket.create_connection(('127.0.0.1', port), timeout=5)
    s.setsockopt(socket.IPPROTO_TCP, socket.TCP_NODELAY, 1)
    for i, c in enumerate(chunks):
        if i: time.sleep(gap)
        s.sendall(c)
    data = b''
    try:
        while True:
            c = s.recv(65536)
            if not c: break
            data += c
    except socket.timeout: pass
    s.close()
    return data

for key in (None, 'secret'):
    f = Fzf(binary, [], env={'FZF_API_KEY': key} if key else None, stdin_data=b'one\ntwo\nthree\n')
    hdr = ('X-API-Key: %s\r\n' % key).encode() if key else b''
    try:
        whole = b'POST / HTTP/1.1\r\n' + hdr + b'Content-Length: 19\r\n\r\nchange-query(hello)'
        print('key=%s' % key)
        print('  one segment                      ->', send(f.port, [whole])[:60])
        for cut_at in (b'POST / HT', b'\r\nConte', b'Content-Length: 19\r', b'Content-Length: 19\r\n\r\nchange-q'):
            i = whole.index(cut_at) + len(cut_at)
            r = send(f.port, [whole[:i], whole[i:]])
            print('  split after %-28r ->' % whole[max(0,i-12):i], r.replace(b'\r\n', b' | ')[:90])
        g = b'GET / HTTP/1.1\r\n' + hdr + b'Accept: */*\r\n\r\n'
        i = g.index(b'Acce') + 4
        print('  GET split inside "Accept" header  ->', send(f.port, [g[:i], g[i:]]).replace(b'\r\n', b' | ')[:70])
        if key:
            i = g.index(b'X-API-Key: sec') + len(b'X-API-Key: sec')
            print('  GET split inside the key          ->', send(f.port, [g[:i], g[i:]]).replace(b'\r\n', b' | ')[:70])
        print('  query now:', f.state({'X-API-Key': key} if key else None)[1]['query'])
    finally:
        f.close()
