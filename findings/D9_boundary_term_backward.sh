#!/bin/sh
# D9 (C01/C02): an exact-boundary term ('word') must match the same lines whatever the scan direction is.
# --scheme=path and --tiebreak=end make the matcher scan backward. usage: D9_... /path/to/fzf -> exit 0 iff equal
f="$1"
in='foo bar\nfoobar\nfoo-bar baz\nbar\nxbar bar_\n'
a=$(printf "$in" | "$f" -f "'bar'" | sort)
b=$(printf "$in" | "$f" --scheme=path -f "'bar'" | sort)
c=$(printf "$in" | "$f" --tiebreak=end -f "'bar'" | sort)
echo "forward      : $(echo $a)"; echo "--scheme=path: $(echo $b)"; echo "--tiebreak=end: $(echo $c)"
[ -n "$a" ] && [ "$a" = "$b" ] && [ "$a" = "$c" ]
