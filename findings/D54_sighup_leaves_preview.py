#!/usr/bin/env python3
"""D54 (C14/C20): SIGHUP must end the session with the usual clean-up: the running preview command is killed.
usage: D54_sighup_leaves_preview.py /path/to/fzf"""
import sys, os, time, signal, subprocess
sys.path.insert(0, os.path.dirname(os.path.abspath(__file__)))
from fzfpty import Fzf
mark = 'sleep 311.%d' % (os.getpid() % 10000)
f = Fzf(sys.argv[1], ['--preview', 'echo {}; ' + mark], stdin_data=b'a\nb\n')
try:
    time.sleep(1.0)
    os.kill(f.pid, signal.SIGHUP)
    f.wait_exit(3)
    time.sleep(0.8)
    alive = subprocess.run("ps -eo args | grep '%s' | grep -v grep" % mark, shell=True, stdout=subprocess.PIPE).stdout.decode().strip()
finally:
    f.close(); os.system("pkill -f '%s'" % mark)
print('preview command still alive after SIGHUP:', bool(alive))
sys.exit(1 if alive else 0)
