#!/bin/sh
# D76 (C01): two capitals whose small letters are normalised were still missing from the table: the capital
# sharp s (U+1E9E, small letter ß -> s) and the Angstrom sign (U+212B, small letter å -> a).
# usage: D76_second_capitals.sh <fzf binary>
a=$(printf 'STRAẞE\n' | "$1" -f 'STRAS' | tr '\n' '|')
b=$(printf '10 \342\204\253\n' | "$1" -f 'A' | wc -l)
c=$(printf 'straße\n' | "$1" -f 'stras' | tr '\n' '|')
echo "STRAS -> $a"; echo "A on '10 <ANGSTROM SIGN>' -> $b line(s)"; echo "stras -> $c (control: the small letter)"
[ "$a" = "STRAẞE|" ] && [ "$b" = "1" ] && [ "$c" = "straße|" ] && { echo PASS; exit 0; }
echo FAIL; exit 1
