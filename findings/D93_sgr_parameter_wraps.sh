#!/bin/sh
# D93 (C11): an SGR parameter too large for an int wrapped around in parseAnsiCode and was taken for a small
# valid one: ESC[18446744073709551616m (2^64) was read as 0 = reset, so the text after it lost the colour set
# before; a terminal ignores such a parameter. usage: D93_sgr_parameter_wraps.sh <fzf binary>  (needs tmux)
S=d93_$$
tmux -L $S new-session -d -x 40 -y 8 "printf 'x\n\033[31mA\033[18446744073709551616mB\n' | $1 --ansi --no-sort --no-unicode --no-scrollbar --no-bold"
sleep 0.8
scr=$(tmux -L $S capture-pane -p -e)
tmux -L $S kill-server
row=$(printf '%s\n' "$scr" | grep "A.*B" | head -1)
printf '%s\n' "$row" | cat -v
# between A and B no sequence may switch the colour off
mid=$(printf '%s' "$row" | sed 's/.*A\(.*\)B.*/\1/')
if [ -n "$mid" ]; then echo "colour changed between A and B"; echo FAIL; exit 1; fi
echo PASS
