#!/bin/sh
# D86 (C15): the light renderer dropped U+FFFD from its output although every width computation counts it as
# one column: the row was cleared two cells short and kept `gh` of the item shown there before.
# usage: D86_replacement_char_not_drawn.sh <fzf binary>  (needs tmux)
S=d86_$$
tmux -L $S new-session -d -x 30 -y 8 "printf 'abcdefgh\nxy\357\277\275\357\277\275w\n' | $1 --no-sort --no-unicode --no-scrollbar"
sleep 0.8
tmux -L $S send-keys 'x'
sleep 0.6
scr=$(tmux -L $S capture-pane -p)
tmux -L $S kill-server
echo "$scr"
row=$(echo "$scr" | grep "xy")
case "$row" in *gh*) echo FAIL; exit 1;; esac
fffd=$(printf '\357\277\275')
case "$row" in *"xy$fffd${fffd}w"*) ;; *) echo FAIL; exit 1;; esac
echo PASS
