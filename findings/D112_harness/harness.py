#!/usr/bin/env python3
"""Helpers for the C20 demos: fzf under a pty of a known size + a very small
terminal screen emulator (enough for fzf's light renderer)."""
import os, pty, sys, time, socket, select, json, signal, struct, fcntl, termios, re

sys.path.insert(0, '/tmp/wt-tools')
import fzfpty


class Fzf(fzfpty.Fzf):
    def __init__(self, binary, args, env=None, stdin_data=None, port=None, cwd=None, rows=24, cols=80):
        self.port = port
        e = dict(os.environ)
        e.pop('FZF_DEFAULT_OPTS', None); e.pop('FZF_DEFAULT_COMMAND', None)
        e.pop('FZF_DEFAULT_OPTS_FILE', None)
        e['TERM'] = 'xterm'
        e['SHELL'] = '/bin/sh'
        if env: e.update(env)
        rfd = None
        if stdin_data is not None:
            assert len(stdin_data) < 60000
            rfd, wfd = os.pipe()
            os.write(wfd, stdin_data); os.close(wfd)
        self.pid, self.fd = pty.fork()
        if self.pid == 0:
            fcntl.ioctl(2, termios.TIOCSWINSZ, struct.pack('HHHH', rows, cols, 0, 0))
            if cwd: os.chdir(cwd)
            if rfd is not None:
                os.dup2(rfd, 0)
            os.execve(binary, ['fzf', '--listen', str(self.port)] + args, e)
        self.out = b''
        self.rows, self.cols = rows, cols
        time.sleep(0.6); self.drain()

    def screen(self):
        return render(self.out, self.rows, self.cols)

    def alive(self):
        try:
            p, st = os.waitpid(self.pid, os.WNOHANG)
            return p == 0
        except OSError:
            return False


CSI = re.compile(rb'\x1b\[([0-9;?]*)([A-Za-z@`])')


def render(data, rows, cols):
    """Interpret the byte stream; return list of row strings."""
    scr = [[' '] * cols for _ in range(rows)]
    y = x = 0
    i = 0
    text = data
    n = len(text)
    while i < n:
        c = text[i]
        if c == 0x1b:
            m = CSI.match(text, i)
            if m:
                params, final = m.group(1).decode(), m.group(2).decode()
                i = m.end()
                if params.startswith('?'):
                    continue
                nums = [int(p) if p else 0 for p in params.split(';')] if params else []
                def arg(k, d):
                    return nums[k] if len(nums) > k and nums[k] else d
                if final in 'Hf':
                    y = min(rows - 1, max(0, arg(0, 1) - 1)); x = min(cols - 1, max(0, arg(1, 1) - 1))
                elif final == 'A': y = max(0, y - arg(0, 1))
                elif final == 'B': y = min(rows - 1, y + arg(0, 1))
                elif final == 'C': x = min(cols - 1, x + arg(0, 1))
                elif final == 'D': x = max(0, x - arg(0, 1))
                elif final == 'G': x = min(cols - 1, max(0, arg(0, 1) - 1))
                elif final == 'd': y = min(rows - 1, max(0, arg(0, 1) - 1))
                elif final == 'K':
                    k = nums[0] if nums else 0
                    if k == 0:
                        for xx in range(x, cols): scr[y][xx] = ' '
                    elif k == 1:
                        for xx in range(0, x + 1): scr[y][xx] = ' '
                    else:
                        scr[y] = [' '] * cols
                elif final == 'J':
                    k = nums[0] if nums else 0
                    if k == 2 or k == 3:
                        scr = [[' '] * cols for _ in range(rows)]
                    elif k == 0:
                        for xx in range(x, cols): scr[y][xx] = ' '
                        for yy in range(y + 1, rows): scr[yy] = [' '] * cols
                # everything else (m, h, l, r, ...) ignored
                continue
            # other escapes: ESC 7 / ESC 8 / ESC ( B / OSC ...
            if i + 1 < n and text[i + 1] == 0x5d:  # OSC
                j = i + 2
                while j < n and text[j] != 0x07 and not (text[j] == 0x1b and j + 1 < n and text[j + 1] == 0x5c):
                    j += 1
                i = j + (1 if j < n and text[j] == 0x07 else 2)
                continue
            if i + 1 < n and text[i + 1] in b'()':
                i += 3; continue
            i += 2
            continue
        if c == 0x0d:
            x = 0; i += 1; continue
        if c == 0x0a:
            y = min(rows - 1, y + 1); i += 1; continue
        if c == 0x08:
            x = max(0, x - 1); i += 1; continue
        if c < 0x20:
            i += 1; continue
        # decode one utf-8 char
        if c < 0x80: ln = 1
        elif c >> 5 == 0b110: ln = 2
        elif c >> 4 == 0b1110: ln = 3
        else: ln = 4
        ch = text[i:i + ln].decode('utf-8', 'replace')
        i += ln
        if x >= cols:
            x = 0; y = min(rows - 1, y + 1)
        scr[y][x] = ch
        x += 1
    return [''.join(r).rstrip() for r in scr]


def pids_with_marker(marker):
    """pids of live processes whose cmdline contains marker"""
    res = []
    for d in os.listdir('/proc'):
        if not d.isdigit(): continue
        try:
            with open('/proc/%s/cmdline' % d, 'rb') as f:
                cl = f.read()
            with open('/proc/%s/stat' % d) as f:
                st = f.read().rsplit(')', 1)[1].split()[0]
        except OSError:
            continue
        argv = cl.split(b'\0')
        # only the `sleep MARKER` processes started by the preview commands
        if os.path.basename(argv[0]) != b'sleep' or marker.encode() not in argv[1:2]:
            continue
        if marker.encode() in cl and st != 'Z' and int(d) != os.getpid():
            res.append(int(d))
    return res


def kill_marker(marker):
    for p in pids_with_marker(marker):
        try: os.kill(p, signal.SIGKILL)
        except OSError: pass
