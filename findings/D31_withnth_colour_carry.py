"""D31 (C11): --ansi --with-nth: a colour left open on one line is carried to EVERY following line, as a terminal would show
(before the fix only every other line got it). usage: D31_withnth_colour_carry.py /path/to/fzf"""
import sys, os, pty, time, select, fcntl, termios, struct, signal
BINARY = sys.argv[1]
def run(args, data):
    r, w = os.pipe(); os.write(w, data); os.close(w)
    env = dict(os.environ); env['TERM']='xterm-256color'
    for k in ('FZF_DEFAULT_OPTS','FZF_DEFAULT_COMMAND'): env.pop(k, None)
    pid, fd = pty.fork()
    if pid == 0:
        time.sleep(0.2)
        os.dup2(r, 0)
        os.execve(BINARY, ['fzf']+args, env)
    fcntl.ioctl(fd, termios.TIOCSWINSZ, struct.pack('HHHH', 24, 80, 0, 0))
    out = b''
    end = time.time()+1.5
    while time.time() < end:
        rr,_,_ = select.select([fd],[],[],0.05)
        if rr:
            try: out += os.read(fd, 65536)
            except OSError: break
    os.kill(pid, signal.SIGKILL); os.waitpid(pid,0); os.close(fd)
    return out
data = b"\x1b[31mfoo bar\nl2a l2b\nl3a l3b\nl4a l4b\nl5a l5b\n"
bad = 0
for args in (['--ansi'], ['--ansi','--with-nth','2'], ['--ansi','--with-nth','1..']):
    out = run(args, data)
    row = []
    for w in (b"l2b", b"l3b", b"l4b", b"l5b"):
        i = out.rfind(w)
        seg = out[max(0,i-40):i] if i >= 0 else b''
        # the last SGR sequence written before the word: red (31) must be in force on every line
        j = seg.rfind(b'\x1b[')
        sgr = seg[j:seg.find(b'm', j)+1] if j >= 0 else b''
        row.append((w.decode(), sgr.decode('latin1')))
        bad += b'31' not in sgr
    print(args, row)
print('lines that lost the carried colour:', bad)
sys.exit(1 if bad else 0)
