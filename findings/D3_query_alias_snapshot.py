#!/usr/bin/env python3
"""D3 (C08/C15): query 'ab', then one key event running backward-delete-char+put(x) -> query 'ax'.
The match list must be the one for 'ax' (only 'ax' matches), not the stale one for 'ab'.
usage: D3_... /path/to/fzf -> exit 0 iff list converged to the new query"""
import sys, os, time
sys.path.insert(0, os.path.dirname(__file__))
from fzfpty import Fzf
f = Fzf(sys.argv[1], ['--query', 'ab', '--sync'], stdin_data=b'ab\nax\nzz\n')
try:
    time.sleep(0.5)
    _, s0 = f.state()
    f.post('backward-delete-char+put(x)')
    time.sleep(0.8)
    _, s1 = f.state()
    q, m = s1['query'], [x['text'] for x in s1['matches']]
    print('before:', s0['query'], [x['text'] for x in s0['matches']])
    print('after :', q, m)
    ok = q == 'ax' and m == ['ax']
finally:
    f.close()
sys.exit(0 if ok else 1)
