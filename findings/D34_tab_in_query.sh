#!/bin/sh
# D34 (C01): a literal TAB in an extended-mode query must match a TAB, not a space.  usage: D34_tab_in_query.sh /path/to/fzf
f="$1"; T=$(printf '\t')
a=$(printf 'a\tb\na b\nab\n' | "$f" -f "$T" | od -c | head -2)
echo "$a"
[ "$(printf 'a\tb\na b\nab\n' | "$f" -f "$T")" = "$(printf 'a\tb')" ] && [ "$(printf 'x y\nxy\n' | "$f" -f 'x\ y')" = "x y" ]
