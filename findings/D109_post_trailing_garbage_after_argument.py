#!/usr/bin/env python3
"""D109 (C16): a POST body in which text follows the closing delimiter of an action argument after a comma
(`change-query(x),y`) was answered 200 and executed with a mangled argument (the query became `x),`), while
--bind rejects the same text. usage: D109_post_trailing_garbage_after_argument.py <fzf binary>"""
import os, sys, time, subprocess
sys.path.insert(0, os.path.dirname(os.path.abspath(__file__)))
from fzfpty import Fzf
f = Fzf(sys.argv[1], [], stdin_data=b'a\nb\n', port=24806)
ok = False
try:
    time.sleep(0.4)
    res = []
    for body in ('change-query(x),y', 'up+change-query(x),down+down', 'change-query[x],y]'):
        ans = f.post(body).split(b'\r\n')[0].decode()
        q = f.state()[1]['query']
        print('POST %-30s -> %s ; query = %r' % (body, ans, q))
        res.append('400' in ans and q == '')
    ans = f.post('change-query(ok)+up').split(b'\r\n')[0].decode()
    q = f.state()[1]['query']
    print('POST %-30s -> %s ; query = %r' % ('change-query(ok)+up', ans, q))
    res.append('200' in ans and q == 'ok')
    ok = all(res)
finally:
    f.close()
p = subprocess.run([sys.argv[1], '--bind', 'a:change-query(x),y', '-f', 'x'], input=b'', capture_output=True, timeout=10)
print('--bind a:change-query(x),y -> exit %d %s' % (p.returncode, p.stderr.decode().strip()[:60]))
print('PASS' if ok else 'FAIL'); sys.exit(0 if ok else 1)
