#!/usr/bin/env python3
"""D63 (C14): `offset-down` at the top of the list wrote the offset back that constrain() had rejected (-1); a
`page-up` in the same action list then read Merger.Get(-1) in multi-line mode: panic, terminal left raw.
usage: D63_offset_down_page_up_panic.py <fzf binary>"""
import os, sys, time
sys.path.insert(0, os.path.dirname(os.path.abspath(__file__)))
from fzfpty import Fzf
ok = True
for k, extra in enumerate((['--wrap'], ['--gap'], ['--layout', 'reverse', '--wrap'])):
    data = b'\n'.join(b'item %d' % i for i in range(100)) + b'\n'
    f = Fzf(sys.argv[1], extra, stdin_data=data, port=24670 + k)
    try:
        time.sleep(0.5)
        try:
            f.post('offset-up+page-down' if 'reverse' in extra else 'offset-down+page-up')
        except Exception as e:
            pass
        time.sleep(0.5); f.drain(0.3)
        try:
            _, st = f.state(); alive = True
        except Exception:
            alive = False
        panic = b'panic' in f.out
        print(extra, 'alive after the action list:', alive, '| panic printed:', panic)
        ok = ok and alive and not panic
    finally:
        f.close()
print('PASS' if ok else 'FAIL'); sys.exit(0 if ok else 1)
