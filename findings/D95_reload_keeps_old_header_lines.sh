#!/bin/sh
# D95 (C15/C06): with --header-lines N, a reload whose stream has no records left the header lines of the previous
# stream on display: restart reset the coordinator's header slice but told the terminal nothing.
# usage: D95_reload_keeps_old_header_lines.sh <fzf binary>  (needs tmux)
S=d95_$$
tmux -L $S new-session -d -x 40 -y 10 "printf 'OLDHEAD-A\nOLDHEAD-B\n1\n2\n3\n' | $1 --no-sort --header-lines 2 --bind 'space:reload(true)' --no-unicode --no-scrollbar"
sleep 0.8
tmux -L $S send-keys ' '
sleep 0.8
scr=$(tmux -L $S capture-pane -p)
tmux -L $S kill-server
echo "$scr"
if echo "$scr" | grep -q "OLDHEAD"; then echo FAIL; exit 1; fi
echo "$scr" | grep -q "0/0" || { echo "FAIL (reload not seen)"; exit 1; }
echo PASS
