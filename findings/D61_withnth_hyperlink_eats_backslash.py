#!/usr/bin/env python3
"""D61 (C11): --ansi --with-nth: a field that begins with a backslash lost it when a hyperlink was open at the
field boundary (the state prefix glued in front of the field ended in a bare ESC, and ESC + '\\' is the string
terminator). usage: D61_withnth_hyperlink_eats_backslash.py <fzf binary>"""
import subprocess, sys
b = sys.argv[1]
L = b'\x1b]8;;http://x\x1b\\foo \\bar\x1b]8;;\x1b\\ tail\n'
def run(q, inp): 
    p = subprocess.run([b, '--ansi', '--with-nth', '2', '-f', q], input=inp, capture_output=True)
    return p.returncode, p.stdout
r1 = run("'\\bar", L); r2 = run('^bar', L); r3 = run("'\\bar", b'foo \\bar tail\n')
print("linked  , query '\\bar :", r1); print("linked  , query ^bar  :", r2); print("unlinked, query '\\bar :", r3)
ok = r1[0] == 0 and r2[0] == 1 and r3[0] == 0
print('PASS' if ok else 'FAIL'); sys.exit(0 if ok else 1)
