#!/usr/bin/env python3
"""Clean-tree finding 1: integer divide by zero in preview scrolling.

usage: finding_1_preview_cycle_panic.py /path/to/fzf-binary

--preview-window 'cycle,wrap,~1' and a preview whose output is ONE line (as many
lines as there are preview header lines) that is long enough to wrap beyond the
preview window.  preview-down then computes  x % (numLines - headerLines) = x % 0.
"""
import os, sys
sys.path.insert(0, os.path.dirname(os.path.abspath(__file__)))
from ptylib import Term
t = Term(sys.argv[1], ['--preview', 'printf "%03000d\\n" 1', '--preview-window', 'cycle,wrap,~1',
                       '--bind', 'space:preview-down'], stdin_data=b'a\nb\n', rows=10, cols=40)
t.pump(1.0)
t.send(b' ', 0.5)
alive = t.alive()
print('fzf alive after preview-down:', alive)
if not alive:
    txt = t.out.decode('utf-8', 'replace').replace('\r\n', '\n')
    i = txt.find('panic:')
    print('\n'.join(txt[i:].split('\n')[:6]))
    print('exit status', os.WEXITSTATUS(t.status), '- termios restored:', t.termios_after() == t.termios_before,
          '- modes left:', t.modes())
else:
    t.send(b'\x03', 0.3); t.wait_exit(2)
t.cleanup()
sys.exit(0 if alive else 1)
