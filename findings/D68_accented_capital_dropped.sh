#!/bin/sh
# D68 (C01): a case-sensitive term dropped lines whose CAPITAL letter carries an accent although the same
# term in lower case finds them: the normalisation table had the small letter but not its capital.
# usage: D68_accented_capital_dropped.sh <fzf binary>
a=$(printf 'Škoda\nškoda\nSkoda\n' | "$1" -f 'Sk' | tr '\n' '|')
b=$(printf 'Škoda\nškoda\nSkoda\n' | "$1" -f 'sk' | tr '\n' '|')
c=$(printf 'Łódź\nłódź\n' | "$1" -f 'Lo' | tr '\n' '|')
d=$(printf 'Škoda\nSkoda\n' | "$1" -f 'Šk' | tr '\n' '|')
echo "Sk -> $a"; echo "sk -> $b"; echo "Lo -> $c"; echo "Šk -> $d (a term that carries the accent stays literal)"
[ "$a" = "Škoda|Skoda|" ] && [ "$b" = "Škoda|škoda|Skoda|" ] && [ "$c" = "Łódź|" ] && [ "$d" = "Škoda|" ] && { echo PASS; exit 0; }
echo FAIL; exit 1
