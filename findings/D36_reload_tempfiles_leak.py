#!/usr/bin/env python3
"""Clean-tree finding 2: temporary files of reload(... {f} ...) are left behind.

usage: finding_2_reload_tempfiles.py /path/to/fzf-binary
(fzf runs with a private TMPDIR; the script lists what is left in it after exit)
"""
import os, sys, time
sys.path.insert(0, os.path.dirname(os.path.abspath(__file__)))
from ptylib import Term
b = sys.argv[1]
bad = False
# (a) fzf is aborted while the reload command that got the {f} file is still running
t = Term(b, ['--bind', 'space:reload(cat {f}; sleep 30)'], stdin_data=b'a\nb\n')
t.send(b' ', 0.5)
t.send(b'\x03', 0.2)
t.wait_exit(3); time.sleep(0.3)
print('(a) abort during reload(cat {f}; sleep 30): left in TMPDIR:', t.tmp_leftovers())
bad |= bool(t.tmp_leftovers())
t.cleanup()
# (b) two reload actions in one chain: the second overwrites the first command spec
t = Term(b, ['--bind', 'space:reload(cat {f})+reload(cat {f})'], stdin_data=b'a\nb\n')
t.send(b' ', 0.8)
t.send(b'\x03', 0.2)
t.wait_exit(3)
print('(b) reload(cat {f})+reload(cat {f}), then abort: left in TMPDIR:', t.tmp_leftovers())
bad |= bool(t.tmp_leftovers())
t.cleanup()
sys.exit(1 if bad else 0)
