#!/bin/sh
# D69 (C01): a term written with an accented capital whose lower-case form carries no accent (İ -> i, Ⱥ, Ⱦ)
# was taken for unaccented and normalised: `İst` matched `Istanbul`.
# usage: D69_accented_capital_term_normalised.sh <fzf binary>
a=$(printf 'Istanbul\nİstanbul\n' | "$1" -f 'İst' | tr '\n' '|')
b=$(printf 'A\nȺ\nÁ\na\n' | "$1" +x -f 'Ⱥ' | tr '\n' '|')
c=$(printf 'Istanbul\nİstanbul\n' | "$1" -f 'Ist' | tr '\n' '|')
echo "İst -> $a"; echo "+x Ⱥ -> $b"; echo "Ist -> $c (an unaccented term still matches both)"
[ "$a" = "İstanbul|" ] && [ "$b" = "Ⱥ|" ] && [ "$c" = "Istanbul|İstanbul|" ] && { echo PASS; exit 0; }
echo FAIL; exit 1
