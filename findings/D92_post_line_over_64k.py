#!/usr/bin/env python3
"""D92 (C16): a POST body within the advertised 1 MiB limit but with no CRLF in its first 64 KiB made the
request scanner (default token limit 64 KiB) give up silently; the complete request was answered
"400 incomplete request" although the same action list is accepted from --bind.
usage: D92_post_line_over_64k.py <fzf binary>"""
import os, sys, time, socket
sys.path.insert(0, os.path.dirname(os.path.abspath(__file__)))
from fzfpty import Fzf
PORT = 24766
f = Fzf(sys.argv[1], [], stdin_data=b'a\nb\n', port=PORT)
ok = False
try:
    time.sleep(0.5)
    res = []
    for n in (60000, 70000, 500000):
        body = b'change-header(' + b'x' * n + b')'
        s = socket.create_connection(('127.0.0.1', PORT), timeout=5)
        s.sendall(b'POST / HTTP/1.1\r\nContent-Length: %d\r\n\r\n' % len(body) + body)
        try: ans = s.recv(200)
        except Exception as e: ans = repr(e).encode()
        s.close()
        line = ans.split(b'\r\n')[0].decode(errors='replace')
        print('body of %7d bytes -> %s' % (len(body), line))
        res.append(b'200 OK' in ans)
        time.sleep(0.2)
    ok = all(res)
finally:
    f.close()
print('PASS' if ok else 'FAIL'); sys.exit(0 if ok else 1)
