#!/bin/sh
# D2 (C07): `--filter` with `--no-sort` (streaming filter) must print the ORIGINAL record even when
# --with-nth transformed the searchable text.  usage: D2_... /path/to/fzf  -> exit 0 iff both modes print "a b"
f="$1"
a=$(printf 'a b\n' | "$f" --with-nth 2 -f b)
b=$(printf 'a b\n' | "$f" --with-nth 2 -f b +s)
echo "sorted filter : '$a'"; echo "streaming (+s): '$b'"
[ "$a" = "a b" ] && [ "$b" = "a b" ]
