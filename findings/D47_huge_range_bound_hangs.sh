#!/bin/sh
# D47 (C14/C10/C17): a field range with a huge bound must be evaluated over the existing fields, not hang.
f="$1"
a=$(printf 'a b c\n' | /usr/bin/timeout 10 "$f" --nth 2..9223372036854775807 -f c); rc=$?
echo "rc=$rc out=$a"
[ $rc = 0 ] && [ "$a" = "a b c" ]
