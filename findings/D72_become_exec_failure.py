#!/usr/bin/env python3
"""D72 (C14): become(...) with a command line over the kernel's argument limit: exec fails (E2BIG), the error was
ignored, and fzf stayed alive with its user interface already torn down until CTRL-C.
usage: D72_become_exec_failure.py <fzf binary>"""
import os, pty, select, signal, sys, tempfile, time
tmp = tempfile.NamedTemporaryFile(prefix='d72', delete=False)
tmp.write(('\n'.join('item-%06d-xxxxxxxxxxxxxxxxxxxxxxxxxxxxxxxxxxxxxxxx' % i for i in range(5000)) + '\n').encode()); tmp.close()
env = dict(os.environ); env.pop('FZF_DEFAULT_OPTS', None); env['TERM'] = 'xterm'
pid, fd = pty.fork()
if pid == 0:
    os.dup2(os.open(tmp.name, os.O_RDONLY), 0)
    os.execve(sys.argv[1], ['fzf', '--multi', '--sync', '--bind', 'enter:select-all+become(echo {+} | wc -c)'], env)
out = b''
def drain(t):
    global out
    end = time.time() + t
    while time.time() < end:
        r, _, _ = select.select([fd], [], [], 0.05)
        if r:
            try: out += os.read(fd, 65536)
            except OSError: return
drain(1.5)
os.write(fd, b'\r')
code = None
end = time.time() + 4
while time.time() < end and code is None:
    drain(0.1)
    p, st = os.waitpid(pid, os.WNOHANG)
    if p: code = st
print('exit status within 4 s after ENTER:', None if code is None else os.waitstatus_to_exitcode(code))
if code is None:
    print('still running, user interface gone')
    os.kill(pid, signal.SIGKILL); os.waitpid(pid, 0)
else:
    print('last output:', out[-120:].decode('latin1').replace('\r', '').strip().splitlines()[-1:])
os.remove(tmp.name)
ok = code is not None
print('PASS' if ok else 'FAIL'); sys.exit(0 if ok else 1)
