#!/bin/sh
# D113, D114 (C17): the options with an optional numeric value (--gap[=N], --multi[=MAX], --sort[=N]) accepted a negative
# number without a message (their siblings with a mandatory value reject one): --sort=-1 silently switched sorting
# off, --multi=-3 multi-selection. usage: D113_negative_optional_count.sh <fzf binary>
ok=1
for o in "--gap=-5" "--multi=-3" "--sort=-1" "-m-3"; do
  printf 'a\nb\n' | "$1" $o -f a >/dev/null 2>/tmp/d113.err; rc=$?
  echo "$o -> exit $rc $(head -c 80 /tmp/d113.err)"
  [ $rc = 2 ] || ok=0
done
for o in "--gap=2" "--multi=3" "--sort=1" "-m" "-m3" "--gap"; do
  printf 'a\nb\n' | "$1" $o -f a >/dev/null 2>/tmp/d113.err; rc=$?
  [ $rc = 0 ] || { echo "$o -> exit $rc"; ok=0; }
done
rm -f /tmp/d113.err
[ $ok = 1 ] || { echo FAIL; exit 1; }
echo PASS
