#!/usr/bin/env python3
"""D90 (C09): forward-word / kill-word find the end of the next word with a pattern whose last alternative was
`(.$)`; `.` does not match a newline, so with only a newline left after the cursor forward-word did not move and
kill-word killed nothing, while any other trailing character (a space) was passed / killed.
usage: D90_word_motion_stuck_at_newline.py <fzf binary>"""
import os, sys, time
sys.path.insert(0, os.path.dirname(os.path.abspath(__file__)))
from fzfpty import Fzf
def run(query, actions, port):
    f = Fzf(sys.argv[1], ['--query', query], stdin_data=b'a\nb\n', port=port)
    try:
        time.sleep(0.5)
        f.post(actions); time.sleep(0.3)
        return f.state()[1]['query']
    finally:
        f.close()
a = run('ab ', 'beginning-of-line+forward-word+forward-word+put(Y)', 24763)
b = run('ab\n', 'beginning-of-line+forward-word+forward-word+put(Y)', 24764)
c = run('ab\n', 'beginning-of-line+forward-word+kill-word', 24765)
print("query 'ab '  : bol, forward-word x2, put(Y) -> %r" % a)
print("query 'ab\\n' : bol, forward-word x2, put(Y) -> %r ; bol, forward-word, kill-word -> %r" % (b, c))
ok = a == 'ab Y' and b == 'ab\nY' and c == 'ab'
print('PASS' if ok else 'FAIL'); sys.exit(0 if ok else 1)
