#!/usr/bin/env python3
"""D14 (C06/C07/C09/C13): `replace-query` made the query buffer alias the rune storage of the current item
(Chars.ToRunes returns the item's own []rune for non-ASCII lines); editing the query in place then rewrote
the item. usage: D14_replace_query_aliases_item.py /path/to/fzf  -> exit 0 iff the item is unchanged.
Before fix: ['héllo wörld', ...] becomes ['llo wörlddd', ...] after replace-query+beginning-of-line+delete-char+delete-char."""
import sys, time, os
sys.path.insert(0, os.path.dirname(os.path.abspath(__file__)))
from fzfpty import Fzf
f = Fzf(sys.argv[1], [], stdin_data='héllo wörld\nsecond line\n'.encode())
time.sleep(0.5)
_, st = f.state()
before = [m['text'] for m in st['matches']]
f.post('replace-query+beginning-of-line+delete-char+delete-char')
time.sleep(0.3)
_, st = f.state()
q = st['query']
f.post('clear-query')
time.sleep(0.5)
_, st = f.state()
after = [m['text'] for m in st['matches']]
f.close()
print('before:', before); print('query after edit:', repr(q)); print('after :', after)
sys.exit(0 if before == after and q == 'llo wörld' else 1)
