#!/bin/sh
# D50 (C17/C10): an invalid field expression inside a template placeholder must be rejected like the plain form.
f="$1"
printf 'a b c\n' | "$f" --with-nth '{0}|{2}' --filter '' ; rc=$?
echo "rc=$rc"; [ $rc = 2 ]
