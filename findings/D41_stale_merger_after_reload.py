#!/usr/bin/env python3
"""Clean-tree finding 1: after a reload, a non-final search whose item count equals the
count of the last search BEFORE the reload is answered from Matcher.mergerCache with the
result of an earlier, smaller snapshot of the new input (prevCount is not updated when the
caches are dropped for a new revision).
usage: finding1_mergercache.py /path/to/fzf-binary [query]      exit 0 = PASS, 1 = FAIL"""
import sys, time, os, subprocess
sys.path.insert(0, os.path.dirname(os.path.abspath(__file__)))
from fzfpty import Fzf

binary = sys.argv[1]
query = sys.argv[2] if len(sys.argv) > 2 else ''
KEEP = 'sleep 97.13'          # keeps both sources open: the input is never "final"
env = {'FZF_DEFAULT_COMMAND': 'seq 300; ' + KEEP, 'SHELL': '/bin/sh'}
f = Fzf(binary, ['--query', query], env=env)
def state():
    for _ in range(5):
        try:
            return f.state()[1]
        except OSError:
            time.sleep(0.2)
    raise
want = lambda n: len([i for i in range(1, n + 1) if query in str(i)])
try:
    time.sleep(1.0)
    st = state()
    print('before reload  : total=%d matched=%d (expected %d)' % (st['totalCount'], st['matchCount'], want(300)))
    f.post('reload(seq 100; sleep 1.5; seq 101 300; %s)' % KEEP)
    time.sleep(0.8)
    st = state()
    print('first batch    : total=%d matched=%d (expected %d)' % (st['totalCount'], st['matchCount'], want(100)))
    time.sleep(2.5)
    st = state()
    print('second batch   : total=%d matched=%d (expected %d) reading=%s' % (st['totalCount'], st['matchCount'], want(300), st['reading']))
    ok = st['totalCount'] == 300 and st['matchCount'] == want(300)
    print('PASS' if ok else 'FAIL: the list on screen is the result of the 100-item snapshot although 300 items are loaded')
    sys.exit(0 if ok else 1)
finally:
    f.close()
    subprocess.call(['pkill', '-f', 'sleep 97[.]13'])
