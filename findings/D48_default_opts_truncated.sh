#!/bin/sh
# D48 (C17): words after an unquoted shell metacharacter in $FZF_DEFAULT_OPTS must not be dropped silently.
f="$1"
printf 'ab\n' | FZF_DEFAULT_OPTS='--exact --query=a|b --no-such-option' "$f" --filter b; rc=$?
echo "rc=$rc"
[ $rc = 2 ]
