#!/bin/sh
# D49 (C17): NaN% must be rejected like any other value outside [0, 100].
f="$1"
printf 'ab\n' | "$f" --height NaN% --margin nan% --filter b; rc=$?
echo "rc=$rc"; [ $rc = 2 ]
