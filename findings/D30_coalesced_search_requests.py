#!/usr/bin/env python3
"""D30 (C08/C10): two terminal->coordinator search requests that arrive within one coordinator sleep must not
lose the payload of the first one (its denylist / reload command / nth).
usage: D30_coalesced_search_requests.py /path/to/fzf    -> exit 0 iff exclude, reload and change-nth all took effect"""
import sys, time, socket, json, os
sys.path.insert(0, os.path.dirname(os.path.abspath(__file__)))
from fzfpty import Fzf
binary = sys.argv[1]

def free_port():
    s = socket.socket(); s.bind(('127.0.0.1', 0)); p = s.getsockname()[1]; s.close()
    return p

def full_state(f):
    d = f.http('GET', path='/?limit=1000000')
    head, _, body = d.partition(b'\r\n\r\n')
    return json.loads(body) if head.startswith(b'HTTP/1.1 200') else body

def quiesce(f, t=0.4, tries=40):
    prev = None
    for _ in range(tries):
        time.sleep(t)
        s = full_state(f)
        if isinstance(s, dict) and not s['reading'] and s['progress'] == 100 and s == prev:
            return s
        prev = s
    return prev

def fast(f, actions):
    b = actions.encode()
    s = socket.create_connection(('127.0.0.1', f.port), timeout=5)
    s.sendall(b'POST / HTTP/1.1\r\nContent-Length: %d\r\n\r\n' % len(b) + b)
    s.recv(65536); s.close()

def scenario(first, second, args, cmd, prime):
    f = Fzf(binary, ['--scheme', 'default'] + args, env={'FZF_DEFAULT_COMMAND': cmd}, port=free_port())
    try:
        time.sleep(0.3)
        if prime:
            fast(f, prime)   # coordinator: SearchNew -> SearchFin (still reading) -> sleeps up to 100 ms
            time.sleep(0.02)
        fast(f, first)
        fast(f, second)
        s = quiesce(f)
        return s['totalCount'], [m['text'] for m in s['matches']]
    finally:
        f.close()

bad = 0
t, m = scenario('exclude', 'toggle-sort', [], 'seq 1 50; sleep 3', 'change-query(5)')
print('exclude, then toggle-sort      ->', m); bad += '5' in m
t, m = scenario('reload(seq 100 120; sleep 2)', 'change-query(1)', [], 'seq 1 50; sleep 3', 'change-query(5)')
print('reload, then change-query(1)   -> total', t, m[:4]); bad += t != 21
t, m = scenario('change-nth(2)', 'change-query(foo)', ['--nth', '1'], "printf 'foo bar\\nbar foo\\n'; sleep 3", None)
print('change-nth(2), then query foo  ->', m); bad += m != ['bar foo']
sys.exit(1 if bad else 0)
