#!/usr/bin/env python3
"""D73 (C09): `cancel` kept the killed query by reference (t.yanked = t.input). While the input is hidden the same
array is put back as the query, so the kill buffer and the query shared storage: later edits of the query rewrote
what `yank` inserts. usage: D73_cancel_aliases_kill_buffer.py <fzf binary>"""
import os, sys, time
sys.path.insert(0, os.path.dirname(os.path.abspath(__file__)))
from fzfpty import Fzf
def act(f, a):
    f.post(a); time.sleep(0.25)
    return f.state()[1]['query']
bad = 0
for k, hidden in enumerate((True, False)):
    f = Fzf(sys.argv[1], ['--disabled', '--query', 'abcd'] + (['--no-input'] if hidden else []), stdin_data=b'x\ny\n', port=24730 + k)
    try:
        time.sleep(0.3)
        if not hidden: act(f, 'hide-input')
        q1 = act(f, 'cancel'); act(f, 'show-input')
        q2 = act(f, 'beginning-of-line+delete-char')
        q3 = act(f, 'end-of-line+put(|)+yank')
    finally:
        f.close()
    ok = q3 == 'bcd|abcd'
    print('%-22s after cancel %r, after delete-char %r, after put(|)+yank %r  %s' % ('--no-input' if hidden else 'hide-input at run time', q1, q2, q3, 'ok' if ok else "expected 'bcd|abcd'"))
    bad += not ok
print('PASS' if not bad else 'FAIL'); sys.exit(1 if bad else 0)
