#!/usr/bin/env python3
"""D74 (C12/C14): --tmux re-exports the environment into the popup script and indexed the value of every entry;
an environment entry without '=' (possible via execve) made runProxy panic.
usage: D74_env_entry_without_equals.py <fzf binary>   (uses the stand-in tmux in D74_shim/)"""
import ctypes, os, subprocess, sys
D = os.path.dirname(os.path.abspath(__file__))
if len(sys.argv) > 2 and sys.argv[2] == 'child':
    libc = ctypes.CDLL(None)
    args = [sys.argv[1].encode(), b'--tmux', b'-1', b'-q', b'onl', b'--print-query']
    argv = (ctypes.c_char_p * (len(args) + 1))(*args, None)
    env = [b'PATH=' + D.encode() + b'/D74_shim:' + os.environ['PATH'].encode(), b'TMUX=fake,1,0', b'TMUX_PANE=%0', b'NOEQUALS', b'HOME=/root']
    envp = (ctypes.c_char_p * (len(env) + 1))(*env, None)
    libc.execve(sys.argv[1].encode(), argv, envp)
    sys.exit(99)
p = subprocess.run([sys.executable, __file__, sys.argv[1], 'child'], input=b'only\n', capture_output=True, timeout=30)
print('exit %d stdout %r stderr %r' % (p.returncode, p.stdout, p.stderr[:120]))
ok = p.returncode == 0 and b'panic' not in p.stderr and p.stdout == b'onl\nonly\n'
print('PASS' if ok else 'FAIL'); sys.exit(0 if ok else 1)
