#!/bin/sh
# D82 (C17): an action name written with İ (U+0130, lower-cases to the one-byte i) was recognised on the
# lower-cased copy of the spec and its argument was cut out of the original at the wrong offset:
# `prİnt(hello)` was bound as print with the argument "\xb0nt(hello" instead of being rejected.
# usage: D82_action_name_with_dotted_I.sh <fzf binary>
rc=0
for spec in 'a:prİnt(hello)' 'a:prevİew(ls)+up' 'a:change-multİ(3)'; do
  echo a | "$1" --bind "$spec" -f a >/dev/null 2>&1; c=$?
  echo "--bind '$spec' -> exit $c (expected 2: unknown action)"; [ $c -eq 2 ] || rc=1
done
for spec in 'a:PRINT(hello)' 'a:print(hello)' 'a:Preview:ls'; do
  echo a | "$1" --bind "$spec" -f a >/dev/null 2>&1; c=$?
  echo "--bind '$spec' -> exit $c (expected 0)"; [ $c -eq 0 ] || rc=1
done
[ $rc -eq 0 ] && echo PASS || echo FAIL
exit $rc
