#!/usr/bin/env python3
"""D77 (C19): a walker root that begins with `.//` was printed as an absolute path that does not exist
(`.//d/f` -> `/d/f`). usage: D77_root_with_doubled_separator.py /path/to/fzf"""
import os, pty, subprocess, sys, tempfile, shutil
def walk(binary, args, cwd):
    m, s = pty.openpty()
    env = dict(os.environ)
    for k in ('FZF_DEFAULT_OPTS', 'FZF_DEFAULT_OPTS_FILE', 'FZF_DEFAULT_COMMAND', 'MSYSTEM'):
        env.pop(k, None)
    try:
        p = subprocess.run([binary] + args + ['--print0', '-f', ''], stdin=s, cwd=cwd, env=env, stdout=subprocess.PIPE, stderr=subprocess.PIPE, timeout=60)
    finally:
        os.close(m); os.close(s)
    return sorted(x for x in p.stdout.decode().split('\0') if x)
d = tempfile.mkdtemp(prefix='d77')
try:
    os.makedirs(os.path.join(d, 'd', 'sub')); open(os.path.join(d, 'd', 'f'), 'w').close(); open(os.path.join(d, 'd', 'sub', 'g'), 'w').close()
    got = walk(sys.argv[1], ['--walker=file,dir', '--walker-root', './/d'], d)
    print(got)
    ok = got == ['d/', 'd/f', 'd/sub/', 'd/sub/g']
finally:
    shutil.rmtree(d)
print('PASS' if ok else 'FAIL'); sys.exit(0 if ok else 1)
