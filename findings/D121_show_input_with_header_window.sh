#!/bin/sh
# D121 (C15): with a header window (--header-border) the input section gets a window of its own as well; show-input
# after --no-input only repainted the existing windows, so prompt and info were drawn inside the list window, above
# the header box, where a fresh start puts them below it. usage: D121_show_input_with_header_window.sh <fzf binary>  (needs tmux)
S=d121_$$
run() { # $1 = extra option, $2 = key
  tmux -L $S new-session -d -x 40 -y 12 "seq 1 3 | $BIN --no-sort --no-unicode --no-scrollbar --header-border --header HDR $1 --bind space:show-input"
  sleep 0.8
  [ -n "$2" ] && { tmux -L $S send-keys "$2"; sleep 0.6; }
  tmux -L $S capture-pane -p | grep -v "^ *$"
  tmux -L $S kill-server; sleep 0.4
}
BIN=$1
a=$(run "--no-input" "Space")
b=$(run "" "")
echo "--no-input, then show-input:"; echo "$a"
echo "fresh start with the input shown:"; echo "$b"
[ "$a" = "$b" ] || { echo FAIL; exit 1; }
echo PASS
