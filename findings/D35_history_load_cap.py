#!/usr/bin/env python3
"""D35 (C18): a new session loads only the most recent --history-size entries.
usage: D35_history_load_cap.py /path/to/fzf   (file 1..5, --history-size 2: prev-history must stop at 4)"""
import sys, os, tempfile
sys.path.insert(0, os.path.dirname(os.path.abspath(__file__)))
from fzfpty import Fzf
hist = tempfile.mktemp(prefix='d35hist')
open(hist, 'w').write('1\n2\n3\n4\n5\n')
f = Fzf(sys.argv[1], ['--history', hist, '--history-size', '2'], stdin_data=b'item\n')
got = []
try:
    for i in range(6):
        f.post('prev-history'); f.drain(0.2); got.append(f.state()[1]['query'])
finally:
    f.close(); os.remove(hist)
print(got)
sys.exit(0 if got == ['5', '4', '4', '4', '4', '4'] else 1)
