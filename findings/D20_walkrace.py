import os, pty, sys, time, select
binary, cwd, outfile, errfile = sys.argv[1:5]
args = sys.argv[5:]
pid, fd = pty.fork()
if pid == 0:
    os.chdir(cwd)
    o = os.open(outfile, os.O_WRONLY | os.O_CREAT | os.O_TRUNC)
    e = os.open(errfile, os.O_WRONLY | os.O_CREAT | os.O_TRUNC)
    os.dup2(o, 1); os.dup2(e, 2)
    env = dict(os.environ); env.pop('FZF_DEFAULT_COMMAND', None); env.pop('FZF_DEFAULT_OPTS', None)
    os.execve(binary, ['fzf'] + args, env)
end = time.time() + 30
while time.time() < end:
    p, st = os.waitpid(pid, os.WNOHANG)
    if p: break
    r, _, _ = select.select([fd], [], [], 0.1)
    if r:
        try: os.read(fd, 65536)
        except OSError: pass
print('exit status', st)
