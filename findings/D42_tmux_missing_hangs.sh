#!/bin/sh
# D42 (C07/C14): with $TMUX set but no tmux executable, `fzf --tmux` must fail with exit status 2, not hang
# (a hang was introduced by the first version of the D29 repair) and not exit 0 (as it did before that).
f="$1"; d=$(mktemp -d)
echo a | PATH="$d" TMUX=/x,1,0 TMUX_PANE=%0 /usr/bin/timeout 10 "$f" --tmux -1; rc=$?
rmdir "$d"; echo "rc=$rc"
[ $rc = 2 ]
