#!/bin/sh
# D84 (C15): toggle-wrap did not invalidate the memo of what is on each row: an item clipped to the rows that
# are left has the same number of lines in both modes, so the row kept the truncated form although --wrap was
# on (and the wrapped form after it was switched off). usage: D84_toggle_wrap_stale_row.sh <fzf binary>  (needs tmux)
S=d84_$$
items=$( (for i in $(seq 1 21); do echo s$i; done; printf 'L%0100dEND\n' 0 | tr 0 x; echo tail1; echo tail2) )
run() { # $1 = extra option, $2 = key to send
  tmux -L $S new-session -d -x 40 -y 24 "printf '%s\n' '$items' | $BIN --no-sort --no-unicode --no-scrollbar --bind space:toggle-wrap $1"
  sleep 0.8
  [ -n "$2" ] && { tmux -L $S send-keys "$2"; sleep 0.6; }
  tmux -L $S capture-pane -p | head -1
  tmux -L $S kill-server; sleep 0.4
}
BIN=$1
a=$(run "" " ")
b=$(run "--wrap" "")
echo "after toggle-wrap : $a"
echo "fresh with --wrap : $b"
[ "$a" = "$b" ] || { echo FAIL; exit 1; }
echo PASS
