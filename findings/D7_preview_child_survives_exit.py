#!/usr/bin/env python3
"""D7 (C20/C14): a preview command that is still running when the session ends must be killed.
Runs N sessions: start fzf with --preview 'sleep <unique>', let the preview start, abort, look for survivors.
usage: D7_... /path/to/fzf [N] -> exit 0 iff no preview child survived any session"""
import sys, os, time, subprocess, random
sys.path.insert(0, os.path.dirname(__file__))
from fzfpty import Fzf
n = int(sys.argv[2]) if len(sys.argv) > 2 else 12
survivors = 0
for i in range(n):
    tag = str(70000 + random.randint(0, 9999))
    f = Fzf(sys.argv[1], ['--preview', 'sleep ' + tag], stdin_data=b'one\ntwo\n', port=21000 + i)
    try:
        time.sleep(0.3 + 0.07 * i)   # vary the instant of exit relative to the preview start / 500 ms "delayed" timer
        f.post('abort'); f.wait_exit(3)
    finally:
        f.close()
    time.sleep(0.3)
    out = subprocess.run(['pgrep', '-f', 'sleep ' + tag], stdout=subprocess.PIPE).stdout.decode().split()
    if out:
        survivors += 1
        print('session', i, 'left', out)
        for p in out:
            try: os.kill(int(p), 9)
            except Exception: pass
print('sessions with a surviving preview child: %d/%d' % (survivors, n))
sys.exit(1 if survivors else 0)
