#!/usr/bin/env python3
"""D87 (C12): --tmux pasted the two fifo paths (under os.TempDir() = $TMPDIR) into the popup command with Go's
%q. Inside the double quotes sh still expands $(...): with TMPDIR=<dir>/t$(touch PWNED) the popup script ran the
command substitution and then could not open the fifo, so fzf --tmux did not start.
usage: D87_tmpdir_command_substitution.py <fzf binary>   (uses the stand-in tmux in D74_shim/)"""
import os, subprocess, sys, tempfile, shutil
D = os.path.dirname(os.path.abspath(__file__))
B = os.path.abspath(sys.argv[1])
work = tempfile.mkdtemp(prefix='d87-', dir='/tmp')
try:
    tmp = os.path.join(work, 't$(touch PWNED)')
    os.mkdir(tmp)
    env = {'PATH': D + '/D74_shim:' + os.environ['PATH'], 'TMUX': 'fake,1,0', 'TMUX_PANE': '%0', 'HOME': '/root', 'TMPDIR': tmp, 'TERM': 'xterm'}
    p = subprocess.run([B, '--tmux', '-1', '-q', 'onl', '--print-query'], input=b'only\n', capture_output=True, timeout=30, env=env, cwd=work)
    pwned = os.path.exists(os.path.join(work, 'PWNED'))
    print('exit %d stdout %r stderr %r' % (p.returncode, p.stdout, p.stderr[:160]))
    print('command substitution in $TMPDIR was executed by the popup script:', pwned)
    ok = p.returncode == 0 and p.stdout == b'onl\nonly\n' and not pwned
    print('PASS' if ok else 'FAIL'); sys.exit(0 if ok else 1)
finally:
    shutil.rmtree(work, ignore_errors=True)
