#!/bin/sh
# D110 (C10): RangesToString dropped the `..end` part of every range that begins at -1, not only of `-1..`:
# --nth=-1..-2 (which selects no field) was exported as FZF_NTH=-1 (the last field), so feeding $FZF_NTH back into
# change-nth selected other fields. usage: D110_fzf_nth_inverted_negative_range.sh <fzf binary>
f=$(mktemp /tmp/d110-XXXXXX); trap 'rm -f "$f"' EXIT
# fzf needs a terminal for its interface: run it under script(1)
ok=1
for expr in "-1..-2" "-1.." "-2..-1" "3..2"; do
  : > "$f"
  printf 'a b c\n' | script -qec "$1 --nth='$expr' --bind 'start:execute-silent(echo \"\$FZF_NTH\" > $f)+abort'" /dev/null >/dev/null 2>&1
  got=$(cat "$f")
  case "$expr" in "-1..") want="-1";; "-2..-1") want="-2..";; *) want="$expr";; esac
  echo "--nth=$expr -> FZF_NTH='$got' (expected '$want')"
  [ "$got" = "$want" ] || ok=0
done
[ $ok = 1 ] || { echo FAIL; exit 1; }
echo PASS
