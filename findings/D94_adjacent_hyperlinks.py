#!/usr/bin/env python3
"""D94 (C11): of two adjacent OSC 8 hyperlinks (no gap between them) only the first was sent to the terminal:
the painter closed the open link only when the next span had no link, so BBB was drawn as part of the link
http://a/.  usage: D94_adjacent_hyperlinks.py <fzf binary>"""
import os, sys, time, pty, select, struct, fcntl, termios
B = sys.argv[1]
line = b'one\n\x1b]8;;http://a/\x1b\\AAA\x1b]8;;http://b/\x1b\\BBB\x1b]8;;\x1b\\ tail\n'
r, w = os.pipe(); os.write(w, line); os.close(w)
pid, fd = pty.fork()
if pid == 0:
    time.sleep(0.3)
    os.dup2(r, 0)
    os.execve(B, [B, '--ansi', '--no-sort'], dict(os.environ, TERM='xterm-256color'))
os.close(r)
fcntl.ioctl(fd, termios.TIOCSWINSZ, struct.pack('HHHH', 12, 60, 0, 0))
out = b''; end = time.time() + 2.0
while time.time() < end:
    rl, _, _ = select.select([fd], [], [], 0.1)
    if rl:
        try: out += os.read(fd, 65536)
        except OSError: break
os.kill(pid, 15)
try: os.waitpid(pid, 0)
except Exception: pass
a, b = b'http://a/' in out, b'http://b/' in out
print('link http://a/ sent: %s ; link http://b/ sent: %s' % (a, b))
ok = a and b and out.find(b'http://a/') < out.find(b'http://b/') < out.find(b'BBB')
print('PASS' if ok else 'FAIL'); sys.exit(0 if ok else 1)
