#!/usr/bin/env python3
"""D33 (C19): with follow, a symlink to a directory is a directory: it is listed (with the separator) under
`dir` and not under `file`.  usage: D33_walker_symlinked_dir_is_a_file.py /path/to/fzf"""
import os, pty, subprocess, sys, tempfile, shutil
def walk(binary, args, cwd):
    m, s = pty.openpty()
    env = dict(os.environ)
    for k in ('FZF_DEFAULT_OPTS', 'FZF_DEFAULT_OPTS_FILE', 'FZF_DEFAULT_COMMAND', 'MSYSTEM'):
        env.pop(k, None)
    try:
        p = subprocess.run([binary] + args + ['--print0', '-f', ''], stdin=s, cwd=cwd, env=env, stdout=subprocess.PIPE, stderr=subprocess.PIPE, timeout=60)
    finally:
        os.close(m); os.close(s)
    return sorted(x for x in p.stdout.decode().split('\0') if x)
d = tempfile.mkdtemp(prefix='d33')
try:
    os.makedirs(os.path.join(d, 'real')); open(os.path.join(d, 'real', 'r'), 'w').close(); open(os.path.join(d, 'a'), 'w').close()
    os.symlink('real', os.path.join(d, 'link'))
    files = walk(sys.argv[1], ['--walker=file,follow'], d)
    dirs = walk(sys.argv[1], ['--walker=dir,follow'], d)
    print('file,follow ->', files)
    print('dir,follow  ->', dirs)
    ok = 'link/' not in files and 'link/' in dirs
finally:
    shutil.rmtree(d)
sys.exit(0 if ok else 1)
