#!/bin/sh
# D22 (C03): an equal term must be scored as the occurrence it reports, i.e. like the prefix term with the
# same range.  usage: D22_... /path/to/fzf
f="$1"
a=$(printf 'src/foo\nsrc/foo x\n' | "$f" --scheme=path --filter '^src/foo$ | ^src/foo' | head -1)
echo "first: $a"
[ "$a" = "src/foo" ]
