#!/bin/sh
# D15 (C04): with --no-sort the matches stay in input order, reversed under --tac -- also in filter mode.
# Before fix: `--no-sort --tac -f ab` and `--no-sort --sync -f ab` print rank order (ab xaxb xxaxxb).
# usage: D15_filter_no_sort_tac.sh /path/to/fzf   -> exit 0 iff both orders are right
f="$1"
in='xaxb\nab\nxxaxxb\n'
a=$(printf "$in" | "$f" --no-sort --tac -f ab | tr '\n' ' ')
b=$(printf "$in" | "$f" --no-sort --sync -f ab | tr '\n' ' ')
c=$(printf "$in" | "$f" --no-sort -f ab | tr '\n' ' ')
echo "--no-sort --tac : $a"; echo "--no-sort --sync: $b"; echo "--no-sort       : $c"
[ "$a" = "xxaxxb ab xaxb " ] && [ "$b" = "xaxb ab xxaxxb " ] && [ "$c" = "xaxb ab xxaxxb " ]
