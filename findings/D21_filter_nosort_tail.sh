#!/bin/sh
# D21 (C06/C08): --filter with --no-sort must honour --tail.  usage: D21_... /path/to/fzf
f="$1"
a=$(seq 10 | "$f" -f '' --tail 3 --no-sort | tr '\n' ' ')
echo "$a"
[ "$a" = "8 9 10 " ]
