"""D112 (C20): "Loading .." stays on the preview pane for good when a command without output ends at about the
500 ms mark: the watcher's `delayed` notice is handled after the final (empty) result. Schedule-dependent: about 1 to 5 of
80 focus steps on the unrepaired tree.  usage: D112_loading_after_final_result.py /path/to/fzf   (takes ~2 min; harness by the reporting sub-agent)
Preview `sleep {}` (prints nothing) over 40 durations 0.4960 .. 0.4999 s; a pane that still
shows "Loading .." 1 s after the line was focused (and 3 s later) is reported."""
import sys, time, os
sys.path.insert(0, os.path.join(os.path.dirname(os.path.abspath(__file__)), 'D112_harness'))
from harness import Fzf
b = sys.argv[1]
vals = ['%.4f' % (0.4960 + 0.0001*i) for i in range(40)]
f = Fzf(b, ['--preview', 'sleep {}', '--reverse', '--no-sort'], stdin_data=('\n'.join(vals)+'\n').encode(), port=29044, rows=50)
hits=[]
try:
    time.sleep(1.2)
    for rnd in range(2):
      f.post('first'); time.sleep(1.2)
      for i,v in enumerate(vals):
        f.drain(0.1)
        scr = f.screen()
        if any('Loading' in l for l in scr):
            time.sleep(3); f.drain(0.2)
            still = [l for l in f.screen() if 'Loading' in l]
            hits.append((rnd, vals[i], bool(still))); print('Loading shown 1 s after focusing', vals[i], '; still there 3 s later:', still, flush=True)
        f.post('down'); time.sleep(0.95)
    print('hits', hits)
    f.post('abort'); f.wait_exit(3)
finally:
    f.close()
print('PASS' if not hits else 'FAIL'); sys.exit(1 if hits else 0)
