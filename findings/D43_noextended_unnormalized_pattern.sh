#!/bin/sh
# D43 (C02/C01): --no-extended must find a line containing the query character itself (İ), as the extended mode does.
f="$1"
a=$(printf 'İstanbul\nIstanbul\n' | "$f" +x -f 'İ' | head -1)
echo "first: $a"
[ "$a" = "İstanbul" ]
