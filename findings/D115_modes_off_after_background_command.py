#!/usr/bin/env python3
"""D115 (C14): LightRenderer.Pause switches mouse reporting and bracketed paste off on every path, Resume switched
them on again only under `clear`: after a background command that ran longer than a second (execute-silent,
transform-*: Pause(false) ... Resume(false, false)) the modes stayed off for the rest of the session.
usage: D115_modes_off_after_background_command.py <fzf binary>"""
import os, sys, time
sys.path.insert(0, os.path.dirname(os.path.abspath(__file__)))
from fzfpty import Fzf
f = Fzf(sys.argv[1], [], env={'SHELL': '/bin/sh'}, stdin_data=b'one\ntwo\nthree\n', port=24807)
ok = False
try:
    time.sleep(0.4); f.drain(0.2)
    n0 = len(f.out)
    print('at start               : mouse on %d, paste on %d' % (f.out.count(b'\x1b[?1000h'), f.out.count(b'\x1b[?2004h')))
    f.post('transform-query(sleep 1.4; echo x)'); time.sleep(2.2); f.drain(0.3)
    f.post('up+down'); time.sleep(0.5); f.drain(0.3)
    seg = f.out[n0:]
    off_m, on_m = seg.count(b'\x1b[?1000l'), seg.count(b'\x1b[?1000h')
    off_p, on_p = seg.count(b'\x1b[?2004l'), seg.count(b'\x1b[?2004h')
    print('after a 1.4 s transform: mouse off %d / on %d, paste off %d / on %d ; query %r' % (off_m, on_m, off_p, on_p, f.state()[1]['query']))
    ok = off_m >= 1 and on_m >= off_m and off_p >= 1 and on_p >= off_p
finally:
    f.close()
print('PASS' if ok else 'FAIL'); sys.exit(0 if ok else 1)
