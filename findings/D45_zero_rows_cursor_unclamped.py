#!/usr/bin/env python3
"""finding1_zero_height.py FZF_BINARY
Clean-tree finding: when the list window has no line left for items
(maxItems() == 0), constrain() never clamps the cursor, so after the list
shrinks the cursor designates nothing and accept prints nothing (exit 1)
although there is a match."""
import sys, os
sys.path.insert(0, os.path.dirname(os.path.abspath(__file__)))
from h import start, st, brief
binary = sys.argv[1]
items = ['a%d' % i for i in range(10)]
bad = 0
for args, rows in ((['--height=4', '--header=1\n2\n3'], 24),
                   (['--height=3', '--header-lines=1'], 24),
                   (['--height=2'], 24),
                   (['--height=3', '--border'], 24),
                   ([], 2),                      # a 2-row terminal, no options at all
                   (['--height=10'], 24)):       # control
    f = start(binary, args, items, rows=rows)
    f.post('up+up+up+up+up')
    a = brief(st(f))
    f.post('change-query(a1)')
    b = brief(st(f, 0.4))
    f.post('accept')
    status = f.wait_exit(5)
    tail = f.out.rsplit(b'\x1b[?7h', 1)[-1].decode(errors='replace').strip()
    code = os.waitstatus_to_exitcode(status) if status is not None else None
    f.close()
    wrong = b['n'] > 0 and (b['cur'] is None or code != 0)
    bad += wrong
    print('%-40r rows=%-2d after up x5: pos=%d cur=%s | after query a1: matches=%d pos=%d cur=%s | accept: exit=%r printed=%r %s'
          % (args, rows, a['pos'], a['cur'], b['n'], b['pos'], b['cur'], code, tail, '<-- WRONG' if wrong else ''))
sys.exit(1 if bad else 0)
