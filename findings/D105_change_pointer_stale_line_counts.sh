#!/bin/sh
# D105 (C15): under --wrap the number of rows of an item depends on the width left after the pointer; change-pointer
# to another width kept the cached row counts of the old width: after the next cursor movement rows overlapped and
# the first row of the current item disappeared. usage: D105_change_pointer_stale_line_counts.sh <fzf binary>  (needs tmux)
S=d105_$$
line() { printf "%037d\n" 0 | tr 0 "$1"; }
items=$( (line 1; line 2; line 3; line 4) )
run() { # $1 = pointer option, $2 = keys
  tmux -L $S new-session -d -x 40 -y 14 "printf '%s\n' '$items' | $BIN --no-sort --wrap --no-unicode --no-scrollbar --pointer '$1' --bind 'space:change-pointer(>>)'"
  sleep 0.8
  for k in $2; do tmux -L $S send-keys "$k"; sleep 0.5; done
  tmux -L $S capture-pane -p | grep -v "^ *$"
  tmux -L $S kill-server; sleep 0.4
}
BIN=$1
a=$(run ">" "Space Down")
b=$(run ">>" "Down")
echo "after change-pointer(>>), down:"; echo "$a"
echo "fresh with --pointer '>>', down:"; echo "$b"
[ "$a" = "$b" ] || { echo FAIL; exit 1; }
echo PASS
