#!/bin/sh
# D70 (C15): after a long query was replaced by a short one the prompt showed only the second half of the short
# query (the horizontal scroll offset of the prompt was kept although everything fits).
# usage: D70_prompt_shows_half_query.sh <fzf binary>     (needs tmux)
S=d70_$$
PORT=24690
tmux -L $S new-session -d -x 40 -y 6 "seq 4 | $1 --no-unicode --no-scrollbar --listen $PORT"
sleep 0.8
long=$(printf 'abcdefghij%.0s' 1 2 3 4 5 6 7 8)
curl -s -XPOST localhost:$PORT -d "change-query($long)" >/dev/null 2>&1 || python3 - "$PORT" "change-query($long)" <<'P'
import sys,socket
s=socket.create_connection(('127.0.0.1',int(sys.argv[1]))); b=sys.argv[2].encode()
s.sendall(b'POST / HTTP/1.1\r\nContent-Length: %d\r\n\r\n'%len(b)+b); s.recv(100)
P
sleep 0.4
python3 - "$PORT" "change-query(0123456789)" <<'P'
import sys,socket
s=socket.create_connection(('127.0.0.1',int(sys.argv[1]))); b=sys.argv[2].encode()
s.sendall(b'POST / HTTP/1.1\r\nContent-Length: %d\r\n\r\n'%len(b)+b); s.recv(100)
P
sleep 0.5
line=$(tmux -L $S capture-pane -p | grep '^>' | tail -1)
tmux -L $S kill-server
echo "prompt line: '$line'"
case "$line" in *"> 0123456789"*) echo PASS; exit 0;; esac
echo FAIL; exit 1
