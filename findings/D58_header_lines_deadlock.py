#!/usr/bin/env python3
"""clean_deadlock_repro.py <fzf-binary> [header-lines] [mode]
Clean-tree finding: lock-order inversion between EventBox lock and ChunkList.mutex.
  reader goroutine : ChunkList.Push (holds ChunkList.mutex) -> item builder -> eventBox.Set(EvtHeader) (wants EventBox lock)
  Run's event loop : eventBox.Wait(callback) (holds EventBox lock) -> case EvtSearchNew -> chunkList.Snapshot (wants ChunkList.mutex)
The query is changed (over --listen; typing does the same) while header lines are still arriving.
Reports HUNG when a posted query is not applied within 3 seconds, then prints the three blocked goroutines."""
import sys, time, os, socket, json, signal, re
sys.path.insert(0, '/verif/findings')
from fzfpty import Fzf
binary = sys.argv[1]
N = int(sys.argv[2]) if len(sys.argv) > 2 else 60000
mode = sys.argv[3] if len(sys.argv) > 3 else 'stream'
if mode == 'stream':
    # header lines keep arriving for ~10 seconds
    args = ['--header-lines', str(N), '--bind', 'start:reload:i=0; while [ $i -lt 3000 ]; do seq 20; i=$((i+1)); sleep 0.003; done']
else:
    # kubectl-style: every query change reloads a command whose first N lines are the header
    args = ['--header-lines', str(N), '--bind', 'change:reload:sleep 0.0$(( $$ % 10 )); seq 3']
f = Fzf(binary, args, port=int(os.environ.get('PORT', '24622')))
def http(method, body=b''):
    s = socket.create_connection(('127.0.0.1', f.port), timeout=4)
    cl = ('Content-Length: %d\r\n' % len(body)) if method == 'POST' else ''
    s.sendall(('%s / HTTP/1.1\r\n%s\r\n' % (method, cl)).encode() + body)
    data = b''
    while True:
        c = s.recv(65536)
        if not c: break
        data += c
    s.close()
    return data
def query():
    body = http('GET').partition(b'\r\n\r\n')[2]
    return json.loads(body)['query']
hung = False
limit = float(os.environ.get('SECONDS_LIMIT', '14'))
try:
    t0 = time.time(); k = 0
    while time.time() - t0 < limit and not hung:
        k += 1
        http('POST', b'change-query(q%d)' % k)
        if k % 10 == 0:
            # the query we posted must show up
            t1 = time.time()
            while True:
                try: q = query()
                except Exception as e: q = repr(e)
                if q == 'q%d' % k: break
                if time.time() - t1 > 3:
                    print('after %.1fs: posted q%d but fzf still says query=%s' % (time.time() - t0, k, q)); hung = True; break
                time.sleep(0.02)
        f.drain(0.003)
    print('posts:', k)
    if hung:
        os.kill(f.pid, signal.SIGQUIT); f.drain(1.5)
        out = f.out.decode('utf-8', 'replace').replace('\r', '')
        for g in out[out.find('goroutine 1 '):].split('\n\n'):
            if '[sync.Mutex.Lock' in g.split('\n')[0]:
                lines = [l for l in g.split('\n') if re.search(r'^goroutine|fzf/src[./]', l) and not l.startswith('\t/usr')]
                print('\n'.join('   ' + l.strip()[:150] for l in lines if not l.startswith('created')))
    print('HUNG (deadlock)' if hung else 'no hang')
    sys.exit(1 if hung else 0)
finally:
    f.close()
