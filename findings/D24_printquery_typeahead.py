#!/usr/bin/env python3
"""D24 (C18/C07): after print-query, typed-ahead keys must not be appended to the printed / stored query.
usage: D24_printquery_typeahead.py /path/to/fzf [dir-with-fzfpty.py]   -> exit 0 iff the stored query is always 'abc'"""
import sys, os, tempfile
sys.path.insert(0, sys.argv[2] if len(sys.argv) > 2 else os.path.dirname(os.path.abspath(__file__)))
from fzfpty import Fzf
binary = sys.argv[1]
hist = tempfile.mktemp(prefix='d24hist')
base = 26000 + os.getpid() % 3000
bad = 0
for n, bind in enumerate(['enter:print-query', 'enter:accept-or-print-query']):
    seen = {}
    for trial in range(8):
        open(hist, 'w').write('')
        f = Fzf(binary, ['--history', hist, '--bind', bind], stdin_data=b'item\n', port=base + n * 10 + trial)
        os.write(f.fd, b'abc'); f.drain(0.3)
        os.write(f.fd, b'\rxyz')
        f.wait_exit(); f.close()
        d = open(hist).read(); seen[d] = seen.get(d, 0) + 1
    print('%-28s typed abc, then ENTER+xyz in one write -> stored: %r' % (bind, seen))
    bad += sum(v for k, v in seen.items() if k != 'abc\n')
os.remove(hist)
sys.exit(1 if bad else 0)
