#!/usr/bin/env python3
"""D102 (C13/C08): after the input had ended, UpdateList fired `load` (and `one` / `zero`) for the next merger that
arrived, also when that merger was the result of a scan over an older snapshot (Merger.final == false): `load`
saw a partial FZF_MATCH_COUNT next to the final FZF_TOTAL_COUNT, `one:accept` accepted although a later line
matched as well. The window is a scan in progress when the reader finishes, so the demo uses a 2-million-line
input and several sessions.  usage: D102_load_fires_on_stale_result.py <fzf binary> [sessions]"""
import os, sys, time, tempfile, shutil
sys.path.insert(0, os.path.dirname(os.path.abspath(__file__)))
from fzfpty import Fzf
runs = int(sys.argv[2]) if len(sys.argv) > 2 else 5
work = tempfile.mkdtemp(prefix='d102-', dir='/tmp')
bad = 0
try:
    big = os.path.join(work, 'big.txt')
    with open(big, 'w') as f:
        f.write('needle A\n')
        for i in range(2000000):
            f.write('line number %d some padding text here\n' % i)
        f.write('needle B\n')
    out = os.path.join(work, 'event.out')
    for run in range(runs):
        if os.path.exists(out): os.remove(out)
        f = Fzf(sys.argv[1], ['--query', 'line', '--bind', 'load:execute-silent(echo $FZF_MATCH_COUNT $FZF_TOTAL_COUNT > %s)' % out],
                env={'FZF_DEFAULT_COMMAND': 'cat ' + big}, port=24790 + run)
        try:
            for i in range(200):
                if os.path.exists(out) and os.path.getsize(out) > 0: break
                time.sleep(0.1)
            got = open(out).read().split() if os.path.exists(out) else []
            okay = got == ['2000000', '2000002']
            bad += 0 if okay else 1
            print('session %d: at load FZF_MATCH_COUNT/FZF_TOTAL_COUNT = %s -> %s' % (run, '/'.join(got), 'ok' if okay else 'STALE LIST'))
        finally:
            f.close()
finally:
    shutil.rmtree(work, ignore_errors=True)
print('PASS' if bad == 0 else 'FAIL (%d of %d sessions)' % (bad, runs)); sys.exit(1 if bad else 0)
