#!/usr/bin/env python3
"""D62 (C10): transform-nth(CMD) whose output contains '|' wrote the rotated OUTPUT over CMD: the next trigger ran
the output as a shell command. usage: D62_transform_nth_overwrites_command.py <fzf binary>"""
import os, sys, time, tempfile
sys.path.insert(0, os.path.dirname(os.path.abspath(__file__)))
from fzfpty import Fzf
binary = sys.argv[1]
log = tempfile.mktemp(prefix='d62')
open(log, 'w').close()
data = b"alpha beta gamma\nbeta gamma alpha\ngamma alpha beta\n"
f = Fzf(binary, ['--nth', '1', '--exact', '--bind', 'a:transform-nth(echo run >> %s; echo "2|3")' % log], stdin_data=data, port=24662, env={'SHELL': '/bin/sh'})
ok = True
try:
    for i in range(3):
        os.write(f.fd, b'a'); time.sleep(0.5)
        f.post('change-query(beta)'); time.sleep(0.3)
        _, st = f.state()
        runs = open(log).read().split()
        got = [m['text'] for m in st['matches']]
        print('trigger', i + 1, 'matches', got, 'command ran', len(runs), 'times')
        # nth is 2 after every trigger: "beta" is the second field of the first line only
        ok = ok and got == ['alpha beta gamma'] and len(runs) == i + 1
finally:
    f.close(); os.remove(log)
print('PASS' if ok else 'FAIL'); sys.exit(0 if ok else 1)
