#!/bin/sh
# D83 (C17): --tmux with a token after the two sizes was accepted and the sizes were silently dropped.
# usage: D83_tmux_surplus_token.sh <fzf binary>
rc=0
for v in 'center,10,20,garbage' '10,20,garbage' 'center,10,20,30'; do
  echo a | "$1" --tmux "$v" -f a >/dev/null 2>&1; c=$?
  echo "--tmux $v -> exit $c (expected 2)"; [ $c -eq 2 ] || rc=1
done
for v in 'center,10,20' 'center,10,20,border-native' 'top,30%' '10,20' 'border-native'; do
  echo a | "$1" --tmux "$v" -f a >/dev/null 2>&1; c=$?
  echo "--tmux $v -> exit $c (expected 0)"; [ $c -eq 0 ] || rc=1
done
[ $rc -eq 0 ] && echo PASS || echo FAIL
exit $rc
