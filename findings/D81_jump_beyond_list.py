#!/usr/bin/env python3
"""D81 (C09): jump mode accepted a label whose index plus the scroll offset lies beyond the list (labels are
counted against window rows, and with --gap fewer items than rows are shown): the cursor designated no result
while the jump event ran, and jump-accept accepted the last item instead of cancelling.
usage: D81_jump_beyond_list.py <fzf binary>"""
import os, sys, time, tempfile, struct, fcntl, termios
sys.path.insert(0, os.path.dirname(os.path.abspath(__file__)))
from fzfpty import Fzf
out = tempfile.mktemp(prefix='d81')
f = Fzf(sys.argv[1], ['--gap', '1', '--bind', 'jump:execute-silent(echo "cur=[{}]" >> %s)' % out], stdin_data=b'i0\ni1\ni2\ni3\ni4\ni5\ni6\ni7\n', port=24760)
ok = False
try:
    fcntl.ioctl(f.fd, termios.TIOCSWINSZ, struct.pack('HHHH', 14, 60, 0, 0))
    os.kill(f.pid, 28)  # SIGWINCH
    time.sleep(0.5)
    f.post('last'); time.sleep(0.2); f.post('down+down+down'); time.sleep(0.3)
    st = f.state()[1]
    print('cursor before the jump:', st['current']['text'], 'of', st['matchCount'])
    f.post('jump'); time.sleep(0.3); os.write(f.fd, b'j'); time.sleep(0.5)
    log = open(out).read().strip() if os.path.exists(out) else '(jump event not fired)'
    st = f.state()[1]
    print("key 'j' (7th label, not drawn): during the jump event:", log, '| afterwards:', st['current']['text'])
    # the label was never drawn: the jump has to be cancelled, the cursor stays where it was
    ok = 'cur=[]' not in log and st['current']['text'] == 'i4'
finally:
    f.close()
    if os.path.exists(out): os.remove(out)
print('PASS' if ok else 'FAIL'); sys.exit(0 if ok else 1)
