#!/usr/bin/env python3
"""D16 (C14/C20) -- usage: D16_preview_survives_cancel_then_exit.py FZF_BINARY (exit 0 = no preview child survives). Written by a round-6 sub-agent as extra_clean_race_demo.py; before fix the up+abort scenario leaves the sleep alive in about half of the runs.

Property C20, last clause: no preview command survives the end of the session.

Scenario 1 (control): a slow, silent preview command is running; the session
  is accepted.  The command must be gone afterwards.
Scenario 2 (trigger): the same, but the cursor is moved and the session is
  accepted in the same breath (`down+accept`), i.e. the session ends while the
  superseded preview command is still inside its 500ms grace period
  (previewCancelWait) and the watcher goroutine is therefore not listening on
  the kill channel.

The preview command is `exec sleep <unique>` so the process is identified by a
unique argument.  Exit status 0 = PASS, 1 = FAIL.
"""
import os, sys, time, tempfile, shutil, signal
sys.path.insert(0, os.path.dirname(os.path.abspath(__file__)))
from fzfpty import Fzf

binary = os.path.abspath(sys.argv[1])
work = tempfile.mkdtemp(prefix='extra_', dir=None)
failures = []


def check(cond, msg):
    print(('ok   ' if cond else 'FAIL ') + msg)
    if not cond:
        failures.append(msg)


def alive(mark):
    pids = []
    for p in os.listdir('/proc'):
        if not p.isdigit():
            continue
        try:
            cl = open('/proc/%s/cmdline' % p, 'rb').read().split(b'\0')
            st = open('/proc/%s/stat' % p).read().rsplit(')', 1)[1].split()[0]
        except OSError:
            continue
        if len(cl) >= 2 and cl[0].endswith(b'sleep') and cl[1] == mark.encode() and st != 'Z':
            pids.append(int(p))
    return pids


def scenario(name, actions, port_off):
    mark = '29%d.%d' % (port_off, os.getpid())
    log = os.path.join(work, 'log%d' % port_off)
    open(log, 'w').close()
    preview = 'echo {} >> %s; exec sleep %s' % (log, mark)
    f = Fzf(binary, ['--preview', preview], env={'SHELL': '/bin/sh'},
            stdin_data=b'alpha\nbravo\ncharlie\n',
            port=20000 + (os.getpid() + port_off) % 20000)
    try:
        time.sleep(1.0)
        a = alive(mark)
        print('%s: before: log=%r alive=%r' % (name, open(log).read().split(), a))
        check(len(a) == 1, '%s: exactly one preview command is running before the end' % name)
        t0 = time.time()
        f.post(actions)
        st = f.wait_exit(5)
        print('%s: fzf exit status %r after %.2fs' % (name, st, time.time() - t0))
        check(st is not None, '%s: fzf exited' % name)
        time.sleep(1.0)          # > previewCancelWait: anything that was going to be killed is dead now
        a = alive(mark)
        print('%s: after exit: log=%r alive=%r' % (name, open(log).read().split(), a))
        check(a == [], '%s: no preview command survives the end of the session' % name)
    finally:
        f.close()
        for p in alive(mark):
            try: os.kill(p, signal.SIGKILL)
            except OSError: pass


try:
    scenario('accept', 'accept', 1)
    scenario('down+accept', 'down+accept', 2)
    scenario('up+abort', 'up+abort', 3)
finally:
    shutil.rmtree(work, ignore_errors=True)

print('RESULT:', 'FAIL' if failures else 'PASS')
sys.exit(1 if failures else 0)
