#!/bin/sh
# D100 (C03): bonusAt returned the constant bonusBoundaryWhite for the first position and ignored
# initialCharClass: under --scheme=path a boundary term scored the start of a line 88 and the same word after a
# slash 89, so the exact line `foo` was ranked below `a/foo` and `x/foo bar`.
# usage: D100_boundary_term_start_of_line.sh <fzf binary>
out=$(printf 'foo\na/foo\nfoo bar\nx/foo bar\n' | "$1" --scheme=path --filter "'foo'" | tr '\n' ',')
ref=$(printf 'foo\na/foo\nfoo bar\nx/foo bar\n' | "$1" --scheme=path --filter "'foo" | tr '\n' ',')
echo "'foo' : $out"
echo "'foo  : $ref"
[ "$out" = "$ref" ] || { echo FAIL; exit 1; }
echo PASS
