"""Harness helper: like /tmp/wt-tools/fzfpty.py's Fzf but gives the pty a real window size."""
import os, pty, sys, time, fcntl, termios, struct
sys.path.insert(0, '/tmp/wt-tools')
from fzfpty import Fzf as _Fzf

class Fzf(_Fzf):
    def __init__(self, binary, args, env=None, stdin_data=None, port=None, cwd=None, rows=24, cols=80, keep_stdin=False):
        self.port = port or (20000 + os.getpid() % 20000)
        e = dict(os.environ)
        e.pop('FZF_DEFAULT_OPTS', None); e.pop('FZF_DEFAULT_COMMAND', None)
        e['TERM'] = 'xterm'
        if env: e.update(env)
        rfd = None
        if stdin_data is not None:
            rfd, wfd = os.pipe()
            os.write(wfd, stdin_data)
            if keep_stdin:
                self.stdin_w = wfd   # caller feeds more lines later with feed(), ends with eof()
            else:
                os.close(wfd)
        self.pid, self.fd = pty.fork()
        if self.pid == 0:
            if keep_stdin and stdin_data is not None: os.close(wfd)
            fcntl.ioctl(1, termios.TIOCSWINSZ, struct.pack('HHHH', rows, cols, 0, 0))
            if cwd: os.chdir(cwd)
            if rfd is not None:
                os.dup2(rfd, 0)
            os.execve(binary, ['fzf', '--listen', str(self.port)] + args, e)
        self.out = b''
        time.sleep(0.5); self.drain()

    def feed(self, data):
        os.write(self.stdin_w, data)
    def eof(self):
        os.close(self.stdin_w)
    def drain(self, t=0.2):
        # like the base class, but answers the terminal's cursor-position query (needed for --height)
        import select
        end = time.time() + t
        while time.time() < end:
            r, _, _ = select.select([self.fd], [], [], 0.05)
            if r:
                try: chunk = os.read(self.fd, 65536)
                except OSError: break
                self.out += chunk
                for _ in range(chunk.count(b'\x1b[6n')):
                    os.write(self.fd, b'\x1b[1;1R')
