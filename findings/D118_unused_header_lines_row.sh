#!/bin/sh
# D118 (C15): rows are reserved for --header-lines N, but Terminal.header stayed empty until the input had sent a
# line, so with fewer than N input lines the reserved rows were never painted: after change-header to fewer lines
# an old header line stayed on such a row. usage: D118_unused_header_lines_row.sh <fzf binary>  (needs tmux)
S=d118_$$
tmux -L $S new-session -d -x 40 -y 10 "$1 --no-unicode --no-scrollbar --header 'H1
H2
H3' --header-lines 1 --bind 'space:change-header(X)' < /dev/null"
sleep 0.8
tmux -L $S send-keys ' '
sleep 0.6
scr=$(tmux -L $S capture-pane -p)
tmux -L $S kill-server
echo "$scr"
if echo "$scr" | grep -q "H[123]"; then echo FAIL; exit 1; fi
echo "$scr" | grep -q "X" || { echo "FAIL (new header not shown)"; exit 1; }
echo PASS
