#!/usr/bin/env python3
"""D103 (C08): with the search disabled the coordinator keeps the last searched query. The EvtSearchNew branch of
Run forgot it whenever the snapshot revision differed at all (also after a --tail trim, a minor bump), the
EvtReadNew branch only after a reload: the list shown after loading depended on whether an unrelated request
(toggle-sort twice: no net change) had met a trim.  usage: D103_kept_query_dropped_by_tail_trim.py <fzf binary>"""
import os, sys, time, shlex, socket
sys.path.insert(0, os.path.dirname(os.path.abspath(__file__)))
from fzfpty import Fzf
PRODUCER = ("import sys,time\n"
            "d=('\\n'.join('%s%04d' % ('a' if i % 2 else 'b', i) for i in range(4000))+'\\n').encode()\n"
            "o=sys.stdout.buffer\n"
            "for i in range(0,len(d),90):\n o.write(d[i:i+90]); o.flush(); time.sleep(0.004)\n")
def fast_post(port, actions):
    b = actions.encode()
    s = socket.create_connection(('127.0.0.1', port), timeout=5)
    s.sendall(b'POST / HTTP/1.1\r\nContent-Length: %d\r\n\r\n' % len(b) + b)
    try: s.recv(200)
    except Exception: pass
    s.close()
def run(with_requests, port):
    f = Fzf(sys.argv[1], ['--tail=50', '--query=a'], env={'FZF_DEFAULT_COMMAND': 'python3 -c ' + shlex.quote(PRODUCER), 'SHELL': '/bin/sh'}, port=port)
    try:
        f.post('disable-search')
        t0 = time.time()
        while time.time() - t0 < 3.5:
            if with_requests: fast_post(port, 'toggle-sort+toggle-sort')
            time.sleep(0.01); f.drain(0.01)
        prev = None; st = None
        for _ in range(60):
            time.sleep(0.15); st = f.state()[1]
            cur = (st['matchCount'], st['totalCount'], st['reading'])
            if cur == prev and not st['reading']: break
            prev = cur
        return st
    finally:
        f.close()
a = run(False, 24800); b = run(True, 24801)
print('no request during loading     : query=%r total=%d matchCount=%d' % (a['query'], a['totalCount'], a['matchCount']))
print('toggle-sort x2 during loading : query=%r total=%d matchCount=%d' % (b['query'], b['totalCount'], b['matchCount']))
ok = a['matchCount'] == b['matchCount'] and a['totalCount'] == b['totalCount'] == 50
print('PASS' if ok else 'FAIL'); sys.exit(0 if ok else 1)
