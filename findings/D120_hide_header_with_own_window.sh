#!/bin/sh
# D120 (C15): with --input-border the header lives in a window of its own; hide-header / toggle-header only asked
# for the existing windows to be repainted, so the header lines stayed on the screen (and the list did not get the
# freed rows) until the next full redraw. usage: D120_hide_header_with_own_window.sh <fzf binary>  (needs tmux)
S=d120_$$
run() { # $1 = key ("" for none), $2 = extra option
  tmux -L $S new-session -d -x 40 -y 12 "seq 1 3 | $BIN --no-sort --no-unicode --no-scrollbar --input-border --header 'H1
H2' --bind space:hide-header $2"
  sleep 0.8
  [ -n "$1" ] && { tmux -L $S send-keys "$1"; sleep 0.6; }
  tmux -L $S capture-pane -p
  tmux -L $S kill-server; sleep 0.4
}
BIN=$1
a=$(run " " "")
b=$(run "" "--bind start:hide-header")
echo "after hide-header:"; echo "$a" | grep -v "^ *$"
if echo "$a" | grep -q "H[12]"; then echo FAIL; exit 1; fi
[ "$a" = "$b" ] || { echo "differs from a start with the header hidden"; echo FAIL; exit 1; }
echo PASS
