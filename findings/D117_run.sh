#!/bin/sh
# D117 (C06): the --tmux / proxy relay terminated the records of Options.Input with the OUTPUT separator (--print0)
# instead of the INPUT delimiter (--read0). usage: D117_run.sh <fzf binary> <repo dir>
# Copies the test into <repo dir>/src, runs it against the binary and removes it again.
export GOFLAGS=-mod=mod GOPROXY=off GOSUMDB=off GOTOOLCHAIN=local; unset GOWORK
here=$(cd "$(dirname "$0")" && pwd)
cp "$here/D117_proxy_input_separator_test.go.txt" "$2/src/zz_d117_test.go"
(cd "$2" && FZF_BIN=$(readlink -f "$1") go test -vet=off -count=1 -run TestCleanProxyInputSeparator ./src/ 2>&1 | tail -6); rc=$?
rm -f "$2/src/zz_d117_test.go"
exit $rc
