#!/usr/bin/env python3
"""D99 (C19): the hidden test and the skip list of the built-in walker were applied to the root itself: a root the
user names explicitly was pruned as a whole when its own base name was hidden or in the skip list
(--walker-root node_modules listed nothing, node_modules/. everything).
usage: D99_root_named_like_a_skipped_dir.py <fzf binary>"""
import os, sys, pty, tempfile, shutil, time
B = os.path.abspath(sys.argv[1])
def walk(cwd, args):
    """fzf --filter '' with a terminal as stdin (so that the built-in walker runs) and a pipe as stdout"""
    r, w = os.pipe()
    pid, fd = pty.fork()
    if pid == 0:
        os.chdir(cwd); os.dup2(w, 1); os.close(r)
        env = dict(os.environ); env.pop('FZF_DEFAULT_COMMAND', None); env.pop('FZF_DEFAULT_OPTS', None)
        os.execve(B, [B] + args + ['-f', ''], env)
    os.close(w)
    out = b''
    while True:
        c = os.read(r, 65536)
        if not c: break
        out += c
    os.waitpid(pid, 0)
    return sorted(out.decode().split())
d = tempfile.mkdtemp(prefix='d99-', dir='/tmp')
try:
    for p in ['node_modules/m/i.js', '.cfg/sub/c', 'node_modules/node_modules/deep/x.js', '.cfg/.hidden_file', '.cfg/.inner/y']:
        os.makedirs(os.path.join(d, os.path.dirname(p)), exist_ok=True); open(os.path.join(d, p), 'w').close()
    a = walk(d, ['--walker-root', 'node_modules'])
    b = walk(d, ['--walker=file', '--walker-root', '.cfg'])
    print('--walker-root node_modules       :', a)
    print('--walker=file --walker-root .cfg :', b)
    # the root is walked; what is met below it is still subject to the rules (nested node_modules, hidden .inner)
    ok = a == ['node_modules/m/i.js'] and b == ['.cfg/.hidden_file', '.cfg/sub/c']
finally:
    shutil.rmtree(d, ignore_errors=True)
print('PASS' if ok else 'FAIL'); sys.exit(0 if ok else 1)
