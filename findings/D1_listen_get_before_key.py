#!/usr/bin/env python3
"""D1 (C16): with FZF_API_KEY set, GET / without the key must not reveal state.
usage: D1_listen_get_before_key.py /path/to/fzf   -> exit 0 if protected, 1 if state leaked"""
import sys, os
sys.path.insert(0, os.path.dirname(__file__))
from fzfpty import Fzf
f = Fzf(sys.argv[1], [], env={'FZF_API_KEY': 'sesame'}, stdin_data=b'alpha\nbeta\n')
try:
    head, body = f.state()
    print('GET without key ->', head.split(b'\r\n')[0])
    leaked = head.startswith(b'HTTP/1.1 200')
    head2, body2 = f.state(headers={'X-API-Key': 'sesame'})
    print('GET with key    ->', head2.split(b'\r\n')[0], 'matchCount' in body2 if isinstance(body2, dict) else body2)
    ok2 = head2.startswith(b'HTTP/1.1 200')
    r = f.post('abort')
    print('POST without key->', r.split(b'\r\n')[0])
finally:
    f.close()
sys.exit(1 if leaked or not ok2 else 0)
