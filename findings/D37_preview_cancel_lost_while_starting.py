#!/usr/bin/env python3
"""Clean-tree finding for C20: a cancel request that arrives while the previewer is
still *building/starting* the previous command is lost, so a never-ending preview for
a line that is no longer focused keeps running and the preview for the focused line
never starts (until the next user action).

usage: clean_tree_repro.py /path/to/fzf-binary [N=200000]
exit status 0 = property holds, 1 = violated
"""
import os, sys, time, shutil, socket
sys.path.insert(0, os.path.dirname(os.path.abspath(__file__)))
from fzfpty import Fzf

binary = os.path.abspath(sys.argv[1])
N = int(sys.argv[2]) if len(sys.argv) > 2 else 200000
import tempfile; base = tempfile.mkdtemp(prefix='d37')
os.makedirs(base + '/tmp', exist_ok=True)
log = base + '/log'; open(log, 'w').close()
MARK = '302.%d' % (os.getpid() % 100000)
with open(base + '/in', 'wb') as f:
    for i in range(N): f.write(b'%07d %s\n' % (i, b'y' * 80))

# {f} is cheap and is written first: its temp file tells us that the previewer has taken
# the request out of the mailbox.  The {+f}s (whole selection, N lines each) make the
# command-building phase long enough to aim at; without them the window is the ~1 ms of fork/exec.
pv = ': {f} {+f} {+f} {+f} {+f} {+f} {+f}; echo {n} >> %s; exec sleep %s' % (log, MARK)
fz = Fzf(binary, ['--multi', '--preview', pv],
         env={'SHELL': '/bin/bash' if os.path.exists('/bin/bash') else '/bin/sh',
              'TMPDIR': base + '/tmp', 'FZF_DEFAULT_COMMAND': 'cat %s/in' % base})
rc = 0
try:
    time.sleep(2)
    fz.post('select-all'); time.sleep(4)
    before = set(os.listdir(base + '/tmp'))
    t0 = time.time()
    fz.post('up')                                  # request R1 (line 1); R0 is cancelled (500 ms grace)
    while not (set(os.listdir(base + '/tmp')) - before) and time.time() - t0 < 5:
        pass                                       # wait until the previewer starts building R1's command
    s = socket.create_connection(('127.0.0.1', fz.port))
    s.sendall(b'POST / HTTP/1.1\r\nContent-Length: 2\r\n\r\nup')   # request R2 (line 2) + cancel of R1
    print('second key sent %.0f ms after the first' % ((time.time() - t0) * 1000))
    time.sleep(6)                                  # quiescent
    _, st = fz.state()
    ran = open(log).read().split()
    cur = st['current']['index']
    print('preview invocations ({n}):', ran, '  cursor is on index', cur)
    os.system("ps -eo pid,etimes,args | grep 'sleep %s' | grep -v grep" % MARK)
    if ran[-1] != str(cur):
        print('FAIL: the last preview command that ran is for line %s, the cursor is on line %d' % (ran[-1], cur))
        rc = 1
    else:
        print('PASS')
    fz.post('abort'); fz.wait_exit(5)
finally:
    fz.close()
    os.system("pkill -f 'sleep %s'" % MARK)
    shutil.rmtree(base, ignore_errors=True)
sys.exit(rc)
