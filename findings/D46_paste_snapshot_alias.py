#!/usr/bin/env python3
"""finding2_paste_alias.py FZF_BINARY
Clean-tree finding: actBracketedPasteBegin keeps `current := []rune(t.input)`,
which is NOT a copy ([]rune of a []rune is a no-op conversion). An in-place
edit during the paste (backward-delete-char = ^H in the pasted bytes) rewrites
the snapshot too, so at paste end "query changed?" can be answered wrongly and
the list keeps showing the matches of the old query."""
import sys, os
sys.path.insert(0, os.path.dirname(os.path.abspath(__file__)))
from h import start, st
binary = sys.argv[1]
f = start(binary, [], ['ab', 'bb', 'zz'])
f.post('change-query(ab)+beginning-of-line+forward-char')      # a|b
s = st(f); print('before paste      :', repr(s['query']), [m['text'] for m in s['matches']])
os.write(f.fd, b'\x1b[200~\x08b\x1b[201~')                      # paste of "^Hb"
s = st(f, 0.5); q1, m1 = s['query'], [m['text'] for m in s['matches']]
print('after paste of ^Hb:', repr(q1), m1)
f.post('change-query(ab)+beginning-of-line+forward-char'); st(f)
os.write(f.fd, b'\x08b')                                        # the same two keys typed
s = st(f, 0.5); q2, m2 = s['query'], [m['text'] for m in s['matches']]
print('same keys typed   :', repr(q2), m2)
f.close()
bad = (q1 == q2 == 'bb') and m1 != m2
print('WRONG: query is %r but the list still shows the matches of the old query' % q1 if bad else 'ok')
sys.exit(1 if bad else 0)
