#!/bin/sh
# D85 (C15): --layout reverse-list: change-header to another number of lines moves the rows of the list, but
# the memo of what is on each row was kept: with --header-first the separator of the old info line stayed
# behind an item. usage: D85_change_header_stale_rows.sh <fzf binary>  (needs tmux)
S=d85_$$
tmux -L $S new-session -d -x 40 -y 14 "seq -f 'item%02g' 0 29 | $1 --no-sort --layout=reverse-list --header-first --header 'X
Y
Z' --bind 'space:change-header()' --no-unicode --no-scrollbar"
sleep 0.8
tmux -L $S send-keys ' '
sleep 0.6
scr=$(tmux -L $S capture-pane -p)
tmux -L $S kill-server
echo "$scr"
if echo "$scr" | grep -q "item[0-9]* *--"; then echo FAIL; exit 1; fi
echo PASS
