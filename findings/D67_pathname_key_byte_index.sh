#!/bin/sh
# D67 (C05/C04): the pathname tiebreak located the last separator as a BYTE index and compared it with match
# offsets in CHARACTERS: a path with an accented directory name lost its "match is in the file name" rank.
# usage: D67_pathname_key_byte_index.sh <fzf binary>
a=$(printf 'foo/x.txt\nee/foo-long-name.txt\n' | "$1" --scheme=path -f foo | head -1)
b=$(printf 'foo/x.txt\néé/foo-long-name.txt\n' | "$1" --scheme=path -f foo | head -1)
echo "plain    directory: first is '$a'"
echo "accented directory: first is '$b'"
[ "$a" = "ee/foo-long-name.txt" ] && [ "$b" = "éé/foo-long-name.txt" ] && { echo PASS; exit 0; }
echo FAIL; exit 1
