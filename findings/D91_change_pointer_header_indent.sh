#!/bin/sh
# D91 (C15): the header lines shown in the list window are indented by the width of pointer + marker.
# change-pointer to a pointer of another width redrew the list rows but not the header: the header kept the old
# indentation. usage: D91_change_pointer_header_indent.sh <fzf binary>  (needs tmux)
S=d91_$$
run() { # $1 = pointer option, $2 = key
  tmux -L $S new-session -d -x 40 -y 10 "seq 1 5 | $BIN --no-sort --no-unicode --no-scrollbar --header 'H1
H2' --pointer '$1' --bind 'space:change-pointer(>)'"
  sleep 0.8
  [ -n "$2" ] && { tmux -L $S send-keys "$2"; sleep 0.6; }
  tmux -L $S capture-pane -p | grep "H[12]"
  tmux -L $S kill-server; sleep 0.4
}
BIN=$1
a=$(run ">>" " ")
b=$(run ">" "")
echo "after change-pointer(>) :"; echo "$a"
echo "fresh with --pointer '>' :"; echo "$b"
[ "$a" = "$b" ] || { echo FAIL; exit 1; }
echo PASS
