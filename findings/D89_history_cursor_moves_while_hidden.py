#!/usr/bin/env python3
"""D89 (C09): with the input hidden the query is put back after every action, but previous-history /
next-history had already moved the history cursor: after hide-input, previous-history twice, show-input, the
next previous-history showed the third most recent entry instead of the most recent one.
usage: D89_history_cursor_moves_while_hidden.py <fzf binary>"""
import os, sys, time, tempfile
sys.path.insert(0, os.path.dirname(os.path.abspath(__file__)))
from fzfpty import Fzf
h = tempfile.mktemp(prefix='d89')
open(h, 'w').write('a\nb\nc\n')
f = Fzf(sys.argv[1], ['--history', h], stdin_data=b'a\nb\nc\nd\n', port=24762)
ok = False
try:
    time.sleep(0.5)
    f.post('hide-input'); time.sleep(0.2)
    f.post('previous-history'); time.sleep(0.2); f.post('previous-history'); time.sleep(0.2)
    q1 = f.state()[1]['query']
    f.post('show-input'); time.sleep(0.2)
    f.post('previous-history'); time.sleep(0.3)
    q2 = f.state()[1]['query']
    print('hidden, previous-history x2 -> query %r ; show-input, previous-history -> query %r (history file: a, b, c)' % (q1, q2))
    ok = q1 == '' and q2 == 'c'
finally:
    f.close()
    if os.path.exists(h): os.remove(h)
print('PASS' if ok else 'FAIL'); sys.exit(0 if ok else 1)
