#!/bin/sh
# D59: a single-character fuzzy term was scored at its FIRST boundary occurrence when scanning forward.
# usage: D59_single_char_first_boundary.sh <fzf binary>
# 'b' in "a-b b": occurrence after '-' scores 16+2*8 = 32, occurrence after the blank 16+2*10 = 36 (default scheme).
# "xa/b" scores 16+2*9 = 34, so "a-b b" has to rank first, as it does with --tiebreak=end (backward scan).
out=$(printf 'a-b b\nxa/b\n' | "$1" --scheme=default --filter b | tr '\n' '|')
echo "forward : $out"
out2=$(printf 'a-b b\nxa/b\n' | "$1" --scheme=default --filter b --tiebreak=end | tr '\n' '|')
echo "backward: $out2"
[ "$out" = "a-b b|xa/b|" ] && [ "$out2" = "a-b b|xa/b|" ] && { echo PASS; exit 0; }
echo FAIL; exit 1
