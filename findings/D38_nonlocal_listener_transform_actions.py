#!/usr/bin/env python3
"""D38 (C16): exit 0 iff no action posted to a non-local listener without --listen-unsafe executed its command.
Clean-tree probe: a NON-local listener (0.0.0.0, API key set, no --listen-unsafe) is supposed to
drop every command-executing action. usage: clean_tree_probe.py /path/to/fzf-binary"""
import sys, os, time, tempfile
sys.path.insert(0, os.path.dirname(os.path.abspath(__file__)))
from fzfpty import Fzf
binary = sys.argv[1]
d = tempfile.mkdtemp(prefix='d38probe_')
port = 21000 + os.getpid() % 9000
f = Fzf(binary, ['--listen', '0.0.0.0:%d' % port], env={'FZF_API_KEY': 'sekret'},
        stdin_data=b'a\nb\nc\n', port=port)
key = {'X-API-Key': 'sekret'}
bad = 0
try:
    time.sleep(0.3)
    for name in ['execute-silent', 'execute', 'transform', 'transform-query', 'transform-prompt', 'transform-header',
                 'transform-border-label', 'transform-preview-label', 'reload', 'preview', 'become',
                 'transform-list-label', 'transform-input-label', 'transform-header-label',
                 'transform-nth', 'transform-pointer', 'transform-ghost', 'transform-search']:
        w = os.path.join(d, name)
        r = f.post('%s(touch %s)' % (name, w), headers=key).split(b'\r\n')[0]
        time.sleep(0.4)
        print('%-26s answer=%r  command executed=%s' % (name, r, os.path.exists(w))); bad += os.path.exists(w)
        if f.wait_exit(0.05) is not None:
            print('fzf exited'); break
finally:
    f.close()
    for n in os.listdir(d): os.unlink(os.path.join(d, n))
    os.rmdir(d)
sys.exit(1 if bad else 0)
