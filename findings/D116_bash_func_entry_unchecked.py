#!/usr/bin/env python3
"""D116 (C12): --tmux pasted BASH_FUNC_name%%=value environment entries into the popup script as name + value
without checking that name is an identifier or that value is a function body: an entry named
`BASH_FUNC_x;touch INJECTED_BY_NAME;y%%` or one with the value `;touch INJECTED_BY_VALUE` was executed by the script,
although bash itself ignores such entries. A well-formed function entry is still passed on.
usage: D116_bash_func_entry_unchecked.py <fzf binary>   (uses the stand-in tmux in D74_shim/)"""
import os, subprocess, sys, tempfile, shutil
D = os.path.dirname(os.path.abspath(__file__))
B = os.path.abspath(sys.argv[1])
ok = True
for extra, expect_files in [({'BASH_FUNC_good%%': '() {  echo hi\n}'}, []),
                            ({'BASH_FUNC_x;touch INJECTED_BY_NAME;y%%': '() {  :\n}'}, []),
                            ({'BASH_FUNC_z%%': ';touch INJECTED_BY_VALUE'}, [])]:
    work = tempfile.mkdtemp(prefix='d116-', dir='/tmp')
    try:
        env = {'PATH': D + '/D74_shim:' + os.environ['PATH'], 'TMUX': 'fake,1,0', 'TMUX_PANE': '%0', 'HOME': '/root', 'TERM': 'xterm'}
        env.update(extra)
        p = subprocess.run([B, '--tmux', '-1', '-q', 'onl', '--print-query'], input=b'only\n', capture_output=True, timeout=30, env=env, cwd=work)
        files = sorted(os.listdir(work))
        print('%r -> exit %d stdout %r files created: %r' % (list(extra)[0], p.returncode, p.stdout, files))
        if files != expect_files or p.returncode != 0 or p.stdout != b'onl\nonly\n':
            ok = False
    finally:
        shutil.rmtree(work, ignore_errors=True)
print('PASS' if ok else 'FAIL'); sys.exit(0 if ok else 1)
