#!/usr/bin/env python3
"""D96 (C20): `close` (and `change-preview()` with an empty command) took the preview window away without
cancelling the running preview command; with the window gone cursor movements send no cancellations either, so
the command of a line no longer focused stayed alive. hide-preview cancels it.
usage: D96_close_leaves_preview_command.py <fzf binary>"""
import os, sys, time, subprocess
sys.path.insert(0, os.path.dirname(os.path.abspath(__file__)))
from fzfpty import Fzf
def alive(tag):
    p = subprocess.run(['pgrep', '-f', '^sleep ' + tag], capture_output=True, timeout=10)
    return [x for x in p.stdout.decode().split() if x]
def run(action, tag, port):
    f = Fzf(sys.argv[1], ['--preview', 'echo out-{}; exec sleep ' + tag, '--bind', 'esc:close'], stdin_data=b'a\nb\nc\n', port=port)
    try:
        time.sleep(1.0)
        before = alive(tag)
        f.post(action); time.sleep(0.3); f.post('down'); time.sleep(1.5)
        after = alive(tag)
        return before, after
    finally:
        f.close()
        for pid in alive(tag):
            try: os.kill(int(pid), 9)
            except Exception: pass
res = {}
base = '57.%04d' % (os.getpid() % 10000)
for i, (action, tag) in enumerate([('hide-preview', base + '1'), ('close', base + '2'), ('change-preview()', base + '3')]):
    b, a = run(action, tag, 24770 + i)
    print('%-17s: preview command running before: %s, 1.5 s after the window went away and the cursor moved: %s' % (action, bool(b), bool(a)))
    res[action] = bool(b) and not a
ok = all(res.values())
print('PASS' if ok else 'FAIL'); sys.exit(0 if ok else 1)
