#!/usr/bin/env python3
"""D101 (C08): toggle-search assigned `changed = !t.paused` instead of accumulating into the flag: in the action
list exclude+toggle-search (search being switched off) the search request of `exclude` was dropped, so the excluded
line stayed in the list for good.  usage: D101_toggle_search_drops_request.py <fzf binary>"""
import os, sys, time
sys.path.insert(0, os.path.dirname(os.path.abspath(__file__)))
from fzfpty import Fzf
f = Fzf(sys.argv[1], [], stdin_data=b'a\nb\nc\n', port=24783)
ok = False
try:
    time.sleep(0.5)
    f.post('exclude+toggle-search'); time.sleep(0.6)
    st = f.state()[1]
    lines = sorted(m['text'] for m in st['matches'])
    print('after exclude+toggle-search: %d of %d lines shown: %s' % (st['matchCount'], st['totalCount'], lines))
    ok = len(lines) == 2
finally:
    f.close()
print('PASS' if ok else 'FAIL'); sys.exit(0 if ok else 1)
