import sys, os, random, time
sys.path.insert(0, ''+os.path.dirname(os.path.abspath(__file__))+'')
from fzfpty import Fzf

def start_unsized(binary, args, lines, env=None):
    data = ('\n'.join(lines) + '\n').encode() if lines is not None else None
    for _ in range(5):
        port = random.randint(30000, 60000)
        try:
            f = Fzf(binary, args, stdin_data=data, port=port, env=env)
            f.state()
            return f
        except Exception as e:
            try: f.close()
            except Exception: pass
            time.sleep(0.2)
    raise RuntimeError('cannot start fzf')

def st(f, wait=0.15):
    time.sleep(wait)
    h, s = f.state()
    return s

def brief(s):
    return dict(q=s['query'], pos=s['position'], cur=(s['current'] or {}).get('text'),
                sel=[x['text'] for x in s['selected']], n=s['matchCount'])

import pty, fcntl, termios, struct
class FzfSized(Fzf):
    """Same as Fzf but the pty gets a window size before exec, and ESC[6n is answered."""
    def __init__(self, binary, args, rows=24, cols=80, stdin_data=None, port=None, env=None):
        self.port = port or random.randint(30000, 60000)
        e = dict(os.environ)
        e.pop('FZF_DEFAULT_OPTS', None); e.pop('FZF_DEFAULT_COMMAND', None)
        e['TERM'] = 'xterm'
        if env: e.update(env)
        rfd = None
        if stdin_data is not None:
            rfd, wfd = os.pipe()
            os.write(wfd, stdin_data); os.close(wfd)
        self.pid, self.fd = pty.fork()
        if self.pid == 0:
            fcntl.ioctl(1, termios.TIOCSWINSZ, struct.pack('HHHH', rows, cols, 0, 0))
            if rfd is not None:
                os.dup2(rfd, 0)
            os.execve(binary, ['fzf', '--listen', str(self.port)] + args, e)
        self.out = b''
        answered = 0
        end = time.time() + 1.0
        while time.time() < end:
            self.drain(0.1)
            n = self.out.count(b'\x1b[6n')
            while answered < n:
                os.write(self.fd, b'\x1b[1;1R'); answered += 1

def start_sized(binary, args, lines, rows=24, cols=80, env=None):
    data = ('\n'.join(lines) + '\n').encode() if lines is not None else None
    f = FzfSized(binary, args, rows, cols, stdin_data=data, env=env)
    f.state()
    return f


def start(binary, args, lines, env=None, rows=24, cols=80):
    """Default: a 24x80 pty (the plain fzfpty.Fzf pty is 0x0, i.e. no list lines at all)."""
    last = None
    for _ in range(5):
        try:
            return start_sized(binary, args, lines, rows=rows, cols=cols, env=env)
        except Exception as e:
            last = e; time.sleep(0.2)
    raise last
