#!/usr/bin/env python3
"""D88 (C09): a --query longer than maxPatternLength (1000 runes) was kept whole by NewTerminal and cut by the
event loop after the first action of any kind: `up`, a pure cursor motion, changed the query (1200 -> 1000
runes) and with it the result list.  usage: D88_long_query_cut_by_first_action.py <fzf binary>"""
import os, sys, time
sys.path.insert(0, os.path.dirname(os.path.abspath(__file__)))
from fzfpty import Fzf
long_line = 'x' * 1200
short_line = 'x' * 1000 + 'y'
f = Fzf(sys.argv[1], ['--exact', '--query', long_line], stdin_data=(long_line + '\n' + short_line + '\n').encode(), port=24761)
ok = False
try:
    time.sleep(0.6)
    a = f.state()[1]
    f.post('up'); time.sleep(0.4)
    b = f.state()[1]
    print('at start : len(query)=%d matches=%d' % (len(a['query']), a['matchCount']))
    print('after up : len(query)=%d matches=%d' % (len(b['query']), b['matchCount']))
    ok = a['query'] == b['query'] and a['matchCount'] == b['matchCount']
finally:
    f.close()
print('PASS' if ok else 'FAIL'); sys.exit(0 if ok else 1)
