#!/bin/sh
# D71 (C15): --layout reverse-list: hiding the header left header text inside list rows (the memo of what is on
# each row was kept although the rows of the list had moved). usage: D71_reverse_list_toggle_header.sh <fzf binary>   (needs tmux)
S=d71_$$
tmux -L $S new-session -d -x 40 -y 9 "seq 0 19 | sed s/^/item/ | $1 --layout reverse-list --header 'HEAD one
HEAD two' --bind space:toggle-header --no-unicode --no-scrollbar"
sleep 0.8
tmux -L $S send-keys ' '
sleep 0.6
scr=$(tmux -L $S capture-pane -p)
tmux -L $S kill-server
echo "$scr"
if echo "$scr" | grep -q "item[0-9]*one\|item[0-9]*two\|HEAD"; then echo FAIL; exit 1; fi
echo PASS
