#!/usr/bin/env python3
"""D26 (C09): a navigation action on an EMPTY result list must not leave the cursor at -1.
usage: D26_cursor_minus_one_on_empty_list.py /path/to/fzf   -> exit 0 iff the cursor designates a line again
after the list has re-filled (window without room for item lines so that the renderer does not repair it)."""
import sys, time, os
sys.path.insert(0, os.path.dirname(os.path.abspath(__file__)))
from ptyh import Fzf
f = Fzf(sys.argv[1], ['--height', '4', '--header-lines', '2'], stdin_data=b''.join(b'%d\n' % i for i in range(1, 11)))
ok = False
try:
    s = f.state()[1]; print('start:', s['position'], s['current'], s['matchCount'])
    f.post('change-query(zzz)'); time.sleep(0.3)
    f.post('up')
    s = f.state()[1]; print('after up on empty:', s['position'], s['current'], s['matchCount'])
    f.post('clear-query'); time.sleep(0.5)
    s = f.state()[1]; print('after clear-query:', s['position'], s['current'], s['matchCount'])
    ok = s['position'] >= 0 and s['current'] is not None
finally:
    f.close()
sys.exit(0 if ok else 1)
