#!/usr/bin/env python3
"""D119 (C19): a --walker-skip entry written with a trailing separator (what shell completion produces for a
directory) could never match: the walker compares the entries with paths that have no trailing separator.
`--walker-skip=skipme/` skipped nothing.  usage: D119_skip_entry_with_trailing_separator.py <fzf binary>"""
import os, sys, pty, tempfile, shutil
B = os.path.abspath(sys.argv[1])
def walk(cwd, args):
    r, w = os.pipe()
    pid, fd = pty.fork()
    if pid == 0:
        os.chdir(cwd); os.dup2(w, 1); os.close(r)
        env = dict(os.environ); env.pop('FZF_DEFAULT_COMMAND', None); env.pop('FZF_DEFAULT_OPTS', None)
        os.execve(B, [B] + args + ['-f', ''], env)
    os.close(w)
    out = b''
    while True:
        c = os.read(r, 65536)
        if not c: break
        out += c
    os.waitpid(pid, 0)
    return sorted(out.decode().split())
d = tempfile.mkdtemp(prefix='d119-', dir='/tmp')
try:
    for p in ['keep/a.txt', 'skipme/b.txt', 'sub/skipme/c.txt', 'sub/deep/dir/d.txt']:
        os.makedirs(os.path.join(d, os.path.dirname(p)), exist_ok=True); open(os.path.join(d, p), 'w').close()
    a = walk(d, ['--walker-skip=skipme'])
    b = walk(d, ['--walker-skip=skipme/'])
    c = walk(d, ['--walker-skip=deep/dir/'])
    print('--walker-skip=skipme    :', a)
    print('--walker-skip=skipme/   :', b)
    print('--walker-skip=deep/dir/ :', c)
    ok = a == b == ['keep/a.txt', 'sub/deep/dir/d.txt'] and c == ['keep/a.txt', 'skipme/b.txt', 'sub/skipme/c.txt']
finally:
    shutil.rmtree(d, ignore_errors=True)
print('PASS' if ok else 'FAIL'); sys.exit(0 if ok else 1)
