#!/bin/sh
# D27 (C17): an invalid token of --border-label-pos must be rejected (exit 2) also when a valid integer follows.
f="$1"
echo | "$f" --border-label-pos=foo:3 -f x; rc=$?
echo "rc=$rc"
[ $rc = 2 ]
