#!/usr/bin/env python3
"""D39 (C09): with --tail and an active query, a --tail trim must only deselect the items that were trimmed.
usage: D39_tail_query_drops_selection.py /path/to/fzf  -> exit 0 iff the selected item that is still listed keeps its selection"""
import sys, os, time, tempfile
sys.path.insert(0, os.path.dirname(os.path.abspath(__file__)))
from fzfpty import Fzf
d = tempfile.mkdtemp(prefix='d39'); fifo = os.path.join(d, 'in'); os.mkfifo(fifo)
f = Fzf(sys.argv[1], ['--multi', '--no-sort', '--tail', '300', '--query', 'x', '--bind', 'space:toggle'],
        env={'FZF_DEFAULT_COMMAND': 'cat %s' % fifo})
ok = False
try:
    w = open(fifo, 'w')
    def feed(a, b):
        for i in range(a, b):
            w.write(('x%d\n' if i % 50 == 49 else 'i%d\n') % i)
        w.flush()
    feed(0, 300); time.sleep(1.0)
    s = f.state()[1]; print('matches', [m['text'] for m in s['matches']])
    f.post('pos(6)+toggle'); f.post('pos(1)+toggle'); time.sleep(0.3)
    s = f.state()[1]; print('selected', [m['text'] for m in s['selected']])
    feed(300, 420); time.sleep(1.5)
    s = f.state()[1]
    print('total', s['totalCount'], 'matches', [m['text'] for m in s['matches']])
    sel = [m['text'] for m in s['selected']]
    print('selected afterwards', sel)
    ok = 'x299' in sel and 'x49' not in sel
    w.close()
finally:
    f.close(); os.remove(fifo); os.rmdir(d)
sys.exit(0 if ok else 1)
