#!/usr/bin/env python3
"""clean-tree finding 1: a client that asks for a big GET answer and does not read it wedges the
--listen endpoint for good (the answer is written with no write deadline, and the accept loop is serial).
usage: finding1.py /path/to/fzf-binary"""
import sys, time, socket, os
sys.path.insert(0, os.path.dirname(os.path.abspath(__file__)))
from fzfpty import Fzf
binary = sys.argv[1]
f = Fzf(binary, [], env={'FZF_DEFAULT_COMMAND': "seq -f 'line-%07.0f-xxxxxxxxxxxxxxxxxxxxxxxxxxxxxxxxxxxxxxxx' 1 300000"})
try:
    time.sleep(1.5)
    print('baseline GET:', f.state()[0][:15])
    # the stalling client: small receive buffer, asks for everything, never reads
    s = socket.socket(); s.setsockopt(socket.SOL_SOCKET, socket.SO_RCVBUF, 4096)
    s.connect(('127.0.0.1', f.port))
    s.sendall(b'GET /?limit=300000 HTTP/1.1\r\n\r\n')
    wait = float(sys.argv[2]) if len(sys.argv) > 2 else 15
    time.sleep(wait)     # longer than httpReadTimeout (10s) and channelTimeout (2s)
    t0 = time.time()
    c = socket.create_connection(('127.0.0.1', f.port), timeout=5)
    c.sendall(b'POST / HTTP/1.1\r\nContent-Length: 2\r\n\r\nup')
    try:
        r = c.recv(100)
    except socket.timeout:
        r = b'<no answer within 5s>'
    print('second client, %.0fs after the stalled one: %r (waited %.1fs)' % (wait, r[:30], time.time() - t0))
    print('fzf alive:', f.wait_exit(0.2) is None)
    s.close()
    time.sleep(0.5)
    c2 = socket.create_connection(('127.0.0.1', f.port), timeout=5)
    c2.sendall(b'GET /?limit=1 HTTP/1.1\r\n\r\n')
    try: print('after the stalled client went away:', c2.recv(100)[:15])
    except socket.timeout: print('still no answer')
finally:
    f.close()
