#!/usr/bin/env python3
"""D8 (C17/C18): --history-size given in $FZF_DEFAULT_OPTS and --history FILE on the command line:
the cap must be honoured. A 5-entry file with size 3 must hold 3 entries after one submitted query.
usage: D8_... /path/to/fzf -> exit 0 iff the file was capped to 3"""
import sys, os, time, tempfile
sys.path.insert(0, os.path.dirname(__file__))
from fzfpty import Fzf
d = tempfile.mkdtemp(prefix='d8-')
hist = os.path.join(d, 'hist')
open(hist, 'w').write('q1\nq2\nq3\nq4\nq5\n')
f = Fzf(sys.argv[1], ['--history', hist], env={'FZF_DEFAULT_OPTS': '--history-size=3'}, stdin_data=b'one\ntwo\n')
try:
    time.sleep(0.5)
    f.post('change-query(new)+accept'); f.wait_exit(3)
finally:
    f.close()
lines = [l for l in open(hist).read().split('\n') if l]
print('history after session:', lines)
sys.exit(0 if lines == ['q4', 'q5', 'new'] else 1)
