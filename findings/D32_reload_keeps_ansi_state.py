#!/usr/bin/env python3
"""D32 (C11): reload starts a new input; a colour left open by the last line of the old input must not colour
the first line of the reloaded input.  usage: D32_reload_keeps_ansi_state.py /path/to/fzf"""
import sys, os, time, fcntl, termios, struct, signal
sys.path.insert(0, os.path.dirname(os.path.abspath(__file__)))
from fzfpty import Fzf
f = Fzf(sys.argv[1], ['--ansi'], env={'FZF_DEFAULT_COMMAND': "printf 'a\\n\\033[31mred\\n'"})
try:
    fcntl.ioctl(f.fd, termios.TIOCSWINSZ, struct.pack('HHHH', 24, 80, 0, 0)); os.kill(f.pid, signal.SIGWINCH)
    time.sleep(0.5)
    f.drain(0.3)
    f.out = b''
    f.post("reload(printf 'plain1\\nplain2\\n')")
    f.drain(0.8)
    out = f.out
finally:
    f.close()
i = out.rfind(b'plain1')
seg = out[max(0, i - 40):i]
print(repr(seg))
j = seg.rfind(b'\x1b[')
sgr = seg[j:seg.find(b'm', j) + 1] if j >= 0 else b''
bad = i < 0 or b'31' in sgr
print('first line of the reloaded input is drawn in red:', bad)
sys.exit(1 if bad else 0)
