#!/usr/bin/env python3
"""D97 (C18/C09): doActions stopped the action list at a terminating action but still re-dispatched the actions
bound to `focus` when an earlier action of the same binding had moved the cursor: with
--bind 'enter:up+accept' --bind 'focus:change-query(FOCUS)' (the focus binding is switched on after the start) the history file got FOCUS instead of the query
that was typed.  usage: D97_focus_actions_after_accept.py <fzf binary>"""
import os, sys, time, tempfile
sys.path.insert(0, os.path.dirname(os.path.abspath(__file__)))
from fzfpty import Fzf
h = tempfile.mktemp(prefix='d97')
open(h, 'w').write('one\n')
f = Fzf(sys.argv[1], ['--history', h, '--query', 'a', '--bind', 'enter:up+accept', '--bind', 'focus:change-query(FOCUS)', '--bind', 'start:unbind(focus)'], stdin_data=b'a1\na2\na3\n', port=24781)
ok = False
try:
    time.sleep(0.5)
    f.post('rebind(focus)'); time.sleep(0.2)
    print('query before Enter: %r' % f.state()[1]['query'])
    os.write(f.fd, b'\r')
    f.wait_exit(5)
    content = open(h).read()
    print('history file after accepting with the query "a": %r' % content)
    ok = content == 'one\na\n'
finally:
    f.close()
    if os.path.exists(h): os.remove(h)
print('PASS' if ok else 'FAIL'); sys.exit(0 if ok else 1)
