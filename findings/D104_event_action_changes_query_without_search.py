#!/usr/bin/env python3
"""D104 (C08): Terminal.Loop compared the input with its value at the start of the iteration only once, in the
middle of the key branch; a query changed by an action bound to the backward-eof, jump or jump-cancel event was
shown in the prompt but no search was started: the list stayed that of the old query.
usage: D104_event_action_changes_query_without_search.py <fzf binary>"""
import os, sys, time, struct, fcntl, termios
sys.path.insert(0, os.path.dirname(os.path.abspath(__file__)))
from fzfpty import Fzf
items = ''.join('line%03d\n' % i for i in range(30)) + 'foo1\nfoo2\n'
res = []
# backward-eof: backspace on the empty query
f = Fzf(sys.argv[1], ['--bind', 'backward-eof:change-query(foo)'], stdin_data=items.encode(), port=24802)
try:
    time.sleep(0.4); os.write(f.fd, b'\x7f'); time.sleep(0.6)
    st = f.state()[1]
    print("backward-eof:change-query(foo): query=%r, %d lines shown (2 match)" % (st['query'], st['matchCount']))
    res.append(st['query'] == 'foo' and st['matchCount'] == 2)
finally:
    f.close()
# jump: a label key
f = Fzf(sys.argv[1], ['--bind', 'jump:change-query(foo)'], stdin_data=items.encode(), port=24803)
try:
    fcntl.ioctl(f.fd, termios.TIOCSWINSZ, struct.pack('HHHH', 20, 60, 0, 0)); os.kill(f.pid, 28)  # a window, so that labels exist
    time.sleep(0.5); f.post('jump'); time.sleep(0.3); os.write(f.fd, b'a'); time.sleep(0.6)
    st = f.state()[1]
    print("jump:change-query(foo)        : query=%r, %d lines shown (2 match)" % (st['query'], st['matchCount']))
    res.append(st['query'] == 'foo' and st['matchCount'] == 2)
finally:
    f.close()
ok = all(res)
print('PASS' if ok else 'FAIL'); sys.exit(0 if ok else 1)
