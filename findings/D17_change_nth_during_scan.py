#!/usr/bin/env python3
"""D17 (C08/C10): change-nth (likewise exclude) issued while a scan is still running. The coordinator clears the
chunk cache, but workers of the superseded scan keep adding results computed under the OLD field selection; the
new search with the same query text is then answered from those entries and the wrong list stays.
usage: D17_change_nth_during_scan.py /path/to/fzf [N]   -> exit 0 iff every run converges to the right count.
Before fix 0f29b4e: 7 of 8 runs stale (e.g. 233995 matches instead of 233766) with 3,000,000 lines."""
import sys, time, os, tempfile, shutil
sys.path.insert(0, os.path.dirname(os.path.abspath(__file__)))
from fzfpty import Fzf
N = int(sys.argv[2]) if len(sys.argv) > 2 else 3000000
d = tempfile.mkdtemp(prefix='d17-')
exp2 = 0
with open(d + '/in.txt', 'w') as fh:
    for i in range(N):
        if i % 7 == 0: fh.write('xyz qqq\n')
        elif i % 11 == 0: fh.write('qqq xyz\n'); exp2 += 1
        else: fh.write('qqq qqq\n')
print('expected matches under nth=2:', exp2)
bad = 0
try:
    for delay in [0.0, 0.01, 0.02, 0.04, 0.06, 0.1, 0.15, 0.2]:
        f = Fzf(sys.argv[1], ['--nth', '1'], env={'FZF_DEFAULT_COMMAND': 'cat %s/in.txt' % d})
        for _ in range(150):
            _, st = f.state()
            if st['totalCount'] == N and not st['reading']: break
            time.sleep(0.2)
        f.post('change-query(xyz)')
        time.sleep(delay)
        f.post('change-nth(2)')
        time.sleep(3)
        _, st = f.state()
        ok = st['matchCount'] == exp2
        bad += not ok
        print('delay %.3f: matchCount=%d %s' % (delay, st['matchCount'], 'OK' if ok else 'STALE'))
        f.close()
finally:
    shutil.rmtree(d, ignore_errors=True)
sys.exit(1 if bad else 0)
