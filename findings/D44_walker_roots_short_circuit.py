#!/usr/bin/env python3
"""D44 (C19): a root that cannot be walked must not cancel the roots listed after it.
usage: D44_walker_roots_short_circuit.py /path/to/fzf"""
import os, pty, subprocess, sys, tempfile, shutil
def walk(binary, args, cwd):
    m, s = pty.openpty()
    env = dict(os.environ)
    for k in ('FZF_DEFAULT_OPTS', 'FZF_DEFAULT_OPTS_FILE', 'FZF_DEFAULT_COMMAND', 'MSYSTEM'):
        env.pop(k, None)
    try:
        p = subprocess.run([binary] + args + ['--print0', '-f', ''], stdin=s, cwd=cwd, env=env, stdout=subprocess.PIPE, stderr=subprocess.PIPE, timeout=60)
    finally:
        os.close(m); os.close(s)
    return sorted(x for x in p.stdout.decode().split('\0') if x)
d = tempfile.mkdtemp(prefix='d44')
try:
    os.makedirs(os.path.join(d, 'b')); open(os.path.join(d, 'b', 'g1'), 'w').close()
    got = walk(sys.argv[1], ['--walker=file', '--walker-root=nonexistent', 'b'], d)
    print(got)
    ok = got == ['b/g1']
finally:
    shutil.rmtree(d)
sys.exit(0 if ok else 1)
