#!/bin/sh
# D19 (C01/C02): a case-insensitive fuzzy term must match title-case letters / Roman numerals under the
# default algorithm exactly as under --algo=v1 and as the exact term does.
# usage: D19_v2_titlecase_fold.sh /path/to/fzf  -> exit 0 iff v2 agrees with v1
f="$1"
a=$(printf 'ǅungla\nǆungla\nǄUNGLA\nchapter Ⅷ\n' | "$f" -f 'ǆ' | wc -l)
b=$(printf 'ǅungla\nǆungla\nǄUNGLA\nchapter Ⅷ\n' | "$f" --algo=v1 -f 'ǆ' | wc -l)
c=$(printf 'chapter Ⅷ\n' | "$f" -f 'ⅷ' | wc -l)
echo "v2=$a v1=$b roman=$c"
[ "$a" = "$b" ] && [ "$c" = 1 ]
