#!/usr/bin/env python3
"""D107 (C14): the light renderer dropped C0 controls from the text it writes but let the C1 controls
U+0080..U+009F through; xterm-like terminals execute them in UTF-8 mode (U+009B = CSI, U+009D = OSC), so an input
line could leave the alternate screen (U+009B ?1049l) or set the window title under fzf.
usage: D107_c1_controls_reach_terminal.py <fzf binary>"""
import os, sys, time, pty, select, struct, fcntl, termios
B = sys.argv[1]
lines = 'plain\n\u009b?1049lCSI-LINE\n\u009d0;new title\u009cOSC-LINE\n'.encode()
r, w = os.pipe(); os.write(w, lines); os.close(w)
pid, fd = pty.fork()
if pid == 0:
    time.sleep(0.3); os.dup2(r, 0)
    env = dict(os.environ, TERM='xterm-256color'); env.pop('FZF_DEFAULT_OPTS', None)
    os.execve(B, [B, '--no-sort'], env)
os.close(r)
fcntl.ioctl(fd, termios.TIOCSWINSZ, struct.pack('HHHH', 12, 60, 0, 0))
out = b''; end = time.time() + 2.0
while time.time() < end:
    rl, _, _ = select.select([fd], [], [], 0.1)
    if rl:
        try: out += os.read(fd, 65536)
        except OSError: break
os.kill(pid, 15)
try: os.waitpid(pid, 0)
except Exception: pass
csi = '\u009b'.encode() in out
osc = '\u009d'.encode() in out
shown = b'CSI-LINE' in out and b'OSC-LINE' in out
print('lines drawn: %s ; U+009B (CSI) written to the terminal: %s ; U+009D (OSC) written: %s' % (shown, csi, osc))
ok = shown and not csi and not osc
print('PASS' if ok else 'FAIL'); sys.exit(0 if ok else 1)
