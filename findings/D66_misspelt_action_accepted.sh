#!/bin/sh
# D66 (C17): a misspelt action name followed by a real action with an argument was accepted and bound with a
# garbage argument (which `execute` would then run). usage: D66_misspelt_action_accepted.sh <fzf binary>
rc=0
for spec in 'a:execute1:reload(x)+up' 'a:pos1:execute(x)' 'a:preview.:become(x)'; do
  echo a | "$1" --bind "$spec" -f a >/dev/null 2>&1; c=$?
  echo "--bind '$spec' -> exit $c (expected 2: unknown action)"
  [ $c -eq 2 ] || rc=1
done
for spec in 'a:execute(echo x)+up' 'a:execute:echo x' 'a:execute~echo~+up' 'a:change-preview-window(up|down)'; do
  echo a | "$1" --bind "$spec" -f a >/dev/null 2>&1; c=$?
  echo "--bind '$spec' -> exit $c (expected 0)"
  [ $c -eq 0 ] || rc=1
done
[ $rc -eq 0 ] && echo PASS || echo FAIL
exit $rc
