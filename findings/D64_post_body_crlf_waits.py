#!/usr/bin/env python3
"""D64 (C16): a complete POST whose body ends in CRLF was answered only when the 10 s read deadline expired, and
every other client waited behind it. usage: D64_post_body_crlf_waits.py <fzf binary>"""
import os, socket, sys, threading, time
sys.path.insert(0, os.path.dirname(os.path.abspath(__file__)))
from fzfpty import Fzf
def raw(port, data):
    t0 = time.time()
    s = socket.create_connection(('127.0.0.1', port), timeout=15)
    s.sendall(data)
    out = b''
    while True:
        try: c = s.recv(65536)
        except socket.timeout: break
        if not c: break
        out += c
    s.close()
    return out, time.time() - t0
f = Fzf(sys.argv[1], [], stdin_data=b'a\nb\nc\n', port=24680)
try:
    time.sleep(0.5)
    res = {}
    th = threading.Thread(target=lambda: res.update(r=raw(f.port, b'POST / HTTP/1.1\r\nContent-Length: 4\r\n\r\nup\r\n')))
    th.start(); time.sleep(0.5)
    r2, dt2 = raw(f.port, b'GET / HTTP/1.1\r\n\r\n')
    th.join(); r, dt = res['r']
    print('POST with body "up\\r\\n": %s after %.2fs' % (r.split(b'\r\n')[0].decode(), dt))
    print('GET from another client 0.5 s later: %s after %.2fs' % (r2.split(b'\r\n')[0].decode(), dt2))
    ok = dt < 2 and dt2 < 2 and b'200' in r.split(b'\r\n')[0]
finally:
    f.close()
print('PASS' if ok else 'FAIL'); sys.exit(0 if ok else 1)
