#!/bin/sh
# D98 (C11): interpretCode read the arguments of SGR 58 (underline colour) and the sub-parameter of 4:N
# (underline style) as parameters of their own: in ESC[31;58;5;0m the 5 was blink and the 0 a reset, in
# ESC[31;4:0m the 0 was a reset — the red set before was lost. usage: D98_sgr_subparameters.sh <fzf binary>  (needs tmux)
S=d98_$$
tmux -L $S new-session -d -x 40 -y 8 "printf 'x\n\033[31;58;5;0mAAA\033[m \033[31;4:0mBBB\033[m\n' | $1 --ansi --no-sort --no-unicode --no-scrollbar --no-bold"
sleep 0.8
scr=$(tmux -L $S capture-pane -p -e)
tmux -L $S kill-server
row=$(printf '%s\n' "$scr" | grep "AAA" | head -1)
printf '%s\n' "$row" | cat -v
esc=$(printf '\033')
ok=1
case "$row" in *"${esc}[31mAAA"*) ;; *) echo "AAA is not red"; ok=0;; esac
case "$row" in *"${esc}[31mBBB"*) ;; *) echo "BBB is not red"; ok=0;; esac
[ $ok = 1 ] || { echo FAIL; exit 1; }
echo PASS
