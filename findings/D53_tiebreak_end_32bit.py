#!/usr/bin/env python3
"""D52/D53 (C02/C04): 32-bit int overflows.  usage: D53_tiebreak_end_32bit.py /path/to/fzf-built-with-GOARCH=386
(1) a 2.1 M character line with an 1100 character query must not crash; (2) --tiebreak=end must rank a match at the
end of a 40 000 character line before a match in the middle."""
import subprocess, sys
b = sys.argv[1]; rc = 0
p = subprocess.run([b, '-f', 'a' * 1100], input=('a' * 2100000 + '\n').encode(), stdout=subprocess.PIPE, stderr=subprocess.PIPE)
ok = p.returncode == 0 and len(p.stdout) == 2100001
print('long line x long query: rc=%d %s' % (p.returncode, 'ok' if ok else 'CRASH ' + p.stderr.decode()[:80])); rc |= 0 if ok else 1
n = 40000
E = "E" + "-" * (n - 2) + "zq" + "-"
M = "M" + "-" * (n // 2) + "zq" + "-" * (n - n // 2 - 1)
out = subprocess.run([b, "--tiebreak=end", "-e", "-f", "zq"], input=(M + "\n" + E + "\n").encode(), stdout=subprocess.PIPE).stdout.decode().splitlines()
order = [o[0] for o in out]
print('--tiebreak=end order', order, 'ok' if order == ['E', 'M'] else 'INVERTED'); rc |= 0 if order == ['E', 'M'] else 1
sys.exit(rc)
