#!/usr/bin/env python3
"""Tiny harness: run an interactive fzf under a pty with --listen and talk HTTP to it.
Used only to DEMONSTRATE findings against the real binary; no check depends on it."""
import os, pty, sys, time, socket, select, json, signal

class Fzf:
    def __init__(self, binary, args, env=None, stdin_data=None, port=None, cwd=None):
        self.port = port or (20000 + os.getpid() % 20000)
        e = dict(os.environ)
        e.pop('FZF_DEFAULT_OPTS', None); e.pop('FZF_DEFAULT_COMMAND', None)
        e['TERM'] = 'xterm'
        if env: e.update(env)
        rfd = None
        if stdin_data is not None:
            rfd, wfd = os.pipe()
            os.write(wfd, stdin_data); os.close(wfd)
        self.pid, self.fd = pty.fork()
        if self.pid == 0:
            if cwd: os.chdir(cwd)
            if rfd is not None:
                os.dup2(rfd, 0)
            os.execve(binary, ['fzf', '--listen', str(self.port)] + args, e)
        self.out = b''
        time.sleep(0.5); self.drain()
    def drain(self, t=0.2):
        end = time.time() + t
        while time.time() < end:
            r, _, _ = select.select([self.fd], [], [], 0.05)
            if r:
                try: self.out += os.read(self.fd, 65536)
                except OSError: break
    def http(self, method, body=b'', headers=None, path='/'):
        s = socket.create_connection(('127.0.0.1', self.port), timeout=5)
        h = {'Content-Length': str(len(body))} if method == 'POST' else {}
        if headers: h.update(headers)
        req = ('%s %s HTTP/1.1\r\n' % (method, path)) + ''.join('%s: %s\r\n' % kv for kv in h.items()) + '\r\n'
        s.sendall(req.encode() + body)
        data = b''
        while True:
            try: c = s.recv(65536)
            except socket.timeout: break
            if not c: break
            data += c
        s.close(); self.drain()
        return data
    def post(self, actions, headers=None): return self.http('POST', actions.encode(), headers)
    def state(self, headers=None):
        d = self.http('GET', headers=headers)
        head, _, body = d.partition(b'\r\n\r\n')
        return head, (json.loads(body) if head.startswith(b'HTTP/1.1 200') else body)
    def close(self):
        try: os.kill(self.pid, signal.SIGKILL)
        except OSError: pass
        try: os.waitpid(self.pid, 0)
        except OSError: pass
        try: os.close(self.fd)
        except OSError: pass
    def wait_exit(self, t=5):
        end = time.time() + t
        while time.time() < end:
            self.drain(0.1)
            p, st = os.waitpid(self.pid, os.WNOHANG)
            if p: return st
        return None
