#!/usr/bin/env python3
"""clean-tree finding 2: usage finding2_exclude_noextended.py /path/to/fzf-binary
With --no-extended (+x), an EMPTY query and a non-empty exclusion list (action `exclude`), the
pattern is "not empty" (Pattern.IsEmpty is false because of the denylist) and, unlike in
extended mode, `sortable` stays true. Every line then matches the empty pattern with score 0
and the list is re-ordered by the tiebreak (length) instead of staying in input order."""
import sys, time, os
sys.path.insert(0, os.path.dirname(os.path.abspath(__file__)))
from fzfpty import Fzf
binary = sys.argv[1]
lines = ["first line is long", "bb", "cccc cccc", "d", "eee", "ffffff"]
rc = 0
for args in ([], ['+x'], ['--tac'], ['+x', '--tac']):
    f = Fzf(binary, args, stdin_data=("\n".join(lines) + "\n").encode())
    try:
        time.sleep(0.5)
        _, st = f.state(); before = [m['text'] for m in st['matches']]
        f.post('exclude'); time.sleep(0.5)      # drops the current item (the first one shown)
        _, st = f.state(); after = [m['text'] for m in st['matches']]
    finally:
        f.close()
    want = before[1:]
    ok = after == want
    rc |= 0 if ok else 1
    print("%-14s query=%r  after exclude: %s  %s" % (' '.join(args) or '(default)', st['query'], after, 'ok' if ok else 'NOT in input order, expected %s' % want))
print("PASS" if rc == 0 else "FAIL")
sys.exit(rc)
