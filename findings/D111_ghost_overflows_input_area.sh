#!/bin/sh
# D111 (C15): the --ghost text shown in place of an empty query was printed at its full length: in a list window
# narrower than the ghost (a preview window to the right) it ran over the border into the preview window.
# usage: D111_ghost_overflows_input_area.sh <fzf binary>  (needs tmux)
S=d111_$$
tmux -L $S new-session -d -x 40 -y 8 "seq 1 3 | $1 --no-sort --no-unicode --no-scrollbar --ghost 'GHOSTTEXT-abcdefghijklmnopqrstuvwxyz' --preview 'echo PV' --preview-window right,50%"
sleep 0.9
scr=$(tmux -L $S capture-pane -p)
tmux -L $S kill-server
echo "$scr"
row=$(echo "$scr" | grep "GHOST")
# the list window is 20 columns wide: nothing of the ghost may appear beyond it
tail=$(printf '%s' "$row" | cut -c21-)
case "$tail" in *[a-z]*) echo "ghost text beyond column 20: '$tail'"; echo FAIL; exit 1;; esac
echo PASS
