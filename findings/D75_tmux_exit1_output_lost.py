#!/usr/bin/env python3
"""clean-tree finding 1: under --tmux the --print-query / --expect lines of a session that
ends with exit status 1 (nothing to accept) are lost when the consumer of stdout is slow.

usage: finding1_tmux_exit1.py /path/to/fzf [tmux|notmux]
A fake `tmux` (a 3-line sh script that runs the last two arguments of `display-popup ... sh SCRIPT`)
is put first on PATH, so that runProxy is exercised without a tmux server.
The stdout pipe is pre-filled (64 KB of '.') and is only read after fzf has exited."""
import sys, os, time, pty, select, socket, tempfile, stat
B = os.path.abspath(sys.argv[1]); PORT = 24750
mode = sys.argv[2] if len(sys.argv) > 2 else 'tmux'
d = tempfile.mkdtemp(prefix='c07-faketmux-', dir='/tmp')
with open(os.path.join(d, 'tmux'), 'w') as f:
    f.write('#!/bin/sh\nfor a in "$@"; do prev="$last"; last="$a"; done\nexec "$prev" "$last"\n')
os.chmod(os.path.join(d, 'tmux'), 0o755)
env = dict(os.environ); env.pop('FZF_DEFAULT_OPTS', None); env.pop('FZF_DEFAULT_COMMAND', None)
env['TERM'] = 'xterm'; env['TMUX'] = '/tmp/fake,1,0'; env['TMUX_PANE'] = '%0'
env['PATH'] = d + ':' + env['PATH']
in_r, in_w = os.pipe(); out_r, out_w = os.pipe()
os.write(in_w, b'a\nb\n'); os.close(in_w)
os.set_blocking(out_w, False); n = 0
try:
    while True: n += os.write(out_w, b'.' * 4096)
except BlockingIOError: pass
os.set_blocking(out_w, True)
args = [B] + (['--tmux'] if mode == 'tmux' else []) + ['--listen', str(PORT), '--print-query', '--expect', 'ctrl-x', '-q', 'zzz']
pid, fd = pty.fork()
if pid == 0:
    os.dup2(in_r, 0); os.dup2(out_w, 1)
    os.execve(B, args, env)
os.close(out_w); os.close(in_r)
def drain(t=0.3):
    end = time.time() + t
    while time.time() < end:
        r, _, _ = select.select([fd], [], [], 0.05)
        if r:
            try: os.read(fd, 65536)
            except OSError: break
time.sleep(1.0); drain()
s = socket.create_connection(('127.0.0.1', PORT), timeout=5)
s.sendall(b'POST / HTTP/1.1\r\nContent-Length: 6\r\n\r\naccept')   # Enter with no match
try: s.recv(1000)
except Exception: pass
s.close()
# a slow consumer: nothing is read from stdout for 2 seconds
st = None; end = time.time() + 2
while time.time() < end:
    drain(0.1)
    if st is None:
        p, s_ = os.waitpid(pid, os.WNOHANG)
        if p: st = os.waitstatus_to_exitcode(s_)
print('after 2s without reading stdout: fzf has %s' % ('exited with %d' % st if st is not None else 'not exited (blocked writing, as it should)'))
out = b''; os.set_blocking(out_r, False); end = time.time() + 5
while time.time() < end:
    try:
        c = os.read(out_r, 65536)
        if not c: break
        out += c
    except BlockingIOError:
        drain(0.05)
        if st is None:
            p, s_ = os.waitpid(pid, os.WNOHANG)
            if p: st = os.waitstatus_to_exitcode(s_)
print('exit status', st, '; stdout after the %d filler bytes: %r' % (n, out[n:]))
os.remove(os.path.join(d, 'tmux')); os.rmdir(d)
ok = out[n:] == b'zzz\n\n' and st == 1
print('OK' if ok else 'OUTPUT LOST')
sys.exit(0 if ok else 1)
