#!/usr/bin/env python3
"""Clean-tree finding 1: 'reload(... {f} ...)' followed by an exiting action in the
same action chain leaks the fzf-temp-* file when the coordinator is busy reading.

usage: finding_1_reload_then_exit_leaks_tempfile.py /path/to/fzf-binary [rounds]
Prints the number of rounds (out of N) in which TMPDIR was not empty after exit.
"""
import os, shutil, sys, tempfile, time
sys.path.insert(0, os.path.dirname(os.path.abspath(__file__)))
from fzfpty import Fzf
binary = os.path.abspath(sys.argv[1])
N = int(sys.argv[2]) if len(sys.argv) > 2 else 20
base = os.path.dirname(os.path.abspath(__file__))
leaks = 0
for i in range(N):
    tmp = tempfile.mkdtemp(prefix='finding1-', dir=base)
    # input that keeps trickling in, so that the coordinator sleeps between rounds
    f = Fzf(binary, [], env={'TMPDIR': tmp, 'SHELL': '/bin/sh',
                             'FZF_DEFAULT_COMMAND': 'while :; do echo x; sleep 0.01; done'},
            port=26000 + (os.getpid() + i) % 5000)
    try:
        time.sleep(0.3)
        f.post('reload(cat {f})+abort')
        st = f.wait_exit(5)
        time.sleep(0.2)
        left = os.listdir(tmp)
        print('round %2d exit=%s left=%s' % (i, st, left))
        if left:
            leaks += 1
    finally:
        f.close()
        shutil.rmtree(tmp, ignore_errors=True)
print('temp file left behind in %d of %d rounds' % (leaks, N))
sys.exit(1 if leaks else 0)
