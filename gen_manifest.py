#!/usr/bin/env python3
"""Regenerates MANIFEST.json from the table below (single source of truth for what is claimed)."""
import json, subprocess
CLAIMED = {
 "C16": dict(technique="path-condition dominance (DNF over SSA branch conditions) + field-use census + call-graph reachability + value derivation",
             text="Decides structural necessary conditions of the --listen access rules: auth before both request effects; remote bind needs a key; the GET handler writes no Terminal state and reads it under the lock; key used only via len/ConstantTimeCompare; POST body shares parser and interpreter with --bind; GET parameters cannot be negative; Options.Unsafe follows the option spelling. Does not decide the totality of the hand-written HTTP scanner.",
             note="Trusts go/types + go/ssa (x/tools v0.29.0) and the VTA call graph; intraprocedural path conditions; memory facts (field loads) are matched structurally."),
}
CLAIMED["C08"] = dict(technique="alias-snapshot analysis + mailbox-drain census with path conditions + flag-aware must-pass-through + read-only use census of cached slices",
  text="Decides structural necessary conditions of convergence: change detection never compares the query buffer with an alias of itself across the action interpreter; mailbox drains independent of map iteration order; nth/denylist changes invalidate caches and bump the revision before the next search (thorough); cancelled scans never published; token cache reads revision-checked; cached result lists never written in place; cached mergers reused only with the same final flag and dropped when the item count changes; denylist and pattern cache replaced together; snapshot and revision assigned together. Does not decide convergence itself.",
  note="Trusts go/ssa; closure variables resolved through MakeClosure bindings; in-place writers of the query buffer are enumerated from the code on every run.")
CLAIMED["C07"] = dict(technique="backward slicing with sanitisers (inter-procedural through closures) + CFG reachability between classified sinks + constant tables + path conditions",
  text="Decides five structural necessary conditions of the output contract: items reach a printer only via Item.AsString/acceptNth; framing order query→expect→queue→items per printing function; exit-code constants and per-request exit codes, filter-mode 0-iff-found, main→os.Exit pass-through; terminal restored before printing; the --with-nth builder always keeps the original bytes. Does not decide byte-for-byte equality of stdout.",
  note="Trusts go/ssa; sinks are the three printer objects resolved by field identity; closures resolved through bindings.")
CLAIMED["C14"] = dict(technique="constant-table pairing of DEC private modes with must-call sets and guard subsets + dominance + must-pass-through on CFG (flag-aware) + provenance slicing",
  text="Decides structural necessary conditions of clean exit: every terminal mode switched on is switched off on every path of Close and Pause (incl. raw mode, cursor, auto-wrap) and Close flushes after queueing; the render loop stops only through exit() after quitting the previewer, closing the listener and the terminal, with the preview killed (delivered and awaited) before EvtQuit; temp-file lists of placeholder expansion removed on every path; every started child waited for, only group leaders group-killed, SIGKILL to the group and a kill wait no shorter than the grace period; constant indexes of the key decoder proven in range by interval analysis. Does not decide absence of panics/hangs.",
  note="Light (ANSI) renderer on linux/amd64 only; tcell/windows renderers are not compiled in this configuration; non-constant indexes of the key decoder are not judged.")
CLAIMED["C13"] = dict(technique="must-hold lockset dataflow with caller-holds-lock summaries + belief rule (Engler) + dominance + writer census",
  text="Decides structural necessary conditions of non-interference: lock discipline inferred per run for every lock-owning struct except Terminal, boundary-chunk copies made under the lock and written only on private copies, every post-spawn return of scan joins the workers, one slab per worker, hand-off buffers, (thorough) closed writer sets for Item fields and atomic-only access to Reader.event. Does not decide equality with a sequential filter nor races on Terminal.",
  note="Instance-insensitive lock identity (type.field path); Terminal excluded by stated limit; go/ssa trusted.")
CLAIMED["C04"] = dict(technique="constant inequalities from types/consts + cross-configuration sibling agreement (amd64 vs arm64 load, build-constraint evaluation over all GOARCH) + path-condition comparison of sort/merge guards + value provenance",
  text="Decides structural necessary conditions of rank order: key capacity vs. accepted criteria and slot layout; agreement of the two build-tagged comparators (incl. endianness and polarity) over every GOARCH; per-partition sort and k-way merge sharing comparator/tac/sorted condition; score first; partial results placed by partition index; scheme default criteria only when none were given; cached result lists never sorted or written in place. Does not decide rank key values nor pass-through index arithmetic.",
  note="Loads /repo twice (linux/amd64 and linux/arm64); byte order per GOARCH is a fixed table; `go tool dist list` supplies the GOARCH universe.")
CLAIMED["C01"] = dict(technique="table agreement (const set vs map stores vs lookup key) + value provenance + path conditions on cache scope",
  text="Decides structural necessary conditions of exact filtering: complete and injective term-kind registry selected by term.typ; per-term (not per-query) case/normalisation/text handed to the matcher; cache-scope guards (hit returned / result added only when cacheable, cacheable cleared for OR/negated/non-base terms, cache key only from single non-negated base terms); the escaped-space placeholder is outside the splitter's separator language; the boundary bonus of exact-boundary terms is computed only at the first pattern character; the merger cache is reset when the item count changes. Does not decide the grammar's semantics.",
  note="go/ssa trusted; short-circuit conditions recognised in their branch-threaded shape (x/tools v0.29.0 emits that shape for if-conditions).")
CLAIMED["C18"] = dict(technique="writer/reader census + path conditions + provenance",
  text="Decides structural necessary conditions of the history contract: closed set of writers of the history file and of readers/writers of in-memory edits; append only on exit code<=1 or become; guarded cursor moves; truncation computed from maxSize; override records edits unconditionally; --history-size updates an already created history. Does not decide file contents.",
  note="History file identified by History.path / NewHistory's path parameter; go/ssa trusted.")
CLAIMED["C19"] = dict(technique="role agreement between option parser and walker callback (path conditions) + guarded returns + provenance of skip-list entries",
  text="Decides structural necessary conditions of the walker contract: each documented flag word sets the field that plays that role in readFiles and every parsed flag is consumed and never silently skipped; SkipDir only for directories; suffix-matched skip entries start with the separator; the streaming filter the callbacks feed uses its slab under its mutex. Does not decide which paths are listed.",
  note="Roles are recognised from readFiles' own use of the fields (fastwalk Follow, dot-name test, emit test).")
CLAIMED["C20"] = dict(technique="dominance + must-pass-through with success-edge filtering + goroutine/channel counting + creation census + sibling agreement",
  text="Decides structural necessary conditions of the preview contract: cancel before every enqueue; Start→Wait and one join per helper goroutine inside one previewer iteration, single previewer; quit+kill at session end (shared with C14); group-leader children; unbuffered kill channel; no plain send to select-only receivers; UpdateList bumps the version on a revision change; version bump inspects the template that is run. Does not decide that the last run is for the focused line.",
  note="Shares obligations with C14-R2/R4; go/ssa trusted.")
CLAIMED["C09"] = dict(technique="writer census with path conditions + exhaustiveness of the action switch over the constant set + dominance + alias analysis of the kill buffer",
  text="Decides structural necessary conditions of query/cursor/selection evolution: selection insertions only through the limit- and duplicate-checked selectItem, deletions only through deselectItem, wholesale replacements empty or filtered copies; every actionType constant has a case; printList clamps before reading results; the kill buffer never keeps sharing the query buffer's array; word-motion helpers return rune counts; pass-through FindIndex uses minIndex. Does not decide the readline semantics of each action.",
  note="go/ssa trusted; 138 action types floored.")
CLAIMED["C12"] = dict(technique="constant replacer tables evaluated in a model of POSIX/fish single-quote lexing (exhaustive short strings) + taint analysis with sanitisers and flag-guarded phi edges + provenance of re-launch arguments/environment",
  text="Decides structural necessary conditions of shell-safe expansion: the quoting lemma for QuoteEntry/escapeSingleQuote from the tables in the code and table selection by the executing shell; item/query/prompt text reaches the expanded template only via QuoteEntry (or ordinal/temp path) except under the r/f flags; tmux/proxy re-launch quotes every argument and environment value and admits only identifier-shaped variable names; expansion writes no package-level state. Does not decide the placeholder grammar.",
  note="The shell model (POSIX: literal until next quote, backslash-quote outside; fish: two escapes inside quotes) is the trusted base of R1.")
CLAIMED["C17"] = dict(technique="error-discipline analysis over SSA use-def + typed AST, CFG ordering, regexp/syntax language vs switch cases, provenance of recorded indices, shape census of mask pieces",
  text="Decides structural necessary conditions of command-line handling: no dropped/unused error among the error-returning calls reachable from ParseOptions; file→env→argv layering with one shared occurrence counter; action-name tables agree with the masking regexp's language; main maps a parse error to exit 2; global occurrence indices for --tmux/--height; offset-preserving mask pieces; option state shared between handlers is persisted in Options; package-level variables assigned on every successful path; parsed values are never silently skipped; (thorough) MustCompile only on constants/QuoteMeta text. Does not decide totality of the splitter nor the bind round-trip.",
  note="Scope = functions of package fzf reachable from ParseOptions by static calls/closures; writes that cannot fail are exempt by name prefix.")
CLAIMED["C02"] = dict(technique="path conditions on the slab-carving helpers + constant table within guard interval",
  text="Decides structural necessary conditions of 'genuine witness, never a crash': slab reslices bounded by a capacity test on the very expression used as the slice bound, with a heap fallback; accent-table keys inside normalizeRune's guard; boundary bonus only under pidx==0 in exactMatchNaive; a slab-independent pattern-length guard before the int16 matrices; scan joins its workers before returning (slabs are reused). Does not decide witness soundness/completeness of the matchers.",
  note="The matchers' index arithmetic is value-level and not decided; mutants of the matching algorithms themselves are outside this check's reach.")
CLAIMED["C03"] = dict(technique="constant relations and inequality over go/constant values read from the code + dominator-based path conditions",
  text="Decides structural necessary conditions of the scoring model: the documented constants and their documented relations; int16 headroom for the longest pattern FuzzyMatchV2 admits, from the code's own constants, with the V1 fallback dominating the matrices and slab sizes at creation; algo.Init assigns every scoring input before deriving values from it. Does not decide agreement of the optimised DP with the recurrence.",
  note="The headroom bound is evaluated with the constant the pattern-length guard compares M with (maxPatternLengthV2 since fix 7e8ad36); the slab-derived bound M <= floor(sqrt(slab16Size)) is only a fallback when no such guard exists.")
CLAIMED["C05"] = dict(technique="goroutine argument census + offset chaining of scratch carving + cross-site agreement (begin-derived rank keys vs position request)",
  text="Decides structural necessary conditions of purity: one slab per worker (mutex for the streaming slab); pairwise disjoint scratch arrays by offset chaining; every criterion whose key is computed from the begin offset gets exact positions; workers joined before scan returns; shared sort/merge and token-cache revision rules; (thorough) invalidation before the next search. Does not decide absence of stale scratch reads.",
  note="Stale-read freedom of the carved arrays needs value reasoning and is explicitly not claimed.")
CLAIMED["C06"] = dict(technique="alias families over SSA phi webs (slab / carry-over buffer) + lockset + must-pass-through in item builders",
  text="Decides structural necessary conditions of record→item fidelity: buffer hand-off safety in Reader.feed (advancing/reallocated slab, carry-over never resliced or reused after hand-off); boundary-chunk copies under the lock and a closed writer set for the chunk list; ordinal/header discipline of the item builders; restart resets ordinal, header and list together and only after the previous reader finished. Does not decide framing for every chunking.",
  note="go/ssa phi webs identify the loop-carried buffers; no names are used.")
CLAIMED["C10"] = dict(technique="reader/constructor census of Range + call-graph reachability of the single interpreter + provenance of offsets + unit agreement",
  text="Decides structural necessary conditions of field expressions: one interpreter/parser of Range reached by all four consumers; match offsets and positions shifted by the token's prefix length; prefix lengths accumulated in characters; accept-nth and {N} expansion tokenize the original record. Does not decide tokenizer partition or range arithmetic.",
  note="VTA call graph for reachability through the transformer closures.")
CLAIMED["C11"] = dict(technique="index chaining over SSA phis (tiling of the input) + provenance of span offsets + SGR tables and extended-colour automaton extracted from the SSA + byte-class partitions of the scanner by constant folding compared with the documented regular expression + result-use/state-carry census",
  text="Decides seven structural necessary conditions of --ansi stripping/colouring: extractColor tiles its input around the ranges the scanner reports (nothing between sequences dropped, duplicated or re-read; plain input returned as is); span offsets count characters of exactly the written pieces; SGR set/reset attribute table and basic colour ranges are consistent; the 38/48;5 and 38/48;2 automaton combines its parameters in order; every byte class the scanner branches on equals the class of the documented regular expression; line processors use the stripped text/spans and carry the returned state. Does not decide equivalence of the scanner with the regular expression on all strings (length guards, UTF-8 widths, backtracking) nor span well-formedness.",
  note="Byte classes are obtained by folding the SSA of the scanner over the 256 values of one byte read (no code is executed); the documented regex is held as five alternatives in the checker.")
CLAIMED["C15"] = dict(technique="cache-key completeness from the path condition of the no-repaint return + request/consumer registry and printer reachability per switch case + must-pass-through (flush, repaint after erase) + dominance (cache reset before printing) + provenance and cross-expression agreement of marker/pointer inputs",
  text="Decides five structural necessary conditions of display fidelity: the incremental-redraw row cache compares every recorded drawing input before skipping a row; every request kind has a consumer and each redraw request reaches its printer, printAll/fullRedraw repaint all regions; every non-exiting render pass ends with flush(); the row cache is renewed with the geometry before anything is printed and every screen erasure is followed by a full repaint or a request for one; the marker flag is the selection membership of the row's own item and the pointer test uses the index that fetched the item. Does not decide what is drawn (layout arithmetic, truncation/ellipsis/width, wrap bookkeeping, cursor tracking in the renderer).",
  note="The three independently seeded C15 changes are all geometry/value-level and are not detected; recorded in seeded/C15*3 and DESIGN.md.")
NA = {
}
ALL = ["C%02d" % i for i in range(1, 21)]
PENDING_REASON = "check not built yet in this revision of /verif (see DESIGN.md section 0 for the planned structural clauses); nothing is claimed for it here"
FIXED_NA = {
}
def main():
    checks = []
    for pid in ALL:
        if pid in CLAIMED:
            c = CLAIMED[pid]
            checks.append({
              "property_id": pid,
              "quick_cmd": "./check.sh %s quick" % pid,
              "thorough_cmd": "./check.sh %s thorough" % pid,
              "evidence_file": "/verif/evidence/%s.json" % pid,
              "engine": "fzfcheck",
              "level_claimed": {"category": "other", "text": c["text"], "design_ref": "DESIGN.md section 4, " + pid},
              "level_note": c["note"],
              "technique": "static analysis: " + c["technique"],
            })
    na = []
    for pid in ALL:
        if pid in CLAIMED: continue
        na.append({"property_id": pid, "reason": FIXED_NA.get(pid) or NA.get(pid) or PENDING_REASON})
    m = {
      "version": 1,
      "setup_cmd": "cd /verif/checker && GOFLAGS=-mod=mod GOPROXY=off GOSUMDB=off GOTOOLCHAIN=local CGO_ENABLED=0 go build -o /verif/bin/fzfcheck .",
      "hooks": {"guard": "verif", "enable": "none needed: static analysis reads /repo's source; no instrumentation exists", "baseline_off_cmd": "cd /repo && GOFLAGS=-mod=mod go test -vet=off -count=1 ./...", "source_commits": [], "add_only": True},
      "engines": [{"name": "fzfcheck", "path": "/verif/checker", "serves_properties": sorted(CLAIMED), "kind_free_text": "repository-specific static analyser (go/packages + go/types + go/ssa + call graph); one rule set per property"}],
      "checks": checks,
      "not_applicable": na,
      "notes": "All checks are static: they type-check and SSA-build /repo's current working tree on every run and decide named structural clauses (level 'other'); see DESIGN.md. Genuine defects found were repaired as fix: commits in /repo and are listed as fixed in known_findings.json.",
    }
    json.dump(m, open("/verif/MANIFEST.json", "w"), indent=1)
    print("checks:", len(checks), "not_applicable:", len(na))
main()
