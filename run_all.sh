#!/bin/bash
# Runs every claimed check at the given tier (default quick) and prints one line per property.
tier=${1:-quick}
cd /verif
rc=0
for p in $(python3 -c "import json;print(' '.join(c['property_id'] for c in json.load(open('MANIFEST.json'))['checks']))"); do
  out=$(./check.sh $p $tier 2>&1); e=$?
  echo "$p exit=$e $(echo "$out" | grep -E '^(property=|selftest|VIOLATION|SELFTEST-FAILED|KNOWN-FINDING)' | tr '\n' ' ' | cut -c1-400)"
  [ $e -ne 0 ] && rc=1
done
exit $rc
