#!/bin/sh
# usage: ./check.sh Cxx quick|thorough
# Re-builds the checker if needed, then analyses /repo's CURRENT working tree (nothing cached between runs).
set -u
prop=$1; tier=${2:-quick}
here=$(cd "$(dirname "$0")" && pwd)
export GOFLAGS=-mod=mod GOPROXY=off GOSUMDB=off GOTOOLCHAIN=local CGO_ENABLED=0; unset GOWORK
REPO=${VERIF_REPO:-/repo}
mkdir -p "$here/bin" "$here/evidence"
( cd "$here/checker" && go build -o "$here/bin/fzfcheck" . ) || { echo "cannot build checker" >&2; exit 3; }
cd "$here"
"$here/bin/fzfcheck" -repo "$REPO" -prop "$prop" -tier "$tier" -known "$here/known_findings.json" -evidence "$here/evidence/$prop.json"
rc=$?
if [ $rc -eq 0 ] && [ "$tier" = thorough ] && [ -x "$here/selftest/selftest.sh" ]; then
  "$here/selftest/selftest.sh" "$prop" || rc=$?
fi
exit $rc
