# sentences added to the manifest texts for the rules of the short round 12 (see DESIGN.md section 4 for each rule's statement)
ROUND12 = {
 "C06": "Round 12: the --tmux relay terminates the records of Options.Input with the delimiter the real fzf reads (C06-R18).",
 "C07": "Round 12: the ordered selection is rebuilt from the map on every call (C07-R15); the printed text is stripped iff --ansi, with or without colours (C11-R26).",
 "C09": "Round 12: History.current decides by the presence of an edit, not by its text (C09-R28).",
 "C11": "Round 12: the stripAnsi argument of everything printed by Terminal.output is Terminal.ansi itself (C11-R28).",
 "C12": "Round 12: a BASH_FUNC_ entry is pasted into the --tmux script only with an identifier name and a function value (C12-R16).",
 "C19": "Round 12: trailing separators of a --walker-skip entry are removed before it is classified (C19-R20).",
 "C14": "Round 12: Pause and Resume each switch the screen in both modes (C14-R25); the modes Pause switches off are switched on again on every path of Resume (C14-R26).",
 "C15": "Round 12: the width left behind the cursor is a display width (C15-R32); Terminal.move addresses the input and the header window bottom-up (C15-R33); the output filter of the light renderer is a range test, never a Unicode table (C15-R34, C14-R22); Terminal.header has as many elements as rows are reserved for it (C15-R35); a header window (C15-R36) or an input window (C15-R37) that has to come or go asks for a full redraw.",
}
