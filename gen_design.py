#!/usr/bin/env python3
"""Assembles DESIGN.md = design/head.md + section 4 (generated from the evidence files of the last thorough
run, i.e. what the checker enforces today) + design/tail.md, in which the markers
  <!--COUNTS-->            rule/obligation totals
  <!--MUTANTS:round=N-->   table of the independent mutants of that round (from seeded/*/meta.json)
  <!--DEFECTS-REINTRODUCED-->
are expanded.  Nothing here decides anything; it only documents."""
import json, glob, os, re
V = '/verif'
props = ['C%02d' % i for i in range(1, 21)]
ev = {}
for p in props:
    f = f'{V}/evidence/{p}.json'
    if os.path.exists(f): ev[p] = json.load(open(f))
def section4():
    out = []
    for p in props:
        if p not in ev: continue
        c = ev[p]['coverage']
        out.append(f'#### {p}\n{c["explanation"]}\n\n*Not decided:* {c["not_decided"]}\n')
        out.append('| rule | engine | tier | clause (decided on every run from /repo\'s SSA) | behaviour that breaks when the clause is violated |\n|---|---|---|---|---|')
        for r in c['rules']:
            out.append(f'| {r["id"]} | {r["engine"]} | {r["priority"]} | {r["text"]} | {r["breaks"]} |')
        per = ', '.join(f'{k}: {sum(v.values())}' for k, v in sorted(c['per_rule'].items(), key=lambda kv: (kv[0][:3], int(kv[0].split("-R")[1]))))
        out.append(f'\nObligations on the current tree ({ev[p]["tier"]} tier): {per} (total {c["obligations"]} judged, {c["discharged"]} discharged; {c["n_functions_analysed"]} functions analysed).')
        if c.get('exemptions'):
            out.append('Exemptions: ' + '; '.join(str(x) for x in c['exemptions'][:12]))
        st = c.get('selftest')
        if st:
            out.append(f'Self-validation: {st["cases"]} cases, {st["detected"]} breaking edits/mutants reported, {st["silent_benign"]} benign edits silent, {st["not_exercised"]} not exercised, {st["failed"]} failed.')
        out.append('')
    return '\n'.join(out)
def counts():
    nr = sum(len(e['coverage']['rules']) for e in ev.values())
    distinct = set(r['id'] for e in ev.values() for r in e['coverage']['rules'])
    no = sum(e['coverage']['obligations'] for e in ev.values())
    return f'{len(ev)} properties claimed at level `other`; {len(distinct)} distinct rules ({nr} rule instances, some rules serve several properties), {no} obligations judged on the current tree in the thorough tier'
def metas():
    ms = {}
    for m in glob.glob(f'{V}/seeded/*/meta.json'):
        d = json.load(open(m)); ms[d.get('id', os.path.basename(os.path.dirname(m)))] = d
    return ms
def first_line(diffpath):
    try:
        files = re.findall(r'^\+\+\+ b/(\S+)', open(diffpath).read(), re.M)
        return ', '.join(sorted(set(os.path.basename(f) for f in files)))
    except OSError: return ''
def what(mid, d):
    n = glob.glob(f'{V}/seeded/{mid}/notes_*.md')
    if d.get('what'): return d['what']
    if n:
        s = open(n[0]).read()
        m = re.search(r'(?ims)^#+ *(what (was|is) changed|change|the change|mutant)[^\n]*\n(.*?)(?=^#+ |\Z)', s)
        t = (m.group(3) if m else s[:400])
        t = re.sub(r'```.*?```', '', t, flags=re.S)
        t = re.sub(r'\s+', ' ', t).strip()
        return t[:220]
    return ''
def mutants(rnd):
    ms = metas()
    rows = []
    for mid in sorted(ms):
        d = ms[mid]
        if not re.fullmatch(r'C\d\d[abcd]' + (rnd if rnd != '1' else ''), mid): continue
        exp = d.get('expected_detection', {})
        own = d.get('property')
        if own in exp: rep = exp[own]
        elif exp: rep = ', '.join(f'{v} (check of {k})' for k, v in sorted(exp.items())) + f' — not by {own}'
        else: rep = '**not detected**'
        if d.get('confirmed') is False: rep = 'not confirmed on the current tree (' + (d.get('note', '')[:160]) + ' ...)'
        arr = d.get('detected_on_arrival')
        arr_s = {True: 'yes', False: 'no', None: '—'}[arr]
        needs = re.sub(r'\s+', ' ', d.get('needs_to_manifest', ''))[:200].replace('|', '\\|')
        rows.append(f'| {mid} | {first_line(f"{V}/seeded/{mid}/patch.diff")} | {needs} | {arr_s} | {rep} |')
    hdr = '| mutant | files touched | needs to manifest (from the sub-agent\'s notes, abridged) | reported on arrival | reported now by |\n|---|---|---|---|---|\n'
    return hdr + '\n'.join(rows)
def stats(rnd):
    ms = metas(); allids = [k for k in sorted(ms) if re.fullmatch(r'C\d\d[abcd]' + (rnd if rnd != '1' else ''), k)]
    ids = [k for k in allids if ms[k].get('confirmed') is not False]
    own_arr = sum(1 for k in ids if ms[k].get('detected_on_arrival'))
    any_arr = sum(1 for k in ids if ms[k].get('detected_on_arrival') or any(v for v in (ms[k].get('arrival_detection_all_properties') or {}).values()))
    own_now = sum(1 for k in ids if ms[k].get('property') in ms[k].get('expected_detection', {}))
    any_now = sum(1 for k in ids if ms[k].get('expected_detection'))
    nd = [k for k in ids if not ms[k].get('expected_detection')]
    arr = f'reported by the own property\'s check on arrival: {own_arr}, by any check on arrival: {any_arr}; ' if any('detected_on_arrival' in ms[k] for k in ids) else ''
    unc = [k for k in allids if k not in ids]
    uncs = f' ({len(unc)} more delivered but not confirmed on the current tree: {", ".join(unc)})' if unc else ''
    return f'{len(ids)} confirmed mutants{uncs}; {arr}reported now by the own property\'s check: {own_now}, by any check: {any_now}; not detected: {", ".join(nd) or "none"}'
def reintroduced():
    ms = metas(); rows = []
    for mid in sorted(ms):
        if not mid.startswith('D'): continue
        exp = ms[mid].get('expected_detection', {})
        rows.append(f'| {mid} | ' + ', '.join(f'{v} ({k})' for k, v in sorted(exp.items())) + ' |')
    return '| reverse patch | reported by |\n|---|---|\n' + '\n'.join(rows)
head = open(f'{V}/design/head.md').read().rstrip('\n')
tail = open(f'{V}/design/tail.md').read()
doc = head + '\n\n' + section4() + '\n' + tail
doc = doc.replace('<!--COUNTS-->', counts())
doc = re.sub(r'<!--MUTANTS:round=(\w+)-->', lambda m: mutants(m.group(1)), doc)
doc = doc.replace('<!--DEFECTS-REINTRODUCED-->', reintroduced())
doc = doc.replace('<!--UNDETECTED-->', ', '.join(k for k in sorted(metas()) if re.fullmatch(r'C\d\d[abcd]\d*', k) and not metas()[k].get('expected_detection') and metas()[k].get('confirmed') is not False))
kf = json.load(open(f'{V}/known_findings.json'))['findings']
doc = doc.replace('<!--ND-->', str(len(set(f['commit'] for f in kf if f['status'] == 'fixed'))))
vi = json.load(open(f'{V}/selftest/variants/index.json')); bi = json.load(open(f'{V}/selftest/benign/index.json'))
doc = doc.replace('<!--NVAR-->', str(sum(1 for e in vi if e['status'] == 'ok'))).replace('<!--NBEN-->', str(sum(1 for e in bi if e['status'] == 'ok')))
doc = doc.replace('<!--NMUT-->', str(sum(1 for k in metas() if re.fullmatch(r'C\d\d[abcd]\d*', k))))
doc = re.sub(r'<!--STATS:round=(\w+)-->', lambda m: stats(m.group(1)), doc)
open(f'{V}/DESIGN.md', 'w').write(doc)
print('DESIGN.md', len(doc.splitlines()), 'lines;', counts())
