package main

import (
	"fmt"
	"go/token"
	"go/types"
	"sort"
	"strings"

	"golang.org/x/tools/go/ssa"
)

func init() {
	register(&propDef{
		id:  "C12",
		run: runC12,
		explanation: "Structural clauses of shell-safe expansion: (R1) the quoting lemma — the replacer tables read from NewExecutor and the wrapper shape of QuoteEntry / escapeSingleQuote are, in a small model of POSIX (and fish) single-quote lexing, exact inverses of shell evaluation (case analysis over the constant tables plus exhaustive short strings over the metacharacter alphabet); the table is chosen by the base name of the very shell that will run the command; " +
			"(R2) in replacePlaceholder every value derived from an item, the query or the prompt reaches the expanded template only through QuoteEntry (or as a decimal ordinal / temp-file path), except on edges guarded by the r/f flags; (R3) tmux/proxy re-launch: every argument reaches the command string only through escapeSingleQuote, every exported environment VALUE only through escapeSingleQuote (bash function bodies exempt), names only after the identifier check.",
		notDecided:  "the placeholder regular expression and flag parsing, escaping of \\{..}, ordering of {+}, behaviour of non-POSIX shells other than fish, NUL bytes",
		assumptions: []string{"POSIX single-quote lexing: every byte is literal until the next single quote; outside quotes \\' is a literal quote. fish: inside single quotes only \\\\ and \\' are escapes."},
	})
}

// ---- shell models ----------------------------------------------------------------------------

// evalPosixWord evaluates a word made of single-quoted segments and backslash escapes outside quotes.
// ok=false if the word contains an unquoted metacharacter/whitespace or ends inside a quote.
func evalPosixWord(w string) (string, bool) {
	var out strings.Builder
	inq := false
	for i := 0; i < len(w); i++ {
		c := w[i]
		if inq {
			if c == '\'' {
				inq = false
			} else {
				out.WriteByte(c)
			}
			continue
		}
		switch c {
		case '\'':
			inq = true
		case '\\':
			if i+1 >= len(w) {
				return "", false
			}
			i++
			out.WriteByte(w[i])
		default:
			// any unquoted byte other than a plain word character would be shell syntax
			if !(c >= 'a' && c <= 'z' || c >= 'A' && c <= 'Z' || c >= '0' && c <= '9' || c == '_' || c == '/' || c == '.' || c == '-') {
				return "", false
			}
			out.WriteByte(c)
		}
	}
	return out.String(), !inq
}

func evalFishWord(w string) (string, bool) {
	var out strings.Builder
	inq := false
	for i := 0; i < len(w); i++ {
		c := w[i]
		if inq {
			if c == '\\' && i+1 < len(w) && (w[i+1] == '\\' || w[i+1] == '\'') {
				i++
				out.WriteByte(w[i])
				continue
			}
			if c == '\'' {
				inq = false
				continue
			}
			out.WriteByte(c)
			continue
		}
		if c == '\'' {
			inq = true
			continue
		}
		return "", false
	}
	return out.String(), !inq
}

var shellAlphabet = []byte{'\'', '\\', '"', '$', '`', ' ', '\n', 'a', '*', ';', '!', '#', '~', '{', '&', '|', '\t'}

func shortStrings(maxLen int) []string {
	out := []string{""}
	prev := []string{""}
	for l := 1; l <= maxLen; l++ {
		var cur []string
		for _, p := range prev {
			for _, c := range shellAlphabet {
				cur = append(cur, p+string(c))
			}
		}
		out = append(out, cur...)
		prev = cur
	}
	return out
}

// replacerPairs extracts the constant argument list of a strings.NewReplacer call.
func replacerPairs(call *ssa.Call) ([]string, bool) {
	if len(call.Call.Args) != 1 {
		return nil, false
	}
	sl, ok := call.Call.Args[0].(*ssa.Slice)
	if !ok {
		return nil, false
	}
	al, ok := sl.X.(*ssa.Alloc)
	if !ok {
		return nil, false
	}
	arr := deref(al.Type()).Underlying().(*types.Array)
	out := make([]string, arr.Len())
	got := 0
	for _, ref := range *al.Referrers() {
		ia, ok := ref.(*ssa.IndexAddr)
		if !ok {
			continue
		}
		k, ok := constIntVal(ia.Index)
		if !ok {
			return nil, false
		}
		for _, r2 := range *ia.Referrers() {
			if st, ok := r2.(*ssa.Store); ok {
				s, ok := constString(st.Val)
				if !ok {
					return nil, false
				}
				out[k] = s
				got++
			}
		}
	}
	return out, got == len(out) && len(out)%2 == 0
}

// concatParts flattens a chain of string `+` into its operands.
func concatParts(v ssa.Value) []ssa.Value {
	if b, ok := v.(*ssa.BinOp); ok && b.Op == token.ADD {
		return append(concatParts(b.X), concatParts(b.Y)...)
	}
	return []ssa.Value{v}
}

func runC12(c *Ctx, r *Report) {
	defer round8(c, r, "C12")
	defer c12r6(c, r)
	defer c12r7(c, r)
	defer c12r8(c, r)
	defer c12r9(c, r)
	defer c12r10(c, r)
	defer c12r11(c, r)
	defer c09r1(c, r) // {+} lists items in the order they were selected: re-selecting must not re-stamp
	l := c.L
	// ---------------- R1 ----------------
	r.rule("C12-R1", "H (constants evaluated in a model of single-quote lexing)", "P1",
		"QuoteEntry is \"'\" + escaper.Replace(s) + \"'\" and escapeSingleQuote is \"'\" + ReplaceAll(s, \"'\", X) + \"'\"; with the tables read from the code every string up to length 3 over the shell metacharacter alphabet evaluates back to itself as one word (POSIX table under POSIX lexing, fish table under fish lexing), the replaced set is exactly {'} resp. {\\, '}; the table is selected by comparing the base name of the shell stored in Executor.shell with \"fish\"",
		"a quote/backslash in an item or query ends the quoting: input data is executed as shell syntax")
	newExec := l.Fn("util", "NewExecutor")
	quote := l.Fn("util", "(*Executor).QuoteEntry")
	esq := l.Fn("fzf", "escapeSingleQuote")
	fShell := l.Field("util", "Executor", "shell")
	fEsc := l.Field("util", "Executor", "escaper")
	if newExec == nil || quote == nil || esq == nil || fShell == nil || fEsc == nil {
		r.unest("anchors", token.NoPos, nil, "anchors NewExecutor / QuoteEntry / escapeSingleQuote / Executor.{shell,escaper}", "cannot resolve")
	} else {
		type table struct {
			pairs []string
			call  *ssa.Call
			fish  bool
			known bool
		}
		var tables []table
		// the function that holds the tables: NewExecutor itself or a helper it calls
		tableFn := newExec
		var helperCall *ssa.Call
		hasTables := func(f *ssa.Function) bool {
			found := false
			eachInstr(f, func(in ssa.Instruction) {
				if call, ok := in.(*ssa.Call); ok && calleeName(call.Common()) == "strings.NewReplacer" {
					found = true
				}
			})
			return found
		}
		if !hasTables(newExec) {
			eachInstr(newExec, func(in ssa.Instruction) {
				if call, ok := in.(*ssa.Call); ok {
					if g := call.Common().StaticCallee(); g != nil && g.Blocks != nil && g.Pkg == newExec.Pkg && hasTables(g) {
						tableFn, helperCall = g, call
					}
				}
			})
		}
		pc := pathConds(tableFn)
		var fishCmp *ssa.BinOp
		eachInstr(tableFn, func(in ssa.Instruction) {
			call, ok := in.(*ssa.Call)
			if !ok || calleeName(call.Common()) != "strings.NewReplacer" {
				return
			}
			pairs, ok := replacerPairs(call)
			if !ok {
				r.unest(relName(newExec)+":replacer table", in.Pos(), tableFn, "constant replacer table", "arguments are not all constants")
				return
			}
			t := table{pairs: pairs, call: call}
			// under which literal?
			for _, d := range pc.At(in.Block()) {
				for _, lt := range d {
					b, ok := lt.Atom.(*ssa.BinOp)
					if !ok || b.Op != token.EQL {
						continue
					}
					if s, ok := constString(b.Y); ok && s == "fish" {
						t.fish, t.known = lt.Val, true
						fishCmp = b
					}
				}
			}
			tables = append(tables, t)
		})
		r.floor("replacer tables in NewExecutor", len(tables), 2)
		// the value compared with "fish" derives from the same value that is stored into Executor.shell
		if fishCmp != nil {
			var shellStored ssa.Value
			eachInstr(newExec, func(in ssa.Instruction) {
				if st, ok := in.(*ssa.Store); ok {
					if fld, _ := fieldOf(st.Addr); fld == fShell {
						shellStored = st.Val
					}
				}
			})
			same := false
			if helperCall == nil {
				for v := range backwardSlice(fishCmp.X, func(*ssa.CallCommon) bool { return true }, func(v ssa.Value) bool { return v == shellStored }) {
					if v == shellStored {
						same = true
					}
				}
			} else {
				// the helper decides from one of its parameters; the argument passed for it must be the stored shell
				for v := range backwardSlice(fishCmp.X, func(*ssa.CallCommon) bool { return true }, nil) {
					if p, ok := v.(*ssa.Parameter); ok && p.Parent() == tableFn {
						for i, q := range tableFn.Params {
							if q == p && i < len(helperCall.Call.Args) && helperCall.Call.Args[i] == shellStored {
								same = true
							}
						}
					}
				}
			}
			// and nothing else feeds it except constants
			r.check(same && shellStored != nil, relName(newExec)+":table chosen by the executing shell", fishCmp.Pos(), newExec, "the escaper is selected from the base name of the shell that is stored in Executor.shell", "the table is chosen from another string than the shell that will run the command (e.g. $SHELL while --with-shell overrides it)")
		} else {
			r.unest(relName(newExec)+":fish test", token.NoPos, newExec, "comparison of the shell's base name with \"fish\"", "not found")
		}
		words := shortStrings(3)
		for _, t := range tables {
			name := "posix"
			eval := evalPosixWord
			wantKeys := []string{"'"}
			if t.fish {
				name, eval, wantKeys = "fish", evalFishWord, []string{"'", "\\"}
			}
			if !t.known {
				r.unest(relName(newExec)+":table kind", t.call.Pos(), newExec, "which shell family the table is for", "not guarded by the fish test")
				continue
			}
			var keys []string
			for i := 0; i < len(t.pairs); i += 2 {
				keys = append(keys, t.pairs[i])
			}
			sort.Strings(keys)
			sort.Strings(wantKeys)
			r.check(strings.Join(keys, "|") == strings.Join(wantKeys, "|"), relName(newExec)+":"+name+" replaced set", t.call.Pos(), newExec,
				fmt.Sprintf("%s table rewrites exactly %q", name, wantKeys), fmt.Sprintf("rewrites %q", keys))
			rep := strings.NewReplacer(t.pairs...)
			bad := ""
			for _, s := range words {
				got, ok := eval("'" + rep.Replace(s) + "'")
				if !ok || got != s {
					bad = s
					break
				}
			}
			r.check(bad == "", relName(newExec)+":"+name+" round trip", t.call.Pos(), newExec,
				fmt.Sprintf("%d strings (length <= 3 over %d metacharacters) evaluate back to themselves under %s single-quote lexing", len(words), len(shellAlphabet), name),
				fmt.Sprintf("%q does not survive quoting", bad))
		}
		// QuoteEntry wrapper shape
		okShape := false
		for _, b := range quote.Blocks {
			if ret, ok := b.Instrs[len(b.Instrs)-1].(*ssa.Return); ok {
				parts := concatParts(ret.Results[0])
				if len(parts) == 3 {
					a, okA := constString(parts[0])
					z, okZ := constString(parts[2])
					call, okC := parts[1].(*ssa.Call)
					if okA && okZ && okC && a == "'" && z == "'" && calleeName(call.Common()) == "(*strings.Replacer).Replace" &&
						isLoadOf(call.Call.Args[0], fEsc) && call.Call.Args[1] == ssa.Value(quote.Params[1]) {
						okShape = true
					}
				}
			}
		}
		r.check(okShape, relName(quote)+":wrapper shape", quote.Pos(), quote, "QuoteEntry returns \"'\" + x.escaper.Replace(entry) + \"'\"", "different shape")
		// escapeSingleQuote
		okEsq := false
		var esqRepl string
		for _, b := range esq.Blocks {
			if ret, ok := b.Instrs[len(b.Instrs)-1].(*ssa.Return); ok {
				parts := concatParts(ret.Results[0])
				if len(parts) == 3 {
					a, okA := constString(parts[0])
					z, okZ := constString(parts[2])
					call, okC := parts[1].(*ssa.Call)
					if okA && okZ && okC && a == "'" && z == "'" && calleeName(call.Common()) == "strings.ReplaceAll" && call.Call.Args[0] == ssa.Value(esq.Params[0]) {
						k, ok1 := constString(call.Call.Args[1])
						v, ok2 := constString(call.Call.Args[2])
						if ok1 && ok2 && k == "'" {
							okEsq, esqRepl = true, v
						}
					}
				}
			}
		}
		if !okEsq {
			r.bad(relName(esq)+":wrapper shape", esq.Pos(), esq, "escapeSingleQuote returns \"'\" + strings.ReplaceAll(s, \"'\", X) + \"'\"", "different shape")
		} else {
			bad := ""
			for _, s := range words {
				got, ok := evalPosixWord("'" + strings.ReplaceAll(s, "'", esqRepl) + "'")
				if !ok || got != s {
					bad = s
					break
				}
			}
			r.check(bad == "", relName(esq)+":round trip", esq.Pos(), esq, fmt.Sprintf("escapeSingleQuote: %d short strings evaluate back to themselves under POSIX lexing", len(words)), fmt.Sprintf("%q does not survive", bad))
		}
	}

	// ---------------- R2 ----------------
	r.rule("C12-R2", "D (taint with sanitisers and flag-guarded edges)", "P1",
		"in replacePlaceholder and its closures, a returned value derived from Item.AsString / Item.text / params.query / params.prompt without passing QuoteEntry, strconv.Itoa or WriteTemporaryFile is returned only on edges where flags.raw or flags.file holds",
		"an item or query is pasted into the command line unquoted")
	rp := l.Fn("fzf", "replacePlaceholder")
	asString := l.Fn("fzf", "(*Item).AsString")
	wtf := l.Fn("fzf", "WriteTemporaryFile")
	if rp == nil || asString == nil || quote == nil || wtf == nil {
		r.unest("anchors", token.NoPos, nil, "anchors replacePlaceholder / Item.AsString / QuoteEntry / WriteTemporaryFile", "cannot resolve")
	} else {
		isSan := func(v ssa.Value) bool {
			call, ok := v.(*ssa.Call)
			if !ok {
				return false
			}
			if callIs(call.Common(), quote) || callIs(call.Common(), wtf) {
				return true
			}
			nm := calleeName(call.Common())
			return nm == "strconv.Itoa" || strings.HasSuffix(nm, "actionType).Name")
		}
		isSource := func(v ssa.Value) bool {
			if call, ok := v.(*ssa.Call); ok && call.Common().StaticCallee() == asString {
				return true
			}
			if fld, base := loadedField(v); fld != nil {
				tn := ""
				if n, ok := deref(base.Type()).(*types.Named); ok {
					tn = n.Obj().Name()
				}
				if tn == "replacePlaceholderParams" && (fld.Name() == "query" || fld.Name() == "prompt") {
					return true
				}
				if tn == "Item" && (fld.Name() == "text" || fld.Name() == "origText") {
					return true
				}
			}
			if fld, base := fieldOf(v); fld != nil {
				if n, ok := deref(base.Type()).(*types.Named); ok && n.Obj().Name() == "Item" && (fld.Name() == "text" || fld.Name() == "origText") {
					return true
				}
			}
			return false
		}
		localClosures := map[*ssa.Function]bool{}
		for _, f := range withClosures(rp) {
			localClosures[f] = true
		}
		tainted := func(v ssa.Value) bool {
			// intra-procedural: through calls except sanitisers and calls of local closures (those are judged at their own returns)
			for x := range backwardSlice(v, func(c *ssa.CallCommon) bool {
				fs, _ := calleesOf(c)
				for _, f := range fs {
					if localClosures[f] {
						return false
					}
				}
				return true
			}, isSan) {
				if isSan(x) {
					continue
				}
				if isSource(x) {
					return true
				}
			}
			return false
		}
		isFlag := func(a ssa.Value) bool {
			fld, _ := loadedField(a)
			return fld != nil && (fld.Name() == "raw" || fld.Name() == "file")
		}
		guardedAt := func(pc *PathConds, b *ssa.BasicBlock) bool {
			holds, _ := pc.Implies(b, func(lits []Lit) bool {
				return hasLit(lits, func(a ssa.Value, v bool) bool { return v && isFlag(a) })
			})
			return holds
		}
		nRet, nGuarded := 0, 0
		for _, f := range withClosures(rp) {
			pc := pathConds(f)
			for _, b := range f.Blocks {
				ret, ok := b.Instrs[len(b.Instrs)-1].(*ssa.Return)
				if !ok || len(ret.Results) == 0 {
					continue
				}
				if bt, ok := ret.Results[0].Type().Underlying().(*types.Basic); !ok || bt.Kind() != types.String {
					continue
				}
				nRet++
				// judge per phi edge
				// a value is judged where it is consumed: at the return block, or — for a phi — on each incoming edge
				var judge func(v ssa.Value, from, at *ssa.BasicBlock, depth int) (bad bool, guarded bool)
				judge = func(v ssa.Value, from, at *ssa.BasicBlock, depth int) (bool, bool) {
					if !tainted(v) {
						return false, false
					}
					if from != nil {
						// already guarded where it is consumed? then what it is made of does not matter
						if holds, feas := pc.ImpliesEdge(from, at, func(lits []Lit) bool {
							return hasLit(lits, func(a ssa.Value, v bool) bool { return v && isFlag(a) })
						}); holds || !feas {
							return false, true
						}
					} else if guardedAt(pc, at) {
						return false, true
					}
					if phi, ok := v.(*ssa.Phi); ok && depth < 6 {
						bad, g := false, false
						for i, e := range phi.Edges {
							b2, g2 := judge(e, phi.Block().Preds[i], phi.Block(), depth+1)
							bad = bad || b2
							g = g || g2
						}
						return bad, g
					}
					if !tainted(v) {
						return false, false
					}
					isG := func(lits []Lit) bool {
						return hasLit(lits, func(a ssa.Value, v bool) bool { return v && isFlag(a) })
					}
					if from != nil {
						if holds, feas := pc.ImpliesEdge(from, at, isG); holds || !feas {
							return false, true
						}
					} else if guardedAt(pc, at) {
						return false, true
					}
					return true, false
				}
				bad, guarded := judge(ret.Results[0], nil, b, 0)
				key := fmt.Sprintf("%s:return#%d", relName(f), nRet)
				switch {
				case bad:
					r.bad(key, ret.Pos(), f, "returned text derived from item/query/prompt", "reaches the command line without QuoteEntry on a path where neither flags.raw nor flags.file is set")
				case guarded:
					nGuarded++
					r.ok(key, ret.Pos(), f, "unquoted item text is returned only under flags.raw / flags.file")
				default:
					r.ok(key, ret.Pos(), f, "returned text is quoted, an ordinal, a temp-file path or template text")
				}
			}
		}
		r.floor("string returns in replacePlaceholder's function tree", nRet, 10)
		r.floor("flag-guarded raw returns", nGuarded, 1)
	}

	// ---------------- R3 ----------------
	r.rule("C12-R3", "D (taint)", "P1",
		"runTmux: the command string given to runProxy contains os.Args-derived text only through escapeSingleQuote; runProxy: an environment value (second half of the NAME=VALUE split) is used only as an argument of escapeSingleQuote, except in the BASH_FUNC_ branch; an environment name is emitted only after the identifier regexp matched",
		"an argument or environment value containing $, backtick, quote or newline is evaluated by the shell that re-launches fzf inside tmux")
	rt := l.Fn("fzf", "runTmux")
	rpx := l.Fn("fzf", "runProxy")
	if rt == nil || rpx == nil || esq == nil {
		r.unest("anchors", token.NoPos, nil, "anchors runTmux / runProxy / escapeSingleQuote", "cannot resolve")
		return
	}
	isEsq := func(v ssa.Value) bool {
		call, ok := v.(*ssa.Call)
		return ok && call.Common().StaticCallee() == esq
	}
	n := 0
	eachInstr(rt, func(in ssa.Instruction) {
		call, ok := in.(*ssa.Call)
		if !ok || call.Common().StaticCallee() != rpx {
			return
		}
		n++
		leak := false
		for v := range backwardSlice(call.Call.Args[0], func(*ssa.CallCommon) bool { return true }, isEsq) {
			if isEsq(v) {
				continue
			}
			if p, ok := v.(*ssa.Parameter); ok && p.Name() == "args" {
				leak = true
			}
		}
		r.check(!leak, relName(rt)+":argv only via escapeSingleQuote", in.Pos(), rt, "every argument reaches the re-launch command through escapeSingleQuote", "an argument is concatenated unquoted")
	})
	r.floor("runProxy calls in runTmux", n, 1)
	// runProxy: uses of pair[1]
	nv := 0
	pcx := pathConds(rpx)
	eachInstr(rpx, func(in ssa.Instruction) {
		ia, ok := in.(*ssa.IndexAddr)
		if !ok {
			return
		}
		call, ok := ia.X.(*ssa.Call)
		if !ok || calleeName(call.Common()) != "strings.SplitN" {
			return
		}
		fromEnv := false
		for v := range backwardSlice(call.Call.Args[0], nil, nil) {
			if c2, ok := v.(*ssa.Call); ok && calleeName(c2.Common()) == "os.Environ" {
				fromEnv = true
			}
		}
		if !fromEnv {
			return
		}
		k, isc := constIntVal(ia.Index)
		if !isc {
			return
		}
		for _, ref := range *ia.Referrers() {
			ld, ok := ref.(*ssa.UnOp)
			if !ok {
				continue
			}
			for _, use := range *ld.Referrers() {
				exemptBash, _ := pcx.Implies(use.Block(), func(lits []Lit) bool {
					return hasLit(lits, func(a ssa.Value, v bool) bool {
						c2, ok := a.(*ssa.Call)
						if !ok || !v || calleeName(c2.Common()) != "strings.HasPrefix" {
							return false
						}
						s, ok := constString(c2.Call.Args[1])
						return ok && strings.HasPrefix(s, "BASH_FUNC_")
					})
				})
				if k == 1 {
					nv++
					okUse := false
					if c2, ok := use.(*ssa.Call); ok && c2.Common().StaticCallee() == esq {
						okUse = true
					}
					if exemptBash {
						okUse = true
					}
					r.check(okUse, fmt.Sprintf("%s:env value use (%s)", relName(rpx), instrKind(use)), use.Pos(), rpx, "environment value is passed to escapeSingleQuote (or is a bash function body)", "environment value reaches the script without single-quote escaping")
				} else if k == 0 {
					// name: allowed in tests; emitted (Sprintf/concat/store) only under MatchString==true or the bash branch
					emit := false
					switch u := use.(type) {
					case *ssa.MakeInterface, *ssa.BinOp:
						emit = true
						if b, ok := u.(*ssa.BinOp); ok && b.Op != token.ADD {
							emit = false
						}
					}
					if !emit {
						continue
					}
					nv++
					matched, _ := pcx.Implies(use.Block(), func(lits []Lit) bool {
						return hasLit(lits, func(a ssa.Value, v bool) bool {
							c2, ok := a.(*ssa.Call)
							return ok && v && calleeName(c2.Common()) == "(*regexp.Regexp).MatchString"
						})
					})
					r.check(matched || exemptBash, fmt.Sprintf("%s:env name emitted (%s)", relName(rpx), instrKind(use)), use.Pos(), rpx, "environment name is written to the script only after the identifier check", "an arbitrary environment name is written to the script")
				}
			}
		}
	})
	r.floor("uses of environment name/value in runProxy", nv, 2)
	r.exempt("BASH_FUNC_*%%", "bash function bodies are exported as function definitions by design (name + body, export -f)")
	c12round2(c, r)
}
