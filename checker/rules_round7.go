package main

import (
	"fmt"
	"go/token"

	"golang.org/x/tools/go/ssa"
)

// Round 7: rules written for the defects the round-7 agents reported on the unchanged tree (D19..) and for
// the round-7 mutants that arrived undetected.

// algoTextChar returns a predicate "v is (derived from) a character of the line" for a function of package algo.
func algoTextChar(l *Loaded, fn *ssa.Function) func(v ssa.Value) bool {
	get := "(*" + modPath + "/src/util.Chars).Get"
	toRunes := "(*" + modPath + "/src/util.Chars).ToRunes"
	a32 := l.Fn("algo", "alloc32")
	carved := map[ssa.Value]bool{}
	eachInstr(fn, func(in ssa.Instruction) {
		if ex, ok := in.(*ssa.Extract); ok && ex.Index == 1 {
			if call, ok := ex.Tuple.(*ssa.Call); ok && call.Common().StaticCallee() == a32 {
				carved[ex] = true
			}
		}
	})
	return func(v ssa.Value) bool {
		for w := range backwardSlice(v, func(*ssa.CallCommon) bool { return true }, nil) {
			if call, ok := w.(*ssa.Call); ok && (calleeName(call.Common()) == get || calleeName(call.Common()) == toRunes) {
				return true
			}
			if u, ok := w.(*ssa.UnOp); ok && u.Op == token.MUL {
				if ia, ok := u.X.(*ssa.IndexAddr); ok && carved[ia.X] {
					return true
				}
			}
		}
		return false
	}
}

// c02r9: the non-ASCII lower-casing step of every matcher is applied to EVERY character when the match is
// case-insensitive — it may be guarded by caseSensitive and by range tests on the character itself (the
// ASCII fast path), never by a classification derived from the character (D19: FuzzyMatchV2 lower-cased
// only characters of class charUpper, i.e. unicode.IsUpper; title-case letters, Roman numerals and circled
// capitals have a lower-case mapping without being "upper", so V2 missed lines that V1, the scorer and the
// exact family match).
func c02r9(c *Ctx, r *Report) {
	l := c.L
	r.rule("C02-R9", "E (sibling agreement of the folding pipelines)", "P1",
		"in package algo, every unicode.To / unicode.ToLower applied to a character of the line is control-dependent only on caseSensitive, on comparisons of that character with constants, and on conditions that do not depend on the character — never on the result of a call that classifies the character",
		"a case-insensitive fuzzy term does not match a line that the other term kinds (and the other algorithm) match: characters with a lower-case mapping that the classifier does not call upper-case are compared unfolded")
	n := 0
	for _, fn := range l.AllFuncs() {
		if fn.Pkg != l.pkg("algo") || fn.Blocks == nil {
			continue
		}
		isText := algoTextChar(l, fn)
		var sites []*ssa.Call
		eachInstr(fn, func(in ssa.Instruction) {
			call, ok := in.(*ssa.Call)
			if !ok {
				return
			}
			switch calleeName(call.Common()) {
			case "unicode.To", "unicode.ToLower":
				arg := call.Call.Args[len(call.Call.Args)-1]
				if isText(arg) {
					sites = append(sites, call)
				}
			}
		})
		if len(sites) == 0 {
			continue
		}
		pc := pathConds(fn)
		for i, site := range sites {
			n++
			key := fmt.Sprintf("%s:non-ASCII lower-casing step #%d", relName(fn), i+1)
			why := ""
			seen := map[ssa.Value]bool{}
			for _, dj := range pc.At(site.Block()) {
				for _, lt := range dj {
					if seen[lt.Atom] {
						continue
					}
					seen[lt.Atom] = true
					for w := range backwardSlice(lt.Atom, func(*ssa.CallCommon) bool { return true }, nil) {
						call, ok := w.(*ssa.Call)
						if !ok {
							continue
						}
						switch calleeName(call.Common()) {
						case "(*" + modPath + "/src/util.Chars).Get", "(*" + modPath + "/src/util.Chars).ToRunes", "(*" + modPath + "/src/util.Chars).Length":
							continue
						}
						for _, a := range call.Call.Args {
							if isText(a) {
								why = fmt.Sprintf("it runs only under the condition %s (%s), which depends on %s of the character", lt.Atom.Name(), l.pos(lt.Atom.Pos()), calleeName(call.Common()))
							}
						}
					}
				}
			}
			r.check(why == "", key, site.Pos(), fn, "guarded by caseSensitive and range tests of the character only", why)
		}
	}
	r.floor("non-ASCII lower-casing steps applied to characters of the line", n, 8)
}
