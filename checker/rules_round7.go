package main

import (
	"fmt"
	"go/token"
	"go/types"
	"regexp/syntax"
	"sort"
	"strings"
	"unicode/utf8"

	"golang.org/x/tools/go/ssa"
)

// Round 7: rules written for the defects the round-7 agents reported on the unchanged tree (D19..) and for
// the round-7 mutants that arrived undetected.

// algoTextChar returns a predicate "v is (derived from) a character of the line" for a function of package algo.
func algoTextChar(l *Loaded, fn *ssa.Function) func(v ssa.Value) bool {
	get := "(*" + modPath + "/src/util.Chars).Get"
	toRunes := "(*" + modPath + "/src/util.Chars).ToRunes"
	a32 := l.Fn("algo", "alloc32")
	carved := map[ssa.Value]bool{}
	eachInstr(fn, func(in ssa.Instruction) {
		if ex, ok := in.(*ssa.Extract); ok && ex.Index == 1 {
			if call, ok := ex.Tuple.(*ssa.Call); ok && call.Common().StaticCallee() == a32 {
				carved[ex] = true
			}
		}
	})
	return func(v ssa.Value) bool {
		for w := range backwardSlice(v, func(*ssa.CallCommon) bool { return true }, nil) {
			if call, ok := w.(*ssa.Call); ok && (calleeName(call.Common()) == get || calleeName(call.Common()) == toRunes) {
				return true
			}
			if u, ok := w.(*ssa.UnOp); ok && u.Op == token.MUL {
				if ia, ok := u.X.(*ssa.IndexAddr); ok && carved[ia.X] {
					return true
				}
			}
		}
		return false
	}
}

// c02r9: the non-ASCII lower-casing step of every matcher is applied to EVERY character when the match is
// case-insensitive — it may be guarded by caseSensitive and by range tests on the character itself (the
// ASCII fast path), never by a classification derived from the character (D19: FuzzyMatchV2 lower-cased
// only characters of class charUpper, i.e. unicode.IsUpper; title-case letters, Roman numerals and circled
// capitals have a lower-case mapping without being "upper", so V2 missed lines that V1, the scorer and the
// exact family match).
func c02r9(c *Ctx, r *Report) {
	l := c.L
	r.rule("C02-R9", "E (sibling agreement of the folding pipelines)", "P1",
		"in package algo, every unicode.To / unicode.ToLower applied to a character of the line is control-dependent only on caseSensitive, on comparisons of that character with constants, and on conditions that do not depend on the character — never on the result of a call that classifies the character",
		"a case-insensitive fuzzy term does not match a line that the other term kinds (and the other algorithm) match: characters with a lower-case mapping that the classifier does not call upper-case are compared unfolded")
	n := 0
	for _, fn := range l.AllFuncs() {
		if fn.Pkg != l.pkg("algo") || fn.Blocks == nil {
			continue
		}
		isText := algoTextChar(l, fn)
		var sites []*ssa.Call
		eachInstr(fn, func(in ssa.Instruction) {
			call, ok := in.(*ssa.Call)
			if !ok {
				return
			}
			switch calleeName(call.Common()) {
			case "unicode.To", "unicode.ToLower":
				arg := call.Call.Args[len(call.Call.Args)-1]
				if isText(arg) {
					sites = append(sites, call)
				}
			}
		})
		if len(sites) == 0 {
			continue
		}
		pc := pathConds(fn)
		for i, site := range sites {
			n++
			key := fmt.Sprintf("%s:non-ASCII lower-casing step #%d", relName(fn), i+1)
			why := ""
			seen := map[ssa.Value]bool{}
			for _, dj := range pc.At(site.Block()) {
				for _, lt := range dj {
					if seen[lt.Atom] {
						continue
					}
					seen[lt.Atom] = true
					for w := range backwardSlice(lt.Atom, func(*ssa.CallCommon) bool { return true }, nil) {
						call, ok := w.(*ssa.Call)
						if !ok {
							continue
						}
						switch calleeName(call.Common()) {
						case "(*" + modPath + "/src/util.Chars).Get", "(*" + modPath + "/src/util.Chars).ToRunes", "(*" + modPath + "/src/util.Chars).Length":
							continue
						}
						for _, a := range call.Call.Args {
							if isText(a) {
								why = fmt.Sprintf("it runs only under the condition %s (%s), which depends on %s of the character", lt.Atom.Name(), l.pos(lt.Atom.Pos()), calleeName(call.Common()))
							}
						}
					}
				}
			}
			r.check(why == "", key, site.Pos(), fn, "guarded by caseSensitive and range tests of the character only", why)
		}
	}
	r.floor("non-ASCII lower-casing steps applied to characters of the line", n, 8)
}

// c13r10: the item builder (the function stored in ChunkList.trans) keeps state across calls — the
// running item index, the header lines still to divert, the ANSI state of the previous line — so every
// call of it has to be serialised. ChunkList.Push calls it under the list mutex; the streaming filter
// has its own mutex (D20: it took that mutex only after the builder had run, and the built-in walker
// pushes from several goroutines).
func c13r10(c *Ctx, r *Report) {
	l := c.L
	r.rule("C13-R10", "A (lock held at every call site)", "P1",
		"every call of a value of type ItemBuilder (the function stored in ChunkList.trans) is made with a write lock held: ChunkList.mutex in Push, the streaming filter's own mutex in the filter's pusher",
		"two walker goroutines run the item builder at once: items get the same ordinal, --header-lines diverts more or fewer records than asked, the carried ANSI state is torn")
	la := analyseLocks(l, map[string]bool{"Terminal": true})
	n := 0
	for _, fn := range l.AllFuncs() {
		if fn.Blocks == nil || fn.Pkg != l.pkg("fzf") {
			continue
		}
		eachInstr(fn, func(in ssa.Instruction) {
			call, ok := in.(*ssa.Call)
			if !ok || call.Common().IsInvoke() {
				return
			}
			// the builder is recognised by its type: a value of the named type ItemBuilder
			nt, ok := call.Common().Value.Type().(*types.Named)
			if !ok || nt.Obj().Name() != "ItemBuilder" || !isModulePkg(nt.Obj().Pkg()) {
				return
			}
			n++
			held := []string{}
			for k, v := range la.sets[fn][in] {
				if v && !strings.HasSuffix(k, "#R") {
					held = append(held, k)
				}
			}
			sort.Strings(held)
			r.check(len(held) > 0, fmt.Sprintf("%s:call of the ItemBuilder", relName(fn)), call.Pos(), fn,
				"the item builder runs under a lock "+strings.Join(held, ","), "the item builder is called with no lock held: it is not serialised against other pushers")
		})
	}
	r.floor("call sites of the item builder", n, 2)
}

// c06r9: the streaming filter never builds the chunk list, so it cannot honour --tail (the code says so in
// a comment next to the Snapshot(opts.Tail) call of the other branch); the decision to stream therefore
// has to look at opts.Tail (D21: it did not, and `--filter --no-sort --tail N` printed matches from the
// whole input).
func c06r9(c *Ctx, r *Report) {
	l := c.L
	r.rule("C06-R9", "C (the decision consults the option)", "P1",
		"in Run, the pusher that bypasses ChunkList.Push (the streaming filter) is created only under a condition that compares Options.Tail with a constant",
		"--filter with --no-sort ignores --tail: records before the last N remain searchable and are printed")
	run := l.Fn("fzf", "Run")
	push := l.Fn("fzf", "(*ChunkList).Push")
	newReader := l.Fn("fzf", "NewReader")
	if run == nil || push == nil || newReader == nil {
		r.unest("anchors", token.NoPos, nil, "anchors Run / ChunkList.Push / NewReader", "cannot resolve")
		return
	}
	n := 0
	pc := pathConds(run)
	eachInstr(run, func(in ssa.Instruction) {
		call, ok := in.(*ssa.Call)
		if !ok || !callIs(call.Common(), newReader) {
			return
		}
		mc, ok := call.Call.Args[0].(*ssa.MakeClosure)
		if !ok {
			return
		}
		pusher := mc.Fn.(*ssa.Function)
		callsPush := false
		eachInstr(pusher, func(i2 ssa.Instruction) {
			if c2, ok := i2.(*ssa.Call); ok && callIs(c2.Common(), push) {
				callsPush = true
			}
		})
		if callsPush {
			return
		}
		n++
		consults := false
		for _, dj := range pc.At(call.Block()) {
			for _, lt := range dj {
				for w := range backwardSlice(lt.Atom, nil, nil) {
					b, ok := w.(*ssa.BinOp)
					if !ok {
						continue
					}
					for _, side := range []ssa.Value{b.X, b.Y} {
						if f, _ := loadedField(side); f != nil && f.Name() == "Tail" {
							consults = true
						}
					}
				}
			}
		}
		r.check(consults, fmt.Sprintf("%s:pusher bypassing ChunkList.Push is excluded under --tail", relName(run)), call.Pos(), run,
			"the condition under which the streaming pusher is created compares Options.Tail", "the streaming pusher is created without looking at Options.Tail: the streamed records are never trimmed to the last N")
	})
	r.floor("pushers that bypass ChunkList.Push", n, 1)
}

// c03r5: exact, boundary, prefix, suffix and equal terms report an occurrence [Start, End) and must score
// THAT occurrence: the Score of every matching Result they return is the value calculateScore computed
// (the same scorer fuzzy V1 uses), not a closed form (D22: EqualMatch returned (16+bonusBoundaryWhite)*len
// + bonusBoundaryWhite, which is the scorer's value only when the first character gets the whitespace
// boundary bonus and no later bonus is larger — false under --scheme=path, whose initial class is the
// delimiter class, and false for lines starting with a non-word character under any scheme).
func c03r5(c *Ctx, r *Report) {
	l := c.L
	r.rule("C03-R5", "B (provenance of the returned score)", "P1",
		"in package algo, every function of type Algo other than FuzzyMatchV2 returns, on each return whose Start is not the constant -1, a Score that is the first result of a calculateScore call",
		"an equal / prefix / suffix / exact term is ranked with a score that is not the score of the occurrence it reports: under --scheme=path a whole-line match ranks below a prefix match of a longer line")
	calc := l.Fn("algo", "calculateScore")
	if calc == nil {
		r.unest("anchors", token.NoPos, nil, "anchor calculateScore", "cannot resolve")
		return
	}
	n := 0
	for _, fn := range l.AllFuncs() {
		if fn.Pkg != l.pkg("algo") || fn.Blocks == nil || fn.Parent() != nil {
			continue
		}
		sig := fn.Signature
		if sig.Results().Len() != 2 {
			continue
		}
		rt, ok := sig.Results().At(0).Type().(*types.Named)
		if !ok || rt.Obj().Name() != "Result" {
			continue
		}
		if fn.Name() == "FuzzyMatchV2" {
			continue // the dynamic programme; its score is the subject of C03-R1/R2 and C05-R9/R10
		}
		k := 0
		eachInstr(fn, func(in ssa.Instruction) {
			ret, ok := in.(*ssa.Return)
			if !ok {
				return
			}
			start, end, score := resultFields(ret.Results[0])
			if start == nil || score == nil || end == nil {
				// a call result forwarded as is (ExactMatchNaive -> exactMatchNaive): the callee is checked
				if call, ok := ret.Results[0].(*ssa.Extract); ok {
					if cc, ok := call.Tuple.(*ssa.Call); ok && cc.Common().StaticCallee() != nil && cc.Common().StaticCallee().Pkg == fn.Pkg {
						return
					}
				}
				k++
				n++
				r.unest(fmt.Sprintf("%s:return #%d", relName(fn), k), ret.Pos(), fn, "the returned Result is a literal whose fields can be read", "cannot resolve the fields of the returned Result")
				return
			}
			if isConstInt(start, -1) {
				return
			}
			if a, ok1 := constIntVal(start); isConstInt(score, 0) && (start == end || ok1 && isConstInt(end, a)) {
				return // the empty pattern: an empty occurrence scores 0
			}
			k++
			n++
			isScorer := func(v ssa.Value) bool {
				if ex, ok := v.(*ssa.Extract); ok && ex.Index == 0 {
					if cc, ok := ex.Tuple.(*ssa.Call); ok && callIs(cc.Common(), calc) {
						return true
					}
				}
				return false
			}
			// the value itself must be the scorer's result, not an expression over it; where the function
			// also serves boundary terms ('foo'), which have a ranking of their own, the edges computed
			// under boundaryCheck are not in the property's list of term kinds and are left alone
			var bc ssa.Value
			for _, p := range fn.Params {
				if p.Name() == "boundaryCheck" {
					bc = p
				}
			}
			fromScorer := isScorer(score)
			if phi, ok := score.(*ssa.Phi); ok {
				fromScorer = true
				pc := pathConds(fn)
				nScorer := 0
				for i, e := range phi.Edges {
					if isScorer(e) {
						nScorer++
						continue
					}
					holds, _ := pc.Implies(phi.Block().Preds[i], func(lits []Lit) bool {
						return hasLit(lits, func(a ssa.Value, v bool) bool { return bc != nil && a == bc && v })
					})
					if !holds {
						fromScorer = false
					}
				}
				if nScorer == 0 {
					fromScorer = false
				}
			}
			r.check(fromScorer, fmt.Sprintf("%s:matching return #%d", relName(fn), k), ret.Pos(), fn,
				"Score is the result of calculateScore over the reported range", "Score is not the value calculateScore computed: a closed form that agrees with the scorer only for some bonus configurations")
		})
	}
	r.floor("matching returns of the non-DP matchers", n, 5)
}

// resultFields resolves the Start (field 0) and Score (field 2) operands of a Result value built by a
// composite literal: a load of a local whose fields are stored once each.
func resultFields(v ssa.Value) (start, end, score ssa.Value) {
	u, ok := v.(*ssa.UnOp)
	if !ok || u.Op != token.MUL {
		return nil, nil, nil
	}
	al, ok := u.X.(*ssa.Alloc)
	if !ok || al.Referrers() == nil {
		return nil, nil, nil
	}
	for _, ref := range *al.Referrers() {
		fa, ok := ref.(*ssa.FieldAddr)
		if !ok || fa.Referrers() == nil {
			continue
		}
		for _, r2 := range *fa.Referrers() {
			if st, ok := r2.(*ssa.Store); ok && st.Addr == ssa.Value(fa) {
				switch fa.Field {
				case 0:
					start = st.Val
				case 1:
					end = st.Val
				case 2:
					score = st.Val
				}
			}
		}
	}
	return
}

// c03r6: Init(scheme) configures the scorer by assigning package-level inputs. A scheme is a complete
// configuration only if every input that SOME scheme assigns is assigned by EVERY successful path through
// Init; otherwise what a scheme means depends on which scheme was initialised before it (D23: "path" set
// delimiterChars and initialCharClass, "default" and "history" left them alone, so default -> path ->
// default scored ',' as an ordinary character and the first character of a line with the delimiter bonus).
func c03r6(c *Ctx, r *Report) {
	l := c.L
	r.rule("C03-R6", "A (must-pass-through: complete configuration)", "P1",
		"in algo.Init, every package-level variable of package algo that is stored on some path is stored on every path from the entry to a return of true",
		"the score of a (line, term) pair under a scheme depends on the scheme initialised before it: a second Init in one process (library use, tests, a re-launched Run) inherits the delimiter set and the initial character class of the previous scheme")
	init := l.Fn("algo", "Init")
	if init == nil {
		r.unest("anchors", token.NoPos, nil, "anchor algo.Init", "cannot resolve")
		return
	}
	stores := map[*ssa.Global]bool{}
	eachInstr(init, func(in ssa.Instruction) {
		if st, ok := in.(*ssa.Store); ok {
			if g, ok := st.Addr.(*ssa.Global); ok && g.Pkg == l.pkg("algo") {
				stores[g] = true
			}
		}
	})
	var gs []*ssa.Global
	for g := range stores {
		gs = append(gs, g)
	}
	sort.Slice(gs, func(i, j int) bool { return gs[i].Name() < gs[j].Name() })
	isOK := func(in ssa.Instruction) bool {
		ret, ok := in.(*ssa.Return)
		if !ok || len(ret.Results) != 1 {
			return false
		}
		if k, ok := ret.Results[0].(*ssa.Const); ok && k.Value != nil && k.Value.String() == "false" {
			return false
		}
		return true
	}
	entry := init.Blocks[0].Instrs[0]
	for _, g := range gs {
		g := g
		isStore := func(in ssa.Instruction) bool {
			st, ok := in.(*ssa.Store)
			return ok && st.Addr == ssa.Value(g)
		}
		var esc ssa.Instruction
		if isStore(entry) {
			esc = nil
		} else {
			esc = pathAvoiding(entry, isOK, isStore, nil)
		}
		where := ""
		if esc != nil {
			where = l.pos(esc.Pos())
		}
		r.check(esc == nil, fmt.Sprintf("%s:%s assigned on every successful path", relName(init), g.Name()), init.Pos(), init,
			"every path to a successful return stores it", fmt.Sprintf("a path reaches the successful return at %s without assigning %s: that scheme inherits the value of the scheme initialised before", where, g.Name()))
	}
	r.floor("scoring inputs assigned by Init", len(gs), 4)
}

// eqConstLits collects, for a block, the constants K such that every disjunct of the block's path
// condition contains a positive literal `x == K` (x any value, K an integer constant). ok is false when
// some disjunct has no such literal.
func eqConstLits(pc *PathConds, b *ssa.BasicBlock) (ks map[int64]bool, ok bool) {
	ks = map[int64]bool{}
	ds := pc.At(b)
	if len(ds) == 0 {
		return ks, false
	}
	for _, dj := range ds {
		found := false
		for _, lt := range dj {
			bo, isBin := lt.Atom.(*ssa.BinOp)
			if !isBin {
				continue
			}
			if !(bo.Op == token.EQL && lt.Val || bo.Op == token.NEQ && !lt.Val) {
				continue
			}
			for _, side := range []ssa.Value{bo.X, bo.Y} {
				if k, isK := constIntVal(side); isK {
					ks[k] = true
					found = true
				}
			}
		}
		if !found {
			return ks, false
		}
	}
	return ks, true
}

// c18r8: a request that makes the render goroutine leave the session (it calls the exit closure and
// returns) must also stop the event loop, in the very call of `req` that posts it. Otherwise the loop keeps
// consuming keys until the render goroutine gets round to exit(), and whatever those keys do to the query is
// what gets printed and stored in the history (D24: req cleared `looping` for reqClose and reqQuit only;
// after print-query / accept-or-print-query typed-ahead characters were appended to the query that was
// printed and written to the history file).
func c18r8(c *Ctx, r *Report) {
	l := c.L
	r.rule("C18-R8", "E (agreement of two case lists over one enumeration)", "P1",
		"in Terminal.Loop, every request type under which the render goroutine calls exit(...) is a request type for which the req closure clears `looping`",
		"keys that arrive right after the submitting key (type-ahead, paste) still edit the query: print-query prints, and the history stores, a query that was never submitted")
	loop := l.Fn("fzf", "(*Terminal).Loop")
	if loop == nil {
		r.unest("anchors", token.NoPos, nil, "anchor Terminal.Loop", "cannot resolve")
		return
	}
	reqName := func(k int64) string {
		sc := l.pkg("fzf").Pkg.Scope()
		for _, nm := range sc.Names() {
			if !strings.HasPrefix(nm, "req") {
				continue
			}
			if cst, ok := sc.Lookup(nm).(*types.Const); ok {
				if v, ok := constInt(cst); ok && v == k {
					return nm
				}
			}
		}
		return fmt.Sprintf("request %d", k)
	}
	namedVar := func(v ssa.Value, name string) bool {
		if u, ok := v.(*ssa.UnOp); ok && u.Op == token.MUL {
			v = u.X
		}
		switch x := v.(type) {
		case *ssa.FreeVar:
			return x.Name() == name
		case *ssa.Alloc:
			return x.Comment == name
		}
		return false
	}
	isExitClosure := func(v ssa.Value) bool {
		sig, ok := v.Type().Underlying().(*types.Signature)
		if !ok || sig.Params().Len() != 1 || sig.Results().Len() != 0 {
			return false
		}
		inner, ok := sig.Params().At(0).Type().Underlying().(*types.Signature)
		if !ok || inner.Params().Len() != 0 || inner.Results().Len() != 1 {
			return false
		}
		bt, ok := inner.Results().At(0).Type().Underlying().(*types.Basic)
		return ok && bt.Kind() == types.Int
	}
	cellOfAddr := func(f *ssa.Function, a ssa.Value) *ssa.Alloc {
		switch x := a.(type) {
		case *ssa.Alloc:
			return x
		case *ssa.FreeVar:
			return freeVarAlloc(f, x)
		}
		return nil
	}
	// boolean variables of Loop that a loop header tests
	loopFlag := map[*ssa.Alloc]bool{}
	for _, lp := range natLoops(loop) {
		iff, ok := lp.hdr.Instrs[len(lp.hdr.Instrs)-1].(*ssa.If)
		if !ok {
			continue
		}
		if u, ok := iff.Cond.(*ssa.UnOp); ok && u.Op == token.MUL {
			if al, ok := u.X.(*ssa.Alloc); ok {
				loopFlag[al] = true
			}
		}
	}
	_ = namedVar
	exits := map[int64]token.Pos{}
	var stops map[int64]bool
	nStop := 0
	for _, fn := range withClosures(loop) {
		var pc *PathConds
		eachInstr(fn, func(in ssa.Instruction) {
			switch x := in.(type) {
			case *ssa.Call:
				// the session-ending closure is recognised by its type: it takes the function that yields the exit code
				if x.Common().IsInvoke() || !isExitClosure(x.Common().Value) {
					return
				}
				if pc == nil {
					pc = pathConds(fn)
				}
				ks, ok := eqConstLits(pc, x.Block())
				if !ok {
					r.unest(fmt.Sprintf("%s:exit call at a request case", relName(fn)), x.Pos(), fn, "the exit call sits under a case of the request switch", "cannot relate this exit call to a request type")
					return
				}
				for k := range ks {
					exits[k] = x.Pos()
				}
			case *ssa.Store:
				// the event loop's flag is recognised by its use: the variable a loop header of Loop tests
				if !loopFlag[cellOfAddr(fn, x.Addr)] || cellOfAddr(fn, x.Addr) == nil {
					return
				}
				if k, ok := x.Val.(*ssa.Const); !ok || k.Value == nil || k.Value.String() != "false" {
					return
				}
				if pc == nil {
					pc = pathConds(fn)
				}
				ks, ok := eqConstLits(pc, x.Block())
				if !ok {
					return // an unconditional stop elsewhere in the loop (e.g. on a fatal read error)
				}
				nStop++
				if stops == nil {
					stops = map[int64]bool{}
				}
				for k := range ks {
					stops[k] = true
				}
			}
		})
	}
	var ks []int64
	for k := range exits {
		ks = append(ks, k)
	}
	sort.Slice(ks, func(i, j int) bool { return ks[i] < ks[j] })
	for _, k := range ks {
		r.check(stops[k], fmt.Sprintf("%s:%s ends the session and stops the event loop", relName(loop), reqName(k)), exits[k], loop,
			"req clears `looping` for this request", "the render goroutine exits on this request but req does not clear `looping` for it: the event loop keeps applying keys to the query until exit() runs")
	}
	r.floor("request types that end the session", len(ks), 5)
	r.floor("conditional stores of looping=false keyed by a request type", nStop, 1)
}

// c14r10: an integer division or remainder whose divisor is a DIFFERENCE a - b of two run-time quantities
// panics when the two are equal. The code has two such divisors; each must be excluded from being zero by a
// comparison of a with b (or of the difference with a constant) on every path to the division (D25:
// scrollPreviewTo computed x % (numLines - headerLines) behind `scrollable` only, which is also true for a
// wrapped line that runs past the window: --preview-window cycle,wrap,~1 and a one-line preview divide by
// zero on the first preview scroll, and the panic leaves the terminal raw).
func c14r10(c *Ctx, r *Report) {
	l := c.L
	r.rule("C14-R10", "A (guard dominates the partial operation)", "P1",
		"in packages fzf, tui and util, every integer `/` or `%` whose divisor is a subtraction with a non-constant operand is reached only on paths whose condition compares the two operands (or the difference) so that equality is excluded",
		"integer divide by zero: fzf panics in the event loop and the terminal is left in raw mode on the alternate screen with mouse reporting on")
	n := 0
	for _, fn := range l.AllFuncs() {
		if fn.Blocks == nil || fn.Pkg == nil || !isModulePkg(fn.Pkg.Pkg) {
			continue
		}
		var pc *PathConds
		k := 0
		eachInstr(fn, func(in ssa.Instruction) {
			bo, ok := in.(*ssa.BinOp)
			if !ok || (bo.Op != token.QUO && bo.Op != token.REM) {
				return
			}
			if bt, ok := bo.Type().Underlying().(*types.Basic); !ok || bt.Info()&types.IsInteger == 0 {
				return
			}
			d, ok := bo.Y.(*ssa.BinOp)
			if !ok || d.Op != token.SUB {
				return
			}
			if _, isK := d.X.(*ssa.Const); isK {
				if _, isK2 := d.Y.(*ssa.Const); isK2 {
					return
				}
			}
			n++
			k++
			if pc == nil {
				pc = pathConds(fn)
			}
			excl := func(op token.Token, val bool, swapped bool) bool {
				// literal (p op q) == val with (p,q) = (a,b), or (b,a) when swapped: does it exclude a == b?
				switch op {
				case token.LSS, token.GTR:
					return val
				case token.LEQ, token.GEQ:
					return !val
				case token.NEQ:
					return val
				case token.EQL:
					return !val
				}
				return false
			}
			exclConst := func(op token.Token, val bool, kk int64) bool {
				// literal (D op kk) == val: does it exclude D == 0?
				holds0 := false
				switch op {
				case token.LSS:
					holds0 = 0 < kk
				case token.LEQ:
					holds0 = 0 <= kk
				case token.GTR:
					holds0 = 0 > kk
				case token.GEQ:
					holds0 = 0 >= kk
				case token.EQL:
					holds0 = kk == 0
				case token.NEQ:
					holds0 = kk != 0
				default:
					return false
				}
				return holds0 != val
			}
			guarded, reach := pc.Implies(bo.Block(), func(lits []Lit) bool {
				for _, lt := range lits {
					cmp, ok := lt.Atom.(*ssa.BinOp)
					if !ok {
						continue
					}
					if sameExpr(cmp.X, d.X, 0) && sameExpr(cmp.Y, d.Y, 0) && excl(cmp.Op, lt.Val, false) {
						return true
					}
					if sameExpr(cmp.X, d.Y, 0) && sameExpr(cmp.Y, d.X, 0) && excl(cmp.Op, lt.Val, true) {
						return true
					}
					if kk, isK := constIntVal(cmp.Y); isK && sameExpr(cmp.X, d, 0) && exclConst(cmp.Op, lt.Val, kk) {
						return true
					}
				}
				return false
			})
			if !reach {
				guarded = true
			}
			r.check(guarded, fmt.Sprintf("%s:divisor-difference #%d is not zero", relName(fn), k), bo.Pos(), fn,
				"a comparison on every path excludes a zero divisor", fmt.Sprintf("the divisor %s - %s can be zero here: no comparison of the two operands on the way to this %s", d.X.Name(), d.Y.Name(), bo.Op))
		})
	}
	r.floor("divisions by a difference", n, 2)
}

// c09r9: util.Constrain(v, lo, hi) returns hi when hi < lo. Where the list cursor is clamped to the result
// list the upper bound is Length()-1, which is -1 for an empty list; the clamp in constrain() wraps it in
// util.Max(0, ·), its sibling in vset did not (D26: any navigation action on an empty result list left
// cy == -1, currentItem() then reports no current line even after the list has filled again, and accept
// prints nothing and exits 1 until the renderer happens to repair the cursor).
func c09r9(c *Ctx, r *Report) {
	l := c.L
	r.rule("C09-R9", "E (sibling agreement of the two clamps)", "P1",
		"every util.Constrain result stored into Terminal.cy has the constant 0 as its lower bound and an upper bound that cannot be below it: a util.Max with a constant 0 operand, or a non-negative constant",
		"the list cursor becomes -1 on an empty list and stays there when results arrive: no current line, accept prints nothing and exits 1")
	fCy := l.Field("fzf", "Terminal", "cy")
	if fCy == nil {
		r.unest("anchors", token.NoPos, nil, "anchor Terminal.cy", "cannot resolve")
		return
	}
	n := 0
	for _, fn := range l.AllFuncs() {
		if fn.Blocks == nil || fn.Pkg != l.pkg("fzf") {
			continue
		}
		k := 0
		eachInstr(fn, func(in ssa.Instruction) {
			st, ok := in.(*ssa.Store)
			if !ok {
				return
			}
			if fld, _ := fieldOf(st.Addr); fld != fCy {
				return
			}
			call, ok := st.Val.(*ssa.Call)
			if !ok || calleeName(call.Common()) != modPath+"/src/util.Constrain" {
				return
			}
			n++
			k++
			lo, hi := call.Call.Args[1], call.Call.Args[2]
			okHi := false
			if kk, isK := constIntVal(hi); isK && kk >= 0 {
				okHi = true
			}
			if mc, isCall := hi.(*ssa.Call); isCall && calleeName(mc.Common()) == modPath+"/src/util.Max" {
				for _, a := range mc.Call.Args {
					if isConstInt(a, 0) {
						okHi = true
					}
				}
			}
			why := ""
			switch {
			case !isConstInt(lo, 0):
				why = "the lower bound is not the constant 0"
			case !okHi:
				why = "the upper bound can be -1 (empty list) and Constrain returns the upper bound when it is below the lower one"
			}
			r.check(why == "", fmt.Sprintf("%s:clamp of the list cursor #%d", relName(fn), k), st.Pos(), fn, "clamped to [0, max(0, n-1)]", why)
		})
	}
	r.floor("clamps stored into Terminal.cy", n, 2)
}

type natLoop struct {
	hdr  *ssa.BasicBlock
	body map[*ssa.BasicBlock]bool
}

// natLoops returns the natural loops of fn: header h with a back edge p->h (h dominates p); the body is
// the set of blocks that reach p without passing h.
func natLoops(fn *ssa.Function) []natLoop {
	var loops []natLoop
	for _, h := range fn.Blocks {
		body := map[*ssa.BasicBlock]bool{}
		for _, p := range h.Preds {
			if !h.Dominates(p) {
				continue
			}
			work := []*ssa.BasicBlock{p}
			body[h] = true
			for len(work) > 0 {
				x := work[len(work)-1]
				work = work[:len(work)-1]
				if body[x] {
					continue
				}
				body[x] = true
				work = append(work, x.Preds...)
			}
		}
		if len(body) > 0 {
			loops = append(loops, natLoop{h, body})
		}
	}
	return loops
}

// c17r13: option parsers that loop over the tokens of an argument produce an error per token. An error
// produced in one iteration must be examined (tested against nil, or returned) before the next iteration can
// replace it; carrying it in a variable that the next token simply overwrites forgets it (D27:
// parseLabelPosition assigned `opts.column, err = atoi(token)` for every token and returned the last err, so
// --border-label-pos=foo:3 was accepted).
func c17r13(c *Ctx, r *Report) {
	l := c.L
	r.rule("C17-R13", "A (error discipline across loop iterations)", "P1",
		"in the option-parsing functions (package fzf, options.go), an error value produced by a call inside a loop is either not carried into the next iteration, or every path from the call to the loop header passes a test of that error (or of a variable holding it) or a return",
		"an invalid token followed by a valid one is accepted silently: the argument is neither accepted as documented nor rejected")
	n, carriedN := 0, 0
	for _, fn := range l.AllFuncs() {
		if fn.Blocks == nil || fn.Pkg != l.pkg("fzf") {
			continue
		}
		if !strings.HasSuffix(l.Fset.Position(fn.Pos()).Filename, "options.go") {
			continue
		}
		loops := natLoops(fn)
		if len(loops) == 0 {
			continue
		}
		k := 0
		eachInstr(fn, func(in ssa.Instruction) {
			var e ssa.Value
			at := in.Pos()
			switch x := in.(type) {
			case *ssa.Extract:
				if cl, ok := x.Tuple.(*ssa.Call); ok && isErrorType(x.Type()) {
					e = x
					at = cl.Pos()
				}
			case *ssa.Call:
				if isErrorType(x.Type()) {
					e = x
				}
			}
			if e == nil {
				return
			}
			// innermost loop containing the definition
			var lp *natLoop
			for i := range loops {
				if loops[i].body[in.Block()] && (lp == nil || len(loops[i].body) < len(lp.body)) {
					lp = &loops[i]
				}
			}
			if lp == nil {
				return
			}
			n++
			k++
			// the web of values that hold e: e and the phis it flows into
			web := map[ssa.Value]bool{}
			var grow func(v ssa.Value)
			grow = func(v ssa.Value) {
				if web[v] {
					return
				}
				web[v] = true
				if v.Referrers() == nil {
					return
				}
				for _, ref := range *v.Referrers() {
					if p, ok := ref.(*ssa.Phi); ok {
						grow(p)
					}
				}
			}
			grow(e)
			carried := false
			for v := range web {
				if p, ok := v.(*ssa.Phi); ok && p.Block() == lp.hdr {
					carried = true
				}
			}
			key := fmt.Sprintf("%s:error of call #%d in a loop", relName(fn), k)
			if !carried {
				r.ok(key, at, fn, "not carried into the next iteration")
				return
			}
			carriedN++
			tests := func(i2 ssa.Instruction) bool {
				switch y := i2.(type) {
				case *ssa.Return:
					return true
				case *ssa.If:
					for w := range backwardSlice(y.Cond, nil, nil) {
						if web[w] {
							return true
						}
					}
				}
				return false
			}
			isHdr := func(i2 ssa.Instruction) bool {
				return i2.Block() == lp.hdr && i2 == lp.hdr.Instrs[0]
			}
			esc := pathAvoiding(in, isHdr, tests, func(from, to *ssa.BasicBlock) bool { return lp.body[to] })
			r.check(esc == nil, key, at, fn, "carried into the next iteration only after it was tested",
				"the error is carried to the next iteration of the loop without having been tested: the next token's result overwrites it")
		})
	}
	r.floor("error values produced inside loops of option parsers", n, 100)
	r.info("carried", token.NoPos, nil, fmt.Sprintf("%d of them are carried across iterations", carriedN))
}

// c17r14: option parsing edits the theme in place (--style sets Theme.Gutter, --color edits single
// entries). Options.Theme therefore has to be a private copy: storing one of the shared package-level
// themes of package tui makes those edits permanent for the process, and a later option that selects the same
// base theme no longer resets it (D28: --no-256 stored tui.Default16 itself, so
// `--no-256 --style=minimal --no-256` kept the gutter of --style=minimal).
func c17r14(c *Ctx, r *Report) {
	l := c.L
	r.rule("C17-R14", "F (alias of shared storage)", "P1",
		"every value stored into Options.Theme is the result of a call (a constructor or dupeTheme), never the load of a package-level variable",
		"a later occurrence of an option does not override an earlier one: the base theme it selects still carries the edits made through the alias")
	fTheme := l.Field("fzf", "Options", "Theme")
	if fTheme == nil {
		r.unest("anchors", token.NoPos, nil, "anchor Options.Theme", "cannot resolve")
		return
	}
	n := 0
	for _, fn := range l.AllFuncs() {
		if fn.Blocks == nil || fn.Pkg != l.pkg("fzf") {
			continue
		}
		k := 0
		eachInstr(fn, func(in ssa.Instruction) {
			st, ok := in.(*ssa.Store)
			if !ok {
				return
			}
			if fld, _ := fieldOf(st.Addr); fld != fTheme {
				return
			}
			n++
			k++
			shared := ""
			for w := range backwardSlice(st.Val, nil, nil) {
				if u, ok := w.(*ssa.UnOp); ok && u.Op == token.MUL {
					if g, ok := u.X.(*ssa.Global); ok {
						shared = g.Name()
					}
				}
			}
			r.check(shared == "", fmt.Sprintf("%s:store #%d into Options.Theme", relName(fn), k), st.Pos(), fn, "a private copy is stored",
				fmt.Sprintf("the shared package-level theme %s itself is stored: later in-place edits (--style, --color) modify it for the rest of the process", shared))
		})
	}
	r.floor("stores into Options.Theme", n, 4)
}

// c07r7: with --tmux (and the Windows/mintty proxy) fzf runs itself in a popup and relays the child's output
// from a FIFO in a goroutine. The relay must be joined before runProxy returns: main exits as soon as it
// gets the exit code, and whatever the goroutine has not copied yet is lost (D29: nothing
// waited for the goroutine; with a consumer slower than the producer the last ~64 KB of a large
// multi-selection are dropped and the exit status is still 0).
func c07r7(c *Ctx, r *Report) {
	l := c.L
	r.rule("C07-R7", "A (must-pass-through: join before return)", "P1",
		"in runProxy, for the goroutine that relays the popup's output (its closure calls withOutputPipe), every path from the call of cmd.Run to the return of ExitOk passes a join on that goroutine: a receive from a channel bound to the closure, or Wait on a WaitGroup bound to it; and the join is reached only where cmd.Run returned nil",
		"under --tmux the tail of the output (the last selected records) is lost and the last printed record may be cut in the middle, with exit status 0")
	rp := l.Fn("fzf", "runProxy")
	wop := l.Fn("fzf", "withOutputPipe")
	if rp == nil || wop == nil {
		r.unest("anchors", token.NoPos, nil, "anchors runProxy / withOutputPipe", "cannot resolve")
		return
	}
	var relay *ssa.Go
	eachInstr(rp, func(in ssa.Instruction) {
		g, ok := in.(*ssa.Go)
		if !ok {
			return
		}
		mc, ok := g.Call.Value.(*ssa.MakeClosure)
		if !ok {
			return
		}
		for _, f := range withClosures(mc.Fn.(*ssa.Function)) {
			eachInstr(f, func(i2 ssa.Instruction) {
				if c2, ok := i2.(*ssa.Call); ok && callIs(c2.Common(), wop) {
					relay = g
				}
			})
		}
	})
	var run ssa.Instruction
	eachInstr(rp, func(in ssa.Instruction) {
		if c2, ok := in.(*ssa.Call); ok && calleeName(c2.Common()) == "(*os/exec.Cmd).Run" {
			run = in
		}
	})
	if relay == nil || run == nil {
		r.unest("anchors", token.NoPos, rp, "the relay goroutine and the cmd.Run call in runProxy", "cannot find them")
		return
	}
	bound := map[ssa.Value]bool{}
	for _, b := range relay.Call.Value.(*ssa.MakeClosure).Bindings {
		bound[b] = true
	}
	isJoin := func(in ssa.Instruction) bool {
		switch x := in.(type) {
		case *ssa.UnOp:
			if x.Op != token.ARROW {
				return false
			}
			for w := range backwardSlice(x.X, nil, nil) {
				if bound[w] {
					return true
				}
			}
		case *ssa.Call:
			if calleeName(x.Common()) == "(*sync.WaitGroup).Wait" {
				for w := range backwardSlice(x.Call.Args[0], nil, nil) {
					if bound[w] {
						return true
					}
				}
			}
		}
		return false
	}
	// the successful return: the exit code is the constant ExitOk. (After a failed command the FIFO may
	// never have been opened by a writer, and waiting for the relay would block for ever.)
	isRet := func(in ssa.Instruction) bool {
		ret, ok := in.(*ssa.Return)
		return ok && len(ret.Results) == 2 && isConstInt(retResult(ret, 0), 0)
	}
	nOK := 0
	eachInstr(rp, func(in ssa.Instruction) {
		if isRet(in) {
			nOK++
		}
	})
	r.floor("returns of ExitOk in runProxy", nOK, 1)
	// ... and the join itself is reached only after a command that ran: if cmd.Run returned an error (the
	// command could not be started, or failed before opening the pipe) nobody will ever open the FIFO and the
	// relay never finishes — waiting for it would hang (D42: that is what the first version of the D29 repair
	// did when tmux was missing from PATH)
	pcR := pathConds(rp)
	var runErr ssa.Value
	if rv, ok := run.(ssa.Value); ok {
		runErr = rv
	}
	eachInstr(rp, func(in ssa.Instruction) {
		if !isJoin(in) || runErr == nil {
			return
		}
		holds, reach := pcR.Implies(in.Block(), func(lits []Lit) bool {
			return hasLit(lits, func(a ssa.Value, v bool) bool {
				b, ok := a.(*ssa.BinOp)
				if !ok || b.X != runErr {
					return false
				}
				k, isK := b.Y.(*ssa.Const)
				return isK && k.IsNil() && (b.Op == token.NEQ && !v || b.Op == token.EQL && v)
			})
		})
		// ... or after the relay itself has reported that the pipe was opened: the join is dominated by a
		// select that receives from a channel which the relay goroutine closes (D75: a session that ends with
		// status 1 has printed --print-query / --expect lines; they were lost when stdout was read slowly)
		viaOpened := false
		eachInstr(rp, func(i2 ssa.Instruction) {
			sel, ok := i2.(*ssa.Select)
			if !ok || !dominates(sel, in) {
				return
			}
			for _, st := range sel.States {
				if st.Dir != types.RecvOnly {
					continue
				}
				for _, g := range withClosures(rp) {
					if g == rp {
						continue
					}
					eachInstr(g, func(i3 ssa.Instruction) {
						if c3, ok := i3.(*ssa.Call); ok {
							if b, isB := c3.Common().Value.(*ssa.Builtin); isB && b.Name() == "close" && len(c3.Call.Args) == 1 {
								if samePath(c3.Call.Args[0], st.Chan, 0) || cellRoot(stripLoad(c3.Call.Args[0])) == cellRoot(stripLoad(st.Chan)) {
									viaOpened = true
								}
							}
						}
					})
				}
			}
		})
		r.check(holds && reach || viaOpened, fmt.Sprintf("%s:the relay is awaited only after a command that ran", relName(rp)), in.Pos(), rp,
			"the join is reached only where cmd.Run returned nil, or after the relay reported that the pipe was opened", "the join can be reached after cmd.Run failed without knowing that the pipe was opened: if it never is, fzf hangs")
	})
	// D75: the exit status of the popup's fzf (1: nothing accepted, 130: aborted) is returned only after the
	// conditional join above
	nCode := 0
	// the places where the exit status becomes the result: plain returns, or (the function has deferred calls)
	// the stores into the result variable that precede the jump to the common return
	type resultSite struct {
		at  ssa.Instruction
		val ssa.Value
	}
	var sites []resultSite
	eachInstr(rp, func(in ssa.Instruction) {
		ret, ok := in.(*ssa.Return)
		if !ok || len(ret.Results) != 2 {
			return
		}
		if u, isLoad := ret.Results[0].(*ssa.UnOp); isLoad && u.Op == token.MUL {
			if al, isAlloc := u.X.(*ssa.Alloc); isAlloc {
				for _, st := range storesToAlloc(al) {
					sites = append(sites, resultSite{st, st.Val})
				}
				return
			}
		}
		sites = append(sites, resultSite{ret, ret.Results[0]})
	})
	for _, site := range sites {
		isCode := false
		for w := range backwardSlice(site.val, func(*ssa.CallCommon) bool { return true }, func(x ssa.Value) bool { _, isAlloc := x.(*ssa.Alloc); return isAlloc }) {
			if c2, ok := w.(*ssa.Call); ok && strings.HasSuffix(calleeName(c2.Common()), ").ExitCode") {
				isCode = true
			}
		}
		if !isCode {
			continue
		}
		nCode++
		guarded := false
		eachInstr(rp, func(i2 ssa.Instruction) {
			if sel, ok := i2.(*ssa.Select); ok && dominates(sel, site.at) {
				guarded = true
			}
		})
		r.check(guarded, fmt.Sprintf("%s:the popup's exit status is returned after the conditional join", relName(rp)), site.at.Pos(), rp,
			"a select on the relay's `opened` signal precedes the return", "the popup's own exit status (1, 130) is returned without giving the output relay a chance: --print-query / --expect lines of a session that accepted nothing can be lost")
	}
	r.floor("returns of the popup's exit status in runProxy", nCode, 1)
	esc := pathAvoiding(run, isRet, isJoin, nil)
	where := ""
	if esc != nil {
		where = l.pos(esc.Pos())
	}
	r.check(esc == nil, fmt.Sprintf("%s:output relay goroutine is joined", relName(rp)), relay.Pos(), rp,
		"the successful return after cmd.Run waits for the relay", fmt.Sprintf("the return at %s is reached after cmd.Run without waiting for the goroutine that copies the popup's output: the process exits with output still in the FIFO", where))
}

// c08r15: the terminal posts one searchRequest per loop iteration into the coordinator's mailbox slot
// EvtSearchNew. The slot holds one value, and three fields of the request are increments that exist only in
// the iteration that produced them (denylist: the items excluded in this iteration; command: the reload
// asked for; nth: the new field selection) plus the `changed` flag. Overwriting a request the coordinator has
// not taken yet loses them for good (D30: EventBox.Set overwrote; while input is loading the coordinator
// sleeps up to 100 ms per round, so an exclude, a reload or a change-nth followed within that time by any
// other request never took effect). The post therefore has to be a read-modify-write of the slot that folds
// the pending request's increments into the new one.
func c08r15(c *Ctx, r *Report) {
	l := c.L
	r.rule("C08-R15", "D (read-modify-write of the mailbox slot) + E (field census)", "P1",
		"no searchRequest is handed to the overwriting EventBox.Set; every post goes through EventBox.Update with a callback whose result depends on the pending value it is given; and the function that folds a pending request into a new one reads the pending request's changed, nth, command and denylist fields",
		"request coalescing is observable: an excluded item stays listed, a reload never happens, a change-nth is ignored, when another request follows before the coordinator wakes up")
	set := l.Fn("util", "(*EventBox).Set")
	upd := l.Fn("util", "(*EventBox).Update")
	if set == nil {
		r.unest("anchors", token.NoPos, nil, "anchor EventBox.Set", "cannot resolve")
		return
	}
	isReq := func(v ssa.Value) bool {
		mi, ok := v.(*ssa.MakeInterface)
		if !ok {
			return false
		}
		n, ok := mi.X.Type().(*types.Named)
		return ok && n.Obj().Name() == "searchRequest"
	}
	nPost := 0
	var fold *ssa.Function
	foldArg := 0
	foldWanted := false
	for _, fn := range l.AllFuncs() {
		if fn.Blocks == nil || fn.Pkg == nil || !isModulePkg(fn.Pkg.Pkg) {
			continue
		}
		eachInstr(fn, func(in ssa.Instruction) {
			call, ok := in.(*ssa.Call)
			if !ok {
				return
			}
			switch {
			case callIs(call.Common(), set) && len(call.Call.Args) == 3 && isReq(call.Call.Args[2]):
				nPost++
				r.bad(fmt.Sprintf("%s:post of a searchRequest", relName(rootFn(fn))), call.Pos(), fn, "posted through the merging primitive",
					"a searchRequest is posted with EventBox.Set, which overwrites a request the coordinator has not taken yet: its denylist / reload command / nth are lost")
			case upd != nil && callIs(call.Common(), upd) && len(call.Call.Args) == 3:
				mc, ok := call.Call.Args[2].(*ssa.MakeClosure)
				if !ok {
					return
				}
				cb := mc.Fn.(*ssa.Function)
				posts := false
				uses := false
				eachInstr(cb, func(i2 ssa.Instruction) {
					ret, ok := i2.(*ssa.Return)
					if !ok || len(ret.Results) != 1 {
						return
					}
					rv := retResult(ret, 0)
					if isReq(rv) {
						posts = true
					}
					for w := range backwardSlice(rv, func(*ssa.CallCommon) bool { return true }, nil) {
						if w == ssa.Value(cb.Params[0]) {
							uses = true
						}
					}
				})
				if !posts {
					return
				}
				nPost++
				foldWanted = true
				eachInstr(cb, func(i2 ssa.Instruction) {
					c2, ok := i2.(*ssa.Call)
					if !ok || c2.Common().StaticCallee() == nil || c2.Common().StaticCallee().Pkg == nil || !isModulePkg(c2.Common().StaticCallee().Pkg.Pkg) {
						return
					}
					for ai, a := range c2.Call.Args {
						n, isN := a.Type().(*types.Named)
						if !isN || n.Obj().Name() != "searchRequest" {
							continue
						}
						for w := range backwardSlice(a, nil, nil) {
							if w == ssa.Value(cb.Params[0]) {
								fold, foldArg = c2.Common().StaticCallee(), ai
							}
						}
					}
				})
				r.check(uses, fmt.Sprintf("%s:post of a searchRequest", relName(rootFn(fn))), call.Pos(), fn, "the posted value is computed from the pending one",
					"the callback ignores the pending request: it is overwritten as with Set")
			}
		})
	}
	r.floor("posts of a searchRequest", nPost, 1)
	// the fold reads every increment of the pending request; the fold is the module function the callback
	// hands the pending request to
	if fold == nil {
		if nPost > 0 && foldWanted {
			r.unest("fold", token.NoPos, nil, "the function that folds a pending searchRequest into a new one", "the callback does not pass the pending request to a function of the module")
		}
		return
	}
	merge := fold
	read := map[string]bool{}
	pending := merge.Params[foldArg]
	eachInstr(merge, func(in ssa.Instruction) {
		switch x := in.(type) {
		case *ssa.Field:
			if x.X == ssa.Value(pending) {
				read[x.X.Type().Underlying().(*types.Struct).Field(x.Field).Name()] = true
			}
		case *ssa.FieldAddr:
			// the parameter spilled to a local
			if al, ok := x.X.(*ssa.Alloc); ok && al.Comment == pending.Name() {
				read[deref(x.X.Type()).Underlying().(*types.Struct).Field(x.Field).Name()] = true
			}
		}
	})
	for _, f := range []string{"changed", "nth", "command", "denylist"} {
		r.check(read[f], fmt.Sprintf("%s:pending.%s is folded in", relName(merge), f), merge.Pos(), merge, "the pending request's "+f+" is read", "the pending request's "+f+" is dropped when a newer request replaces it")
	}
}

// builderCells returns the variables of Run that the item-builder closures (the functions handed to
// NewChunkList, and the closures they call) store into: the state the builders keep from one record to the next.
func builderCells(l *Loaded) (run *ssa.Function, cells map[*ssa.Alloc][]*ssa.Store, builders []*ssa.Function) {
	run = l.Fn("fzf", "Run")
	ncl := l.Fn("fzf", "NewChunkList")
	cells = map[*ssa.Alloc][]*ssa.Store{}
	if run == nil || ncl == nil {
		return
	}
	seen := map[*ssa.Function]bool{}
	var add func(f *ssa.Function)
	add = func(f *ssa.Function) {
		if f == nil || seen[f] || rootFn(f) != run {
			return
		}
		seen[f] = true
		builders = append(builders, f)
		eachInstr(f, func(in ssa.Instruction) {
			call, ok := in.(*ssa.Call)
			if !ok {
				return
			}
			// closures of Run called through a captured variable (ansiProcessor)
			v := call.Common().Value
			if u, ok := v.(*ssa.UnOp); ok && u.Op == token.MUL {
				if fv, ok := u.X.(*ssa.FreeVar); ok {
					if al := freeVarAlloc(f, fv); al != nil {
						for _, st := range storesToAlloc(al) {
							if mc, ok := st.Val.(*ssa.MakeClosure); ok {
								add(mc.Fn.(*ssa.Function))
							}
						}
					}
				}
			}
		})
	}
	eachInstr(run, func(in ssa.Instruction) {
		if call, ok := in.(*ssa.Call); ok && callIs(call.Common(), ncl) {
			a := call.Call.Args[1]
			if ct, ok := a.(*ssa.ChangeType); ok {
				a = ct.X // the literal converted to the named type ItemBuilder
			}
			if mc, ok := a.(*ssa.MakeClosure); ok {
				add(mc.Fn.(*ssa.Function))
			}
		}
	})
	for _, f := range builders {
		eachInstr(f, func(in ssa.Instruction) {
			st, ok := in.(*ssa.Store)
			if !ok {
				return
			}
			if fv, ok := st.Addr.(*ssa.FreeVar); ok {
				if al := freeVarAlloc(f, fv); al != nil {
					cells[al] = append(cells[al], st)
				}
			}
		})
	}
	return
}

// freeVarAlloc resolves a free variable of a closure (possibly nested) to the Alloc it was bound to.
func freeVarAlloc(f *ssa.Function, fv *ssa.FreeVar) *ssa.Alloc {
	for d := 0; d < 6 && f != nil && f.Parent() != nil; d++ {
		idx := -1
		for i, x := range f.FreeVars {
			if x == fv {
				idx = i
			}
		}
		if idx < 0 {
			return nil
		}
		var bound ssa.Value
		for _, g := range withClosures(f.Parent()) {
			eachInstr(g, func(in ssa.Instruction) {
				if mc, ok := in.(*ssa.MakeClosure); ok && mc.Fn == ssa.Value(f) && idx < len(mc.Bindings) {
					bound = mc.Bindings[idx]
				}
			})
		}
		switch b := bound.(type) {
		case *ssa.Alloc:
			return b
		case *ssa.FreeVar:
			fv, f = b, f.Parent()
		default:
			return nil
		}
	}
	return nil
}

// storesToAlloc lists the stores into an Alloc made by its function and by the closures that capture it.
func storesToAlloc(al *ssa.Alloc) []*ssa.Store {
	var out []*ssa.Store
	for _, g := range withClosures(al.Parent()) {
		eachInstr(g, func(in ssa.Instruction) {
			st, ok := in.(*ssa.Store)
			if !ok {
				return
			}
			switch a := st.Addr.(type) {
			case *ssa.Alloc:
				if a == al {
					out = append(out, st)
				}
			case *ssa.FreeVar:
				if freeVarAlloc(g, a) == al {
					out = append(out, st)
				}
			}
		})
	}
	return out
}

// c11r14: the colour state carried from one input line to the next lives in variables of Run that the
// item builders update. A value stored into such a variable must be the state extractColor returned for the
// line just processed (or nil) — not a copy of the variable taken BEFORE the line was processed, which is
// the state of the line before (D31: the --with-nth builder seeded its tokens from prevLineAnsiState, a copy
// made ahead of the update; a colour left open was applied to every other line only).
func c11r14(c *Ctx, r *Report) {
	l := c.L
	r.rule("C11-R14", "D (provenance of the carried state)", "P1",
		"every value the item builders store into a captured *ansiState variable of Run is the state result of an extractColor call or nil; a load of another such variable is accepted only after that variable's own update in the same function",
		"with --ansi --with-nth the colour carried over from the previous line is one line late: it is applied to every other line")
	run, cells, _ := builderCells(l)
	ext := l.Fn("fzf", "extractColor")
	if run == nil || ext == nil {
		r.unest("anchors", token.NoPos, nil, "anchors Run / NewChunkList / extractColor", "cannot resolve")
		return
	}
	isState := func(al *ssa.Alloc) bool {
		p, ok := deref(al.Type()).(*types.Pointer)
		if !ok {
			return false
		}
		n, ok := p.Elem().(*types.Named)
		return ok && n.Obj().Name() == "ansiState"
	}
	n := 0
	var als []*ssa.Alloc
	for al := range cells {
		if isState(al) {
			als = append(als, al)
		}
	}
	sort.Slice(als, func(i, j int) bool { return als[i].Comment < als[j].Comment })
	for _, al := range als {
		for i, st := range cells[al] {
			n++
			f := st.Parent()
			why := ""
			switch v := st.Val.(type) {
			case *ssa.Extract:
				call, ok := v.Tuple.(*ssa.Call)
				if !ok || !callIs(call.Common(), ext) || v.Index != 2 {
					why = "the stored value is not the state result of extractColor"
				}
			case *ssa.Const:
				if !v.IsNil() {
					why = "the stored value is a non-nil constant"
				}
			case *ssa.UnOp:
				src, _ := v.X.(*ssa.FreeVar)
				var from *ssa.Alloc
				if src != nil {
					from = freeVarAlloc(f, src)
				}
				if v.Op != token.MUL || from == nil || !isState(from) {
					why = "the stored value is not derived from extractColor"
					break
				}
				updated := false
				for _, s2 := range cells[from] {
					if s2.Parent() == f && dominates(s2, v) {
						updated = true
					}
				}
				if !updated {
					why = fmt.Sprintf("it is a copy of %s taken before %s is updated for the current line: the state of the line before", from.Comment, from.Comment)
				}
			default:
				why = "the stored value is not the state result of extractColor"
			}
			r.check(why == "", fmt.Sprintf("%s:store #%d into %s", relName(run), i+1, al.Comment), st.Pos(), f, "the carried state is the one extractColor returned for this line", why)
		}
	}
	r.floor("stores into the carried ANSI state", n, 1)
}

// c11r15: a reload starts a new input stream; everything the item builders carry from one record to the
// next belongs to the old stream and has to be reset by the coordinator's restart closure, as itemIndex and
// header are (D32: the carried colour state was not, so a colour left open by the last line of the old input
// coloured the first lines of the reloaded input).
func c11r15(c *Ctx, r *Report) {
	l := c.L
	r.rule("C11-R15", "E (census: every builder cell is reset)", "P1",
		"every variable of Run that the item builders store into is also stored by the closure that restarts the reader (the one that calls Reader.restart)",
		"state of the previous input leaks into the reloaded one: item ordinals continue, header lines are not diverted again, the first lines inherit the colour of the old input's last line")
	run, cells, _ := builderCells(l)
	rr := l.Fn("fzf", "(*Reader).restart")
	if run == nil || rr == nil {
		r.unest("anchors", token.NoPos, nil, "anchors Run / Reader.restart", "cannot resolve")
		return
	}
	var restart *ssa.Function
	for _, g := range withClosures(run) {
		eachInstr(g, func(in ssa.Instruction) {
			if ci, ok := in.(ssa.CallInstruction); ok && callIs(ci.Common(), rr) {
				restart = g
			}
		})
	}
	if restart == nil {
		r.unest("anchors", token.NoPos, run, "the closure of Run that calls Reader.restart", "cannot find it")
		return
	}
	var als []*ssa.Alloc
	for al := range cells {
		als = append(als, al)
	}
	sort.Slice(als, func(i, j int) bool { return als[i].Comment < als[j].Comment })
	for _, al := range als {
		reset := false
		for _, st := range storesToAlloc(al) {
			if st.Parent() == restart {
				reset = true
			}
		}
		r.check(reset, fmt.Sprintf("%s:%s is reset on reload", relName(run), al.Comment), al.Pos(), restart, "restart stores it", fmt.Sprintf("the item builders keep %s across records but the restart closure does not reset it: the reloaded input starts with the old input's state", al.Comment))
		// ... on EVERY path to the start of the new reader (round-9 mutant C15b9 moved the header reset under
		// `if !useSnapshot`: after reload-sync the new input's header line became a list item)
		if reset {
			isStore := func(in ssa.Instruction) bool {
				st, ok := in.(*ssa.Store)
				if !ok {
					return false
				}
				switch a := st.Addr.(type) {
				case *ssa.FreeVar:
					return freeVarAlloc(restart, a) == al
				case *ssa.Alloc:
					return a == al
				}
				return false
			}
			isStart := func(in ssa.Instruction) bool {
				ci, ok := in.(ssa.CallInstruction)
				return ok && callIs(ci.Common(), rr)
			}
			start := restart.Blocks[0].Instrs[0]
			var hit ssa.Instruction
			if !isStore(start) {
				hit = pathAvoiding(start, isStart, isStore, nil)
			}
			r.check(hit == nil, fmt.Sprintf("%s:%s is reset on every path of the reload", relName(run), al.Comment), al.Pos(), restart,
				"no path starts the new reader without the reset", fmt.Sprintf("%s is reset on some paths of the restart closure only (e.g. not for reload-sync)", al.Comment))
		}
	}
	r.floor("variables the item builders keep across records", len(als), 3)
}

// c19r7: the walk callback appends the separator to an entry it treats as a directory (a real directory or,
// with follow, a symlink to one) and later decides whether to list the entry from `isDir`. The two must
// agree: on every path on which the separator was appended, the value tested by the listing decision is
// true (D33: isDir was de.IsDir() only, so a followed symlink to a directory got the separator but was listed
// as a FILE: --walker=file,follow listed `link/`, --walker=dir,follow did not).
func c19r7(c *Ctx, r *Report) {
	l := c.L
	r.rule("C19-R7", "A (the marker and the classification agree on every path)", "P1",
		"in the walk callback of Reader.readFiles, on every path through the block that appends the path separator, the IsDir-derived value tested before the push is true",
		"with follow, symlinked directories are listed among the files (with a trailing separator) and are missing from the directories")
	rf := l.Fn("fzf", "(*Reader).readFiles")
	if rf == nil {
		r.unest("anchors", token.NoPos, nil, "anchor Reader.readFiles", "cannot resolve")
		return
	}
	n := 0
	for _, f := range withClosures(rf) {
		if f == rf {
			continue
		}
		// the push: a call through the Reader.pusher field
		var push *ssa.Call
		eachInstr(f, func(in ssa.Instruction) {
			if call, ok := in.(*ssa.Call); ok && !call.Common().IsInvoke() {
				if fld, _ := loadedField(call.Common().Value); fld != nil && fld.Name() == "pusher" {
					push = call
				}
			}
		})
		if push == nil {
			continue
		}
		// separator appends: string concatenations whose result flows into the pushed value
		var appends []*ssa.BinOp
		pushed := backwardSlice(push.Call.Args[0], func(*ssa.CallCommon) bool { return true }, nil)
		eachInstr(f, func(in ssa.Instruction) {
			if bo, ok := in.(*ssa.BinOp); ok && bo.Op == token.ADD && pushed[bo] {
				if bt, ok := bo.Type().Underlying().(*types.Basic); ok && bt.Kind() == types.String {
					appends = append(appends, bo)
				}
			}
		})
		// the classification values: conditions on the way to the push that derive from DirEntry.IsDir
		pc := pathConds(f)
		isDirVals := map[ssa.Value]bool{}
		for _, dj := range pc.At(push.Block()) {
			for _, lt := range dj {
				for w := range backwardSlice(lt.Atom, nil, nil) {
					if call, ok := w.(*ssa.Call); ok && call.Common().IsInvoke() && call.Common().Method.Name() == "IsDir" {
						isDirVals[lt.Atom] = true
					}
				}
			}
		}
		// keep only the values tested by the listing decision, i.e. by a branch after the append
		for x := range isDirVals {
			after := false
			for _, ap := range appends {
				eachInstr(f, func(in ssa.Instruction) {
					if iff, ok := in.(*ssa.If); ok && iff.Cond == x && !iff.Block().Dominates(ap.Block()) {
						after = true
					}
				})
			}
			if !after {
				delete(isDirVals, x)
			}
		}
		if len(appends) == 0 || len(isDirVals) == 0 {
			r.unest(relName(f)+":separator and classification", f.Pos(), f, "the separator append and the IsDir-derived condition of the push", "cannot find them")
			continue
		}
		for i, ap := range appends {
			for x := range isDirVals {
				n++
				trueAt := func(v ssa.Value) bool {
					if k, ok := v.(*ssa.Const); ok && k.Value != nil && k.Value.String() == "true" {
						return true
					}
					holds, reach := pc.Implies(ap.Block(), func(lits []Lit) bool {
						return hasLit(lits, func(a ssa.Value, val bool) bool { return a == v && val })
					})
					return holds && reach
				}
				ok := true
				if phi, isPhi := x.(*ssa.Phi); isPhi {
					through := 0
					for ei, e := range phi.Edges {
						if !ap.Block().Dominates(phi.Block().Preds[ei]) {
							continue
						}
						through++
						if !trueAt(e) {
							ok = false
						}
					}
					if through == 0 {
						ok = trueAt(x)
					}
				} else {
					ok = trueAt(x)
				}
				r.check(ok, fmt.Sprintf("%s:separator append #%d implies the directory classification", relName(rf), i+1), ap.Pos(), f,
					"an entry that got the separator is classified as a directory", "the separator is appended on a path on which the value tested by the listing decision is false: the entry is marked as a directory but listed as a file")
			}
		}
	}
	r.floor("separator appends checked against the classification", n, 1)
}

// c01r6: the text of a term is the user's query text. On the way from parseTerms' query parameter to the
// `text` field of a term, the characters may only be case-folded, accent-normalised, split and sliced; the
// only rewrite is the removal of the backslash of an escaped space. Any other substitution rewrites characters
// the user typed (D34: `\ ` was implemented by substituting a TAB before splitting and turning every TAB of
// a token back into a space — a TAB typed in the query became a space: the line containing the TAB was dropped
// and a line with a space shown).
func c01r6(c *Ctx, r *Report) {
	l := c.L
	r.rule("C01-R6", "D (census of the transformers on the data path)", "P1",
		"every call on the data path from parseTerms' query parameter to the text stored in a term is one of: the module's own splitter or a library split, strings.ToLower, algo.NormalizeRunes, strings.HasPrefix/HasSuffix (tests), string/rune conversions, or a strings.Replace/ReplaceAll whose `old` operand is a constant that contains a backslash",
		"characters typed in the query are rewritten before matching: a literal TAB becomes a space, so a matching line is dropped and a non-matching one is shown")
	pt := l.Fn("fzf", "parseTerms")
	if pt == nil || len(pt.Params) < 4 {
		r.unest("anchors", token.NoPos, nil, "anchor parseTerms", "cannot resolve")
		return
	}
	str := pt.Params[3]
	// the sinks: values stored into the `text` field of a term literal
	var sinks []ssa.Value
	eachInstr(pt, func(in ssa.Instruction) {
		if st, ok := in.(*ssa.Store); ok {
			if fld, _ := fieldOf(st.Addr); fld != nil && fld.Name() == "text" {
				sinks = append(sinks, st.Val)
			}
		}
	})
	if len(sinks) == 0 {
		r.unest("anchors", token.NoPos, pt, "the store into term.text in parseTerms", "cannot find it")
		return
	}
	onPath := map[ssa.Value]bool{}
	for _, s := range sinks {
		for w := range backwardSlice(s, func(*ssa.CallCommon) bool { return true }, nil) {
			onPath[w] = true
		}
	}
	fromStr := forwardDerived(pt, []ssa.Value{str}, func(*ssa.CallCommon) bool { return true })
	n := 0
	seenCallee := map[string]int{}
	eachInstr(pt, func(in ssa.Instruction) {
		call, ok := in.(*ssa.Call)
		if !ok || !onPath[call] || !fromStr[call] {
			return
		}
		name := calleeName(call.Common())
		n++
		seenCallee[name]++
		key := fmt.Sprintf("%s:%s #%d on the query's path to term.text", relName(pt), strings.TrimPrefix(name, modPath+"/src"), seenCallee[name])
		why := ""
		switch {
		case name == "strings.ToLower", name == modPath+"/src/algo.NormalizeRunes", name == "(*regexp.Regexp).Split", name == "strings.Split", name == "strings.Fields":
		case call.Common().StaticCallee() != nil && call.Common().StaticCallee().Pkg == pt.Pkg:
			// the module's own splitter: must not itself call a replacing function
			callee := call.Common().StaticCallee()
			eachInstr(callee, func(i2 ssa.Instruction) {
				if c2, ok := i2.(*ssa.Call); ok {
					switch calleeName(c2.Common()) {
					case "strings.ReplaceAll", "strings.Replace", "strings.Map", "(*strings.Replacer).Replace", "(*regexp.Regexp).ReplaceAllString":
						why = fmt.Sprintf("%s rewrites the text with %s", callee.Name(), calleeName(c2.Common()))
					}
				}
			})
		case name == "strings.ReplaceAll" || name == "strings.Replace":
			k, ok := call.Call.Args[1].(*ssa.Const)
			if !ok || k.Value == nil || !strings.Contains(k.Value.ExactString(), `\\`) {
				why = "it replaces a sequence that is not an escape (no backslash in it): ordinary characters of the query are rewritten"
			}
		default:
			why = "not one of the transformers a query may pass through"
		}
		r.check(why == "", key, call.Pos(), pt, "a permitted transformer", why)
	})
	r.floor("calls on the path from the query to term.text", n, 3)
}

// c18r9: the list of stored queries is bounded by --history-size wherever it is (re)built: when a query is
// appended and when the file is loaded (D35: NewHistory carried the comment "limit the maximum number of
// lines" but did not: a file longer than the limit was loaded in full and prev-history walked into entries
// that are not among the most recent N).
func c18r9(c *Ctx, r *Report) {
	l := c.L
	r.rule("C18-R9", "E (sibling agreement: every builder of the list applies the cap)", "P1",
		"every function that stores a slice into History.lines compares the length of a value that flows into the stored slice with the size limit (the maxSize parameter or field)",
		"a session started on a file longer than --history-size navigates to entries outside the most recent N")
	fLines := l.Field("fzf", "History", "lines")
	if fLines == nil {
		r.unest("anchors", token.NoPos, nil, "anchor History.lines", "cannot resolve")
		return
	}
	n := 0
	for _, fn := range l.AllFuncs() {
		if fn.Blocks == nil || fn.Pkg != l.pkg("fzf") {
			continue
		}
		var stores []*ssa.Store
		eachInstr(fn, func(in ssa.Instruction) {
			if st, ok := in.(*ssa.Store); ok {
				if fld, _ := fieldOf(st.Addr); fld == fLines {
					stores = append(stores, st)
				}
			}
		})
		if len(stores) == 0 {
			continue
		}
		// the limit: the field History.maxSize, or a parameter that the function stores into that field
		limitParams := map[*ssa.Parameter]bool{}
		eachInstr(fn, func(in ssa.Instruction) {
			if st, ok := in.(*ssa.Store); ok {
				if fld, _ := fieldOf(st.Addr); fld != nil && fld.Name() == "maxSize" {
					if p, ok := st.Val.(*ssa.Parameter); ok {
						limitParams[p] = true
					}
				}
			}
		})
		isLimit := func(v ssa.Value) bool {
			for w := range backwardSlice(v, nil, nil) {
				if p, ok := w.(*ssa.Parameter); ok && limitParams[p] {
					return true
				}
				if fld, _ := loadedField(w); fld != nil && fld.Name() == "maxSize" {
					return true
				}
			}
			return false
		}
		for i, st := range stores {
			n++
			flows := backwardSlice(st.Val, nil, nil)
			capped := false
			eachInstr(fn, func(in ssa.Instruction) {
				b, ok := in.(*ssa.BinOp)
				if !ok {
					return
				}
				switch b.Op {
				case token.GTR, token.LSS, token.GEQ, token.LEQ:
				default:
					return
				}
				for _, pr := range [][2]ssa.Value{{b.X, b.Y}, {b.Y, b.X}} {
					call, ok := pr[0].(*ssa.Call)
					if !ok || calleeName(call.Common()) != "builtin.len" || !isLimit(pr[1]) {
						continue
					}
					for w := range backwardSlice(call.Call.Args[0], nil, nil) {
						if flows[w] {
							capped = true
						}
					}
				}
			})
			r.check(capped, fmt.Sprintf("%s:History.lines store #%d is capped", relName(fn), i+1), st.Pos(), fn, "the stored list was compared with the size limit", "the list is stored without comparing its length with the size limit")
		}
	}
	r.floor("stores into History.lines", n, 2)
}

// c14r11: a reload command carries the temporary files of its {f}/{+f} placeholders in a commandSpec. The
// spec is handed from the action (Loop's newCommand) through the search request to the coordinator (Run's
// nextCommand while the old reader is being terminated) and finally to Reader.restart, which removes the
// files when the command has ended. Every place on that chain that can DROP a spec has to remove its files
// (D36: a second reload in one action chain overwrote newCommand; a further reload overwrote nextCommand; on
// quit a pending nextCommand was dropped; and when fzf exits while the reload command runs the process ends
// before Reader.restart gets to its removeFiles).
func c14r11(c *Ctx, r *Report) {
	l := c.L
	r.rule("C14-R11", "B (ownership hand-off: whoever drops a spec releases it)", "P1",
		"(a) every store of a non-nil value into a captured *commandSpec variable is reachable from a removeFiles call on that variable's old tempFiles in the same function; (b) the coordinator's EvtQuit case removes the files of a pending nextCommand and of the command of a search request still in the event box; (c) Reader.restart records the running command's files in the Reader and Reader.terminate removes them",
		"files created for {f}/{+f} of a reload command stay in $TMPDIR when the reload is superseded or fzf exits during it")
	remove := l.Fn("fzf", "removeFiles")
	if remove == nil {
		r.unest("anchors", token.NoPos, nil, "anchor removeFiles", "cannot resolve")
		return
	}
	isSpecCell := func(t types.Type) bool {
		p, ok := t.(*types.Pointer)
		if !ok {
			return false
		}
		p2, ok := p.Elem().(*types.Pointer)
		if !ok {
			return false
		}
		n, ok := p2.Elem().(*types.Named)
		return ok && n.Obj().Name() == "commandSpec"
	}
	cellOf := func(f *ssa.Function, v ssa.Value) *ssa.Alloc {
		switch x := v.(type) {
		case *ssa.Alloc:
			return x
		case *ssa.FreeVar:
			return freeVarAlloc(f, x)
		}
		return nil
	}
	// removeFiles calls on the old content of a cell
	releases := func(f *ssa.Function, cell *ssa.Alloc) []*ssa.Call {
		var out []*ssa.Call
		eachInstr(f, func(in ssa.Instruction) {
			call, ok := in.(*ssa.Call)
			if !ok || !callIs(call.Common(), remove) {
				return
			}
			for w := range backwardSlice(call.Call.Args[0], nil, nil) {
				if u, ok := w.(*ssa.UnOp); ok && u.Op == token.MUL && isSpecCell(u.X.Type()) && cellOf(f, u.X) == cell {
					out = append(out, call)
					return
				}
			}
		})
		return out
	}
	nStore := 0
	quitReleased := false
	quitReleasedPending := false
	evtQuit := l.Const("fzf", "EvtQuit")
	for _, fn := range l.AllFuncs() {
		if fn.Blocks == nil || fn.Pkg != l.pkg("fzf") {
			continue
		}
		var pc *PathConds
		k := 0
		eachInstr(fn, func(in ssa.Instruction) {
			st, ok := in.(*ssa.Store)
			if !ok || !isSpecCell(st.Addr.Type()) {
				return
			}
			cell := cellOf(fn, st.Addr)
			if cell == nil {
				return
			}
			if kst, isK := st.Val.(*ssa.Const); isK && kst.IsNil() {
				return
			}
			// the declaration's zero store / first initialisation in the declaring function's entry block
			if fn == cell.Parent() && st.Block() == fn.Blocks[0] {
				return
			}
			nStore++
			k++
			released := false
			for _, rc := range releases(fn, cell) {
				if canReach(rc, st) {
					released = true
				}
			}
			r.check(released, fmt.Sprintf("%s:overwrite #%d of %s releases the old spec", relName(rootFn(fn)), k, cell.Comment), st.Pos(), fn,
				"the files of the spec being replaced are removed first", fmt.Sprintf("%s is overwritten without removing the temporary files of the spec it held", cell.Comment))
		})
		// (b) the quit case
		if evtQuit != nil && rootFn(fn) == l.Fn("fzf", "Run") {
			qv, _ := constInt(evtQuit)
			eachInstr(fn, func(in ssa.Instruction) {
				call, ok := in.(*ssa.Call)
				if !ok || !callIs(call.Common(), remove) {
					return
				}
				onSpec := false
				for w := range backwardSlice(call.Call.Args[0], nil, nil) {
					if u, ok := w.(*ssa.UnOp); ok && u.Op == token.MUL && isSpecCell(u.X.Type()) {
						// the variable itself (nextCommand), not the command field of a request
						switch u.X.(type) {
						case *ssa.Alloc, *ssa.FreeVar:
							onSpec = true
						}
					}
				}
				// ... or the command of a search request that is still in the event box
				// (followed through field selections only, not through the captured variables: nextCommand itself
				// was once taken out of a request)
				pendingReq := false
				var sel func(v ssa.Value, d int)
				sel = func(v ssa.Value, d int) {
					if d > 8 {
						return
					}
					switch x := v.(type) {
					case *ssa.UnOp:
						sel(x.X, d+1)
					case *ssa.FieldAddr:
						sel(x.X, d+1)
					case *ssa.Field:
						sel(x.X, d+1)
					case *ssa.Extract:
						sel(x.Tuple, d+1)
					case *ssa.TypeAssert:
						if nn, ok := x.AssertedType.(*types.Named); ok && nn.Obj().Name() == "searchRequest" {
							pendingReq = true
						}
					case *ssa.Alloc:
						if x.Parent() == fn && x.Referrers() != nil {
							for _, ref := range *x.Referrers() {
								if st, ok := ref.(*ssa.Store); ok && st.Addr == ssa.Value(x) {
									sel(st.Val, d+1)
								}
							}
						}
					}
				}
				sel(call.Call.Args[0], 0)
				if !onSpec && !pendingReq {
					return
				}
				if pc == nil {
					pc = pathConds(fn)
				}
				if ks, ok := eqConstLits(pc, call.Block()); ok && ks[qv] {
					if onSpec {
						quitReleased = true
					}
					if pendingReq {
						quitReleasedPending = true
					}
				}
			})
		}
	}
	r.floor("overwrites of a captured *commandSpec variable", nStore, 2)
	if run := l.Fn("fzf", "Run"); run != nil {
		r.check(quitReleased, relName(run)+":EvtQuit releases a pending reload command", run.Pos(), run, "the quit case removes the files of nextCommand", "on quit a reload command that was waiting for the old reader to end is dropped together with its temporary files")
		r.check(quitReleasedPending, relName(run)+":EvtQuit releases the command of a search request still in the box", run.Pos(), run, "the quit case removes the files of a pending request's command", "when the quit event is handled before a reload request posted in the same round (reload(..{f}..)+abort), the request's temporary files are never removed")
	}
	// (c) the reader
	fRT := l.Field("fzf", "Reader", "tempFiles")
	term := l.Fn("fzf", "(*Reader).terminate")
	rst := l.Fn("fzf", "(*Reader).restart")
	if term == nil || rst == nil {
		r.unest("anchors", token.NoPos, nil, "anchors Reader.terminate / Reader.restart", "cannot resolve")
		return
	}
	recorded, removed := false, false
	if fRT != nil {
		eachInstr(rst, func(in ssa.Instruction) {
			if st, ok := in.(*ssa.Store); ok {
				if fld, _ := fieldOf(st.Addr); fld == fRT {
					for w := range backwardSlice(st.Val, nil, nil) {
						if f2, _ := fieldOf(w); f2 != nil && f2.Name() == "tempFiles" && f2 != fRT {
							recorded = true
						}
					}
				}
			}
		})
		eachInstr(term, func(in ssa.Instruction) {
			if call, ok := in.(*ssa.Call); ok && callIs(call.Common(), remove) {
				if fld, _ := loadedField(call.Call.Args[0]); fld == fRT {
					removed = true
				}
			}
		})
	}
	r.check(recorded, relName(rst)+":records the running command's files", rst.Pos(), rst, "Reader.restart stores commandSpec.tempFiles in the Reader", "the Reader does not know the temporary files of the command it runs: nothing can remove them when fzf exits during the reload")
	r.check(removed, relName(term)+":removes the running command's files", term.Pos(), term, "Reader.terminate removes them", "fzf exits while the reload command runs and the process ends before Reader.restart gets to removeFiles")
}

// c20r13: cancelPreview hands its request over with a NON-blocking send on Terminal.killChan, so the request
// is lost whenever no watcher goroutine is parked on the channel — in particular while the previewer is still
// building and starting the command the request is meant for. The request that caused the cancellation is
// still in the previewer's mailbox at that time, so the watcher can and must compensate: before it first
// blocks on killChan it looks into Terminal.previewBox for a pending request (D37: it did not; a cursor move
// during the start of a never-ending preview command left that command running and the preview of the focused
// line never started).
func c20r13(c *Ctx, r *Report) {
	l := c.L
	r.rule("C20-R13", "A (compensation dominates the lossy receive)", "P1",
		"if some send on Terminal.killChan is non-blocking (a select with default), then in every goroutine that receives from Terminal.killChan a call of EventBox.Peek on Terminal.previewBox dominates the first select that receives from it",
		"a superseded preview command keeps running and the preview for the line under the cursor does not start until the next user action")
	fKill := l.Field("fzf", "Terminal", "killChan")
	fBox := l.Field("fzf", "Terminal", "previewBox")
	peek := l.Fn("util", "(*EventBox).Peek")
	if fKill == nil || fBox == nil || peek == nil {
		r.unest("anchors", token.NoPos, nil, "anchors Terminal.killChan / Terminal.previewBox / EventBox.Peek", "cannot resolve")
		return
	}
	isKill := func(v ssa.Value) bool {
		fld, _ := loadedField(v)
		return fld == fKill
	}
	lossy := false
	nLossy := 0
	type recvSite struct {
		fn  *ssa.Function
		sel *ssa.Select
	}
	var recvs []recvSite
	for _, fn := range l.AllFuncs() {
		if fn.Blocks == nil || fn.Pkg != l.pkg("fzf") {
			continue
		}
		eachInstr(fn, func(in ssa.Instruction) {
			sel, ok := in.(*ssa.Select)
			if !ok {
				return
			}
			for _, st := range sel.States {
				if !isKill(st.Chan) {
					continue
				}
				if st.Dir == types.SendOnly {
					if !sel.Blocking {
						lossy = true
						nLossy++
					}
				} else {
					recvs = append(recvs, recvSite{fn, sel})
				}
			}
		})
	}
	r.info("lossy sends", token.NoPos, nil, fmt.Sprintf("%d non-blocking send(s) on Terminal.killChan", nLossy))
	if !lossy {
		r.ok("Terminal.killChan:no lossy send", token.NoPos, nil, "every send on Terminal.killChan blocks until it is received")
		return
	}
	// per receiving function: the first (dominating) receive select
	byFn := map[*ssa.Function][]*ssa.Select{}
	for _, rs := range recvs {
		byFn[rs.fn] = append(byFn[rs.fn], rs.sel)
	}
	var fns []*ssa.Function
	for f := range byFn {
		fns = append(fns, f)
	}
	sort.Slice(fns, func(i, j int) bool { return relName(fns[i]) < relName(fns[j]) })
	for _, f := range fns {
		var peeks []ssa.Instruction
		eachInstr(f, func(in ssa.Instruction) {
			if call, ok := in.(*ssa.Call); ok && callIs(call.Common(), peek) {
				if fld, _ := loadedField(call.Call.Args[0]); fld == fBox {
					peeks = append(peeks, in)
				}
			}
		})
		ok := true
		var at token.Pos
		for _, sel := range byFn[f] {
			// only selects not dominated by another receive select of the same function (the first ones)
			first := true
			for _, other := range byFn[f] {
				if other != sel && dominates(other, sel) {
					first = false
				}
			}
			if !first {
				continue
			}
			dom := false
			for _, p := range peeks {
				if dominates(p, sel) {
					dom = true
				}
			}
			if !dom {
				ok = false
				at = sel.Pos()
			}
		}
		r.check(ok, fmt.Sprintf("%s:pending request consulted before the first receive from killChan", relName(f)), f.Pos(), f,
			"a Peek on Terminal.previewBox dominates the first receive", fmt.Sprintf("the select at %s is the first to receive from killChan and nothing looked for a request that arrived before: its cancellation was sent when nobody listened", l.pos(at)))
	}
	r.floor("goroutines receiving from Terminal.killChan", len(fns), 1)
}

// c16r11: a non-local listener without --listen-unsafe drops the actions for which processExecution() is true:
// the ones that run a command. The list has to cover every action whose handler reaches the executor (D38:
// seven newer transform-* actions, which run their argument through captureLine, were missing: a remote
// client holding the API key could run arbitrary commands although --listen-unsafe was not given).
func c16r11(c *Ctx, r *Report) {
	l := c.L
	r.rule("C16-R11", "E (census: handlers that reach the executor vs. the filter's case list)", "P1",
		"every action type under whose case the action interpreter (a closure of Terminal.Loop) calls a function that reaches Executor.ExecCommand or Executor.Become through static calls, builds a commandSpec for the reader, or calls a closure that enqueues a preview request, is a case of processExecution",
		"an action that executes a shell command passes the filter of a non-local listener: remote command execution without --listen-unsafe")
	pe := l.Fn("fzf", "processExecution")
	loop := l.Fn("fzf", "(*Terminal).Loop")
	if pe == nil || loop == nil {
		r.unest("anchors", token.NoPos, nil, "anchors processExecution / Terminal.Loop", "cannot resolve")
		return
	}
	// functions reaching the executor
	reach := map[*ssa.Function]bool{}
	for _, f := range l.AllFuncs() {
		switch relName(f) {
		case "(*fzf/util.Executor).ExecCommand", "(*fzf/util.Executor).Become":
			reach[f] = true
		}
	}
	if len(reach) == 0 {
		r.unest("anchors", token.NoPos, nil, "anchors Executor.ExecCommand / Executor.Become", "cannot resolve")
		return
	}
	for changed := true; changed; {
		changed = false
		for _, f := range l.AllFuncs() {
			if reach[f] || f.Blocks == nil || f.Pkg != l.pkg("fzf") || rootFn(f) == loop {
				continue
			}
			eachInstr(f, func(in ssa.Instruction) {
				if g := staticCallee(in); g != nil && reach[g] && !reach[f] {
					reach[f] = true
					changed = true
				}
			})
		}
	}
	// the filter's list
	listed := map[int64]bool{}
	pcPE := pathConds(pe)
	eachInstr(pe, func(in ssa.Instruction) {
		ret, ok := in.(*ssa.Return)
		if !ok || len(ret.Results) != 1 {
			return
		}
		if k, ok := ret.Results[0].(*ssa.Const); !ok || k.Value == nil || k.Value.String() != "true" {
			return
		}
		if ks, ok := eqConstLits(pcPE, in.Block()); ok {
			for k := range ks {
				listed[k] = true
			}
		}
	})
	actName := func(k int64) string {
		sc := l.pkg("fzf").Pkg.Scope()
		for _, nm := range sc.Names() {
			if !strings.HasPrefix(nm, "act") {
				continue
			}
			if cst, ok := sc.Lookup(nm).(*types.Const); ok {
				if n, ok := cst.Type().(*types.Named); ok && n.Obj().Name() == "actionType" {
					if v, ok := constInt(cst); ok && v == k {
						return nm
					}
				}
			}
		}
		return fmt.Sprintf("action %d", k)
	}
	execs := map[int64]token.Pos{}
	via := map[int64]string{}
	// closures of Loop that enqueue a preview request: the command they carry is run by the previewer goroutine
	posts := map[*ssa.Function]bool{}
	for _, f := range withClosures(loop) {
		eachInstr(f, func(in ssa.Instruction) {
			if al, ok := in.(*ssa.Alloc); ok {
				if nn, ok := deref(al.Type()).(*types.Named); ok && nn.Obj().Name() == "previewRequest" && f != loop && len(f.Params) == 1 {
					// the closure's own parameter is the template it enqueues
					eachInstr(f, func(i2 ssa.Instruction) {
						if st, ok := i2.(*ssa.Store); ok && st.Val == ssa.Value(f.Params[0]) {
							if fld, _ := fieldOf(st.Addr); fld != nil && fld.Name() == "template" {
								posts[f] = true
							}
						}
					})
				}
			}
		})
	}
	for _, f := range withClosures(loop) {
		var pc *PathConds
		eachInstr(f, func(in ssa.Instruction) {
			g := staticCallee(in)
			runs := g != nil && reach[g]
			name := ""
			if runs {
				name = g.Name()
			}
			// a reload command is handed to the reader as a commandSpec
			if al, ok := in.(*ssa.Alloc); ok {
				if nn, ok := deref(al.Type()).(*types.Named); ok && nn.Obj().Name() == "commandSpec" {
					runs, name = true, "a commandSpec (run by the reader)"
				}
			}
			// a preview command is handed to the previewer through one of the enqueueing closures
			if call, ok := in.(*ssa.Call); ok && !call.Common().IsInvoke() {
				if u, ok := call.Common().Value.(*ssa.UnOp); ok && u.Op == token.MUL {
					if fv, ok := u.X.(*ssa.FreeVar); ok {
						if al := freeVarAlloc(f, fv); al != nil {
							for _, st := range storesToAlloc(al) {
								if mc, ok := st.Val.(*ssa.MakeClosure); ok && posts[mc.Fn.(*ssa.Function)] && len(call.Call.Args) == 1 {
									// only when the command is the action's own argument (re-running the configured
									// --preview command is not the execution of something the client sent)
									for w := range backwardSlice(call.Call.Args[0], nil, nil) {
										if fld, _ := loadedField(w); fld != nil && fld.Name() == "a" {
											runs, name = true, "a preview request for the action's argument (run by the previewer)"
										}
									}
								}
							}
						}
					}
				}
			}
			if !runs {
				return
			}
			if pc == nil {
				pc = pathConds(f)
			}
			for _, dj := range pc.At(in.Block()) {
				// the action type this disjunct stands for; a disjunct that requires two different types (the case
				// label of a shared body AND the inner test for its sibling) is infeasible
				pos := map[int64]bool{}
				for _, lt := range dj {
					bo, ok := lt.Atom.(*ssa.BinOp)
					if !ok || !(bo.Op == token.EQL && lt.Val || bo.Op == token.NEQ && !lt.Val) {
						continue
					}
					fld, _ := loadedField(bo.X)
					if fld == nil || fld.Name() != "t" {
						continue
					}
					if k, isK := constIntVal(bo.Y); isK {
						pos[k] = true
					}
				}
				if len(pos) != 1 {
					continue
				}
				for k := range pos {
					if _, seen := execs[k]; !seen {
						execs[k] = in.Pos()
						via[k] = name
					}
				}
			}
		})
	}
	var ks []int64
	for k := range execs {
		ks = append(ks, k)
	}
	sort.Slice(ks, func(i, j int) bool { return ks[i] < ks[j] })
	for _, k := range ks {
		r.check(listed[k], fmt.Sprintf("%s:%s runs a command and is filtered", relName(pe), actName(k)), execs[k], loop,
			"processExecution lists it", fmt.Sprintf("its handler calls %s, which reaches the executor, but processExecution does not list it: a non-local listener accepts it without --listen-unsafe", via[k]))
	}
	r.floor("action types whose handler reaches the executor", len(ks), 15)
}

// c09r10: when --tail trims the input, UpdateList keeps the selected items that are still in the window.
// Whether an entry of the old selection is kept may depend on item indexes (the window's lowest index) only;
// Merger.Length() is the number of MATCHES under the current query, not the number of items, and must not
// bound the window (D39: maxIndex = minIndex + merger.Length(); with a query that matches a few items, a
// selected item that is still listed lost its selection on the next trim).
func c09r10(c *Ctx, r *Report) {
	l := c.L
	r.rule("C09-R10", "A (the filter's conditions do not consult the match count)", "P1",
		"in Terminal.UpdateList, the conditions under which an entry of the old selection is copied into the new selection do not depend on a Merger.Length() result",
		"with --tail and an active query, selected items that are still in the list silently lose their selection: {+} and the accepted output miss them")
	ul := l.Fn("fzf", "(*Terminal).UpdateList")
	mlen := l.Fn("fzf", "(*Merger).Length")
	fSel := l.Field("fzf", "Terminal", "selected")
	if ul == nil || mlen == nil || fSel == nil {
		r.unest("anchors", token.NoPos, nil, "anchors Terminal.UpdateList / Merger.Length / Terminal.selected", "cannot resolve")
		return
	}
	n := 0
	loops := natLoops(ul)
	eachInstr(ul, func(in ssa.Instruction) {
		mu, ok := in.(*ssa.MapUpdate)
		if !ok {
			return
		}
		// the fresh map must reach a store into Terminal.selected
		toSel := false
		if mm, ok := mu.Map.(*ssa.MakeMap); ok && mm.Referrers() != nil {
			for _, ref := range *mm.Referrers() {
				if st, ok := ref.(*ssa.Store); ok {
					if fld, _ := fieldOf(st.Addr); fld == fSel {
						toSel = true
					}
				}
			}
		}
		if !toSel {
			return
		}
		n++
		bad := ""
		// the filter's own conditions: the branches inside the loop that ranges over the old selection
		var lp *natLoop
		for i := range loops {
			if loops[i].body[mu.Block()] && (lp == nil || len(loops[i].body) < len(lp.body)) {
				lp = &loops[i]
			}
		}
		if lp == nil {
			r.unest(fmt.Sprintf("%s:kept selection #%d", relName(ul), n), mu.Pos(), ul, "the copy sits in a loop over the old selection", "no enclosing loop found")
			return
		}
		for b := range lp.body {
			iff, ok := b.Instrs[len(b.Instrs)-1].(*ssa.If)
			if !ok {
				continue
			}
			for w := range backwardSlice(iff.Cond, func(*ssa.CallCommon) bool { return true }, nil) {
				if call, ok := w.(*ssa.Call); ok && callIs(call.Common(), mlen) {
					bad = l.pos(iff.Cond.Pos())
				}
			}
		}
		r.check(bad == "", fmt.Sprintf("%s:kept selection #%d is bounded by item indexes only", relName(ul), n), mu.Pos(), ul,
			"no condition of the filter consults the match count", fmt.Sprintf("the condition at %s depends on Merger.Length(), the number of matches: with a query, items beyond minIndex+matches are dropped from the selection although they were not trimmed", bad))
	})
	r.floor("entries copied into the filtered selection", n, 1)
}

// accentTableKeys returns the number of constant keys of the map literal stored into g and their span.
func accentTableKeys(l *Loaded, g *ssa.Global) (n int, minK, maxK int64) {
	minK, maxK = int64(1)<<62, int64(-1)
	for _, f := range l.AllFuncs() {
		eachInstr(f, func(in ssa.Instruction) {
			mu, ok := in.(*ssa.MapUpdate)
			if !ok {
				return
			}
			isTab := false
			if mm, ok := mu.Map.(*ssa.MakeMap); ok && mm.Referrers() != nil {
				for _, ref := range *mm.Referrers() {
					if st, ok := ref.(*ssa.Store); ok && st.Addr == ssa.Value(g) {
						isTab = true
					}
				}
			}
			if !isTab {
				return
			}
			k, isc := constIntVal(mu.Key)
			if !isc {
				return
			}
			n++
			if k < minK {
				minK = k
			}
			if k > maxK {
				maxK = k
			}
		})
	}
	return
}

// c02r10: the pattern side (NormalizeRunes, which also decides whether a term "carries an accent") and the
// text side (normalizeRune) fold through the same table behind a fast-path range test. Every lookup of the
// table, in whatever function, must sit behind a range that covers all keys of the table — otherwise the two
// sides disagree about which letters are folded (round-7 mutant C01a7 narrowed NormalizeRunes' range to
// U+024F: a query `việt` was taken for unaccented, kept its `ệ`, and no longer matched `tiếng việt`).
func c02r10(c *Ctx, r *Report) {
	l := c.L
	r.rule("C02-R10", "E/H (every reader of the table behind a covering guard)", "P1",
		"in package algo, every lookup of the map `normalized` is reached only under comparisons of the looked-up key with constants lo and hi such that all keys of the table lie in [lo, hi]",
		"a term with a letter the table folds but the pattern-side fast path skips is treated as unaccented: the line's letter is folded, the term's is not, and the matching line is dropped")
	g := l.Global("algo", "normalized")
	if g == nil {
		r.unest("anchors", token.NoPos, nil, "anchor algo.normalized", "cannot resolve")
		return
	}
	n, minK, maxK := accentTableKeys(l, g)
	if n == 0 {
		r.unest("anchors", token.NoPos, nil, "keys of the accent table", "none found")
		return
	}
	sites := 0
	for _, fn := range l.AllFuncs() {
		if fn.Pkg != l.pkg("algo") || fn.Blocks == nil {
			continue
		}
		var pc *PathConds
		k := 0
		eachInstr(fn, func(in ssa.Instruction) {
			lk, ok := in.(*ssa.Lookup)
			if !ok {
				return
			}
			if u, ok := lk.X.(*ssa.UnOp); !ok || u.X != ssa.Value(g) {
				return
			}
			sites++
			k++
			if pc == nil {
				pc = pathConds(fn)
			}
			covered, reach := pc.Implies(in.Block(), func(lits []Lit) bool {
				lo, hi := int64(-1), int64(-1)
				for _, lt := range lits {
					x, op, kk, ok := cmpInt(lt.Atom)
					if !ok || x != lk.Index {
						continue
					}
					switch {
					case op == token.LSS && !lt.Val, op == token.GEQ && lt.Val:
						lo = kk
					case op == token.LEQ && !lt.Val, op == token.GTR && lt.Val:
						lo = kk + 1
					case op == token.GTR && !lt.Val, op == token.LEQ && lt.Val:
						hi = kk
					case op == token.GEQ && !lt.Val, op == token.LSS && lt.Val:
						hi = kk - 1
					}
				}
				return lo >= 0 && hi >= 0 && lo <= minK && maxK <= hi
			})
			r.check(covered && reach, fmt.Sprintf("%s:lookup #%d of the accent table is behind a covering range", relName(fn), k), lk.Pos(), fn,
				fmt.Sprintf("the range test in front of it covers all %d keys [%#x, %#x]", n, minK, maxK), fmt.Sprintf("the range test in front of this lookup does not cover the table's keys [%#x, %#x]: letters outside it are folded by the other side only", minK, maxK))
		})
	}
	r.floor("lookups of the accent table", sites, 3)
}

// c01r7: an OR group is satisfied by its first satisfied alternative. In extendedMatch the loop over the
// alternatives of a group may therefore be left early only when the group has just been satisfied; an
// alternative that failed (a negated term whose text occurs) must move on to the next one (round-7 mutant
// C01c7: `continue` became `break` for a failed negated alternative, so `!foo | bar` dropped lines that
// contain both).
func c01r7(c *Ctx, r *Report) {
	l := c.L
	r.rule("C01-R7", "A (every early exit of the alternatives loop carries `matched`)", "P1",
		"in Pattern.extendedMatch, on every edge that leaves the loop over the terms of one OR group other than its exhaustion, the flag that is tested after the loop is the constant true",
		"a line that satisfies a later alternative of an OR group is dropped because an earlier alternative failed")
	em := l.Fn("fzf", "(*Pattern).extendedMatch")
	iter := l.Fn("fzf", "(*Pattern).iter")
	if em == nil || iter == nil {
		r.unest("anchors", token.NoPos, nil, "anchors Pattern.extendedMatch / Pattern.iter", "cannot resolve")
		return
	}
	var iterBlock *ssa.BasicBlock
	eachInstr(em, func(in ssa.Instruction) {
		if call, ok := in.(*ssa.Call); ok && callIs(call.Common(), iter) {
			iterBlock = in.Block()
		}
	})
	var lp *natLoop
	loops := natLoops(em)
	for i := range loops {
		if iterBlock != nil && loops[i].body[iterBlock] && (lp == nil || len(loops[i].body) < len(lp.body)) {
			lp = &loops[i]
		}
	}
	if lp == nil {
		r.unest("anchors", token.NoPos, em, "the loop over the alternatives of an OR group (the innermost loop around the call of Pattern.iter)", "cannot find it")
		return
	}
	n := 0
	// the block the loop continues in when the alternatives are exhausted; `break` edges end there as well
	var exit *ssa.BasicBlock
	for _, t := range lp.hdr.Succs {
		if !lp.body[t] {
			exit = t
		}
	}
	if exit == nil {
		r.unest("anchors", token.NoPos, em, "the exit block of the alternatives loop", "cannot find it")
		return
	}
	for ei, b := range exit.Preds {
		if b == lp.hdr {
			continue
		}
		for _, in := range exit.Instrs {
			phi, ok := in.(*ssa.Phi)
			if !ok {
				break
			}
			if bt, ok := phi.Type().Underlying().(*types.Basic); !ok || bt.Kind() != types.Bool {
				continue
			}
			n++
			e := phi.Edges[ei]
			k, isK := e.(*ssa.Const)
			isTrue := isK && k.Value != nil && k.Value.String() == "true"
			r.check(isTrue, fmt.Sprintf("%s:early exit #%d of the alternatives loop has satisfied the group", relName(em), n), b.Instrs[len(b.Instrs)-1].Pos(), em,
				"the group's flag is true on this exit", "the loop over the alternatives is left with the group not (necessarily) satisfied: the remaining alternatives are never tried")
		}
	}
	r.floor("early exits of the alternatives loop", n, 1)
}

// controlConds computes, for every block of fn, the branch conditions the block is (transitively) control
// dependent on: block B depends on the branch ending block A when one successor of A is post-dominated by B
// (or is B) and A itself is not strictly post-dominated by B. Unlike a path condition this forgets the tests
// whose two arms have merged again before B.
func controlConds(fn *ssa.Function) map[*ssa.BasicBlock]map[ssa.Value]bool {
	n := len(fn.Blocks)
	// post-dominator sets by iteration over the reversed graph; exits are the blocks without successors
	pdom := make([]map[int]bool, n)
	all := map[int]bool{}
	for i := 0; i < n; i++ {
		all[i] = true
	}
	for i, b := range fn.Blocks {
		if len(b.Succs) == 0 {
			pdom[i] = map[int]bool{i: true}
		} else {
			pdom[i] = all
		}
	}
	for changed := true; changed; {
		changed = false
		for i := n - 1; i >= 0; i-- {
			b := fn.Blocks[i]
			if len(b.Succs) == 0 {
				continue
			}
			var inter map[int]bool
			for _, s := range b.Succs {
				ps := pdom[s.Index]
				if inter == nil {
					inter = map[int]bool{}
					for k := range ps {
						inter[k] = true
					}
				} else {
					for k := range inter {
						if !ps[k] {
							delete(inter, k)
						}
					}
				}
			}
			inter[i] = true
			if len(inter) != len(pdom[i]) {
				pdom[i] = inter
				changed = true
			}
		}
	}
	direct := map[*ssa.BasicBlock]map[*ssa.BasicBlock]bool{}
	for _, a := range fn.Blocks {
		if len(a.Succs) < 2 {
			continue
		}
		for _, s := range a.Succs {
			for bi := range pdom[s.Index] {
				// bi post-dominates s; it depends on a unless it also strictly post-dominates a
				if bi != a.Index && pdom[a.Index][bi] {
					continue
				}
				b := fn.Blocks[bi]
				if direct[b] == nil {
					direct[b] = map[*ssa.BasicBlock]bool{}
				}
				direct[b][a] = true
			}
		}
	}
	out := map[*ssa.BasicBlock]map[ssa.Value]bool{}
	for _, b := range fn.Blocks {
		seen := map[*ssa.BasicBlock]bool{}
		conds := map[ssa.Value]bool{}
		var rec func(x *ssa.BasicBlock)
		rec = func(x *ssa.BasicBlock) {
			for a := range direct[x] {
				if seen[a] {
					continue
				}
				seen[a] = true
				if iff, ok := a.Instrs[len(a.Instrs)-1].(*ssa.If); ok {
					conds[iff.Cond] = true
				}
				rec(a)
			}
		}
		rec(b)
		out[b] = conds
	}
	return out
}

// c04r13: with --no-sort (and for a negated-only or empty query) the merger concatenates the per-partition
// result lists in partition order, so the partitions have to be CONTIGUOUS runs of the chunk list in input
// order. sliceChunks therefore hands out sub-slices `chunks[a:b]` (round-7 mutant C04a7 dealt the chunks out
// round-robin to balance the load: with more chunks than partitions the unsorted order was shuffled).
func c04r13(c *Ctx, r *Report) {
	l := c.L
	r.rule("C04-R13", "D (provenance: every partition is a sub-slice of the input)", "P1",
		"in Matcher.sliceChunks, every value stored into an element of the returned [][]*Chunk is a slice expression over the `chunks` parameter (not a list built by append)",
		"--no-sort / negated-only / empty-query results are not in input order once there are more chunks than partitions")
	sc := l.Fn("fzf", "(*Matcher).sliceChunks")
	if sc == nil || len(sc.Params) < 2 {
		r.unest("anchors", token.NoPos, nil, "anchor Matcher.sliceChunks", "cannot resolve")
		return
	}
	chunks := sc.Params[1]
	n := 0
	eachInstr(sc, func(in ssa.Instruction) {
		st, ok := in.(*ssa.Store)
		if !ok {
			return
		}
		ia, ok := st.Addr.(*ssa.IndexAddr)
		if !ok {
			return
		}
		sl, ok := ia.X.Type().Underlying().(*types.Slice)
		if !ok {
			return
		}
		if _, ok := sl.Elem().Underlying().(*types.Slice); !ok {
			return
		}
		n++
		x, isSlice := st.Val.(*ssa.Slice)
		r.check(isSlice && x.X == ssa.Value(chunks), fmt.Sprintf("%s:partition #%d is a contiguous run", relName(sc), n), st.Pos(), sc,
			"the partition is chunks[a:b]", "the partition is not a sub-slice of the chunk list: the concatenation of the partitions is no longer the input order")
	})
	r.floor("partitions stored by sliceChunks", n, 1)
}

// c05r12: matchChunk calls Pattern.MatchItem from four loops (full scan / narrowed by a cached superset,
// with and without exclusions). Whether positions are computed changes the reported range (FuzzyMatchV2
// documents that), hence the sort key; so all four must pass the pattern's own withPos (round-7 mutant C05a7
// passed `false` in the narrowed loop only: the rank of a line depended on whether an earlier query had
// populated the cache).
func c05r12(c *Ctx, r *Report) {
	l := c.L
	r.rule("C05-R12", "E (sibling call sites agree on an argument)", "P1",
		"every call of Pattern.MatchItem in Pattern.matchChunk passes a load of Pattern.withPos as its withPos argument",
		"the match range, and with it the chunk/pathname/begin/end sort key, of a line depends on the query history (cache hit or not)")
	mc := l.Fn("fzf", "(*Pattern).matchChunk")
	mi := l.Fn("fzf", "(*Pattern).MatchItem")
	if mc == nil || mi == nil {
		r.unest("anchors", token.NoPos, nil, "anchors Pattern.matchChunk / Pattern.MatchItem", "cannot resolve")
		return
	}
	n := 0
	eachInstr(mc, func(in ssa.Instruction) {
		call, ok := in.(*ssa.Call)
		if !ok || !callIs(call.Common(), mi) {
			return
		}
		n++
		fld, _ := loadedField(call.Call.Args[2])
		r.check(fld != nil && fld.Name() == "withPos", fmt.Sprintf("%s:MatchItem call #%d passes p.withPos", relName(mc), n), call.Pos(), mc,
			"withPos is the pattern's own setting", "this call does not pass Pattern.withPos: the same line gets a different range here than in the sibling loops")
	})
	r.floor("MatchItem calls in matchChunk", n, 4)
}

// c05r13: one Pattern is shared by all matcher workers (and by the terminal, which re-matches the visible
// lines). Everything reachable from Pattern.MatchItem therefore has to treat the Pattern as read-only
// (round-7 mutant C05c7 kept a one-element token array in the Pattern "to avoid an allocation per item": two
// workers overwrote each other's token and lines were matched against another line's text).
func c05r13(c *Ctx, r *Report) {
	l := c.L
	r.rule("C05-R13", "B (no writer of shared state on the workers' path)", "P1",
		"no function reachable through static calls from Pattern.MatchItem stores into memory addressed through a *Pattern (a field of the Pattern, or an element of an array field)",
		"two workers scribble on the same scratch field of the shared Pattern: a line is matched against another line's text, depending on scheduling")
	mi := l.Fn("fzf", "(*Pattern).MatchItem")
	pat := l.Named("fzf", "Pattern")
	if mi == nil || pat == nil {
		r.unest("anchors", token.NoPos, nil, "anchors Pattern.MatchItem / Pattern", "cannot resolve")
		return
	}
	reach := map[*ssa.Function]bool{}
	var walk func(f *ssa.Function)
	walk = func(f *ssa.Function) {
		if f == nil || reach[f] || f.Blocks == nil || f.Pkg == nil || !isModulePkg(f.Pkg.Pkg) {
			return
		}
		reach[f] = true
		eachInstr(f, func(in ssa.Instruction) {
			walk(staticCallee(in))
			if mcl, ok := in.(*ssa.MakeClosure); ok {
				walk(mcl.Fn.(*ssa.Function))
			}
		})
	}
	walk(mi)
	var fns []*ssa.Function
	for f := range reach {
		fns = append(fns, f)
	}
	sort.Slice(fns, func(i, j int) bool { return relName(fns[i]) < relName(fns[j]) })
	n := 0
	for _, f := range fns {
		k := 0
		eachInstr(f, func(in ssa.Instruction) {
			st, ok := in.(*ssa.Store)
			if !ok {
				return
			}
			n++
			root := addrRoot(st.Addr)
			through := false
			if root != nil {
				if pt, ok := root.Type().(*types.Pointer); ok {
					if nn, ok := pt.Elem().(*types.Named); ok && nn.Obj() == pat.Obj() {
						if _, isAlloc := root.(*ssa.Alloc); !isAlloc {
							through = true
						}
					}
				}
			}
			if through {
				k++
				r.bad(fmt.Sprintf("%s:store #%d through the shared Pattern", relName(f), k), st.Pos(), f, "the Pattern is read-only on the matching path", "a worker writes into the Pattern that all workers share")
			}
		})
	}
	r.ok(relName(mi)+":Pattern is read-only below MatchItem", mi.Pos(), mi, fmt.Sprintf("%d functions reachable from MatchItem, %d stores inspected, none through a *Pattern", len(fns), n))
	r.floor("functions reachable from Pattern.MatchItem", len(fns), 8)
}

// c08r16: a cached merger is valid for one revision of the input. With --tail the minor revision changes
// while the item count stays the same, so the count check cannot stand in for it: wherever Matcher.Loop sees
// that the request's revision differs from its own, every path to the next scan replaces the merger cache
// (round-7 mutant C06a7 kept the cache for compatible revisions "because the count check catches the rest":
// a trimmed stream re-served the merger of the untrimmed snapshot).
func c08r16(c *Ctx, r *Report) {
	l := c.L
	r.rule("C08-R16", "A (must-pass-through on the `revision differs` edge)", "P1",
		"in Matcher.Loop, from the edge on which MatchRequest.revision differs from Matcher.revision every path to the call of scan passes `m.mergerCache = make(..)`",
		"with --tail and a constant item count the match list of an older, differently trimmed snapshot is served from the merger cache")
	mloop := l.Fn("fzf", "(*Matcher).Loop")
	scan := l.Fn("fzf", "(*Matcher).scan")
	fMC := l.Field("fzf", "Matcher", "mergerCache")
	if mloop == nil || scan == nil || fMC == nil {
		r.unest("anchors", token.NoPos, nil, "anchors Matcher.Loop / scan / Matcher.mergerCache", "cannot resolve")
		return
	}
	isRev := func(v ssa.Value, owner string) bool {
		fld, base := loadedField(v)
		if fld == nil || fld.Name() != "revision" || base == nil {
			return false
		}
		n, ok := deref(base.Type()).(*types.Named)
		return ok && n.Obj().Name() == owner
	}
	n := 0
	eachInstr(mloop, func(in ssa.Instruction) {
		ifi, ok := in.(*ssa.If)
		if !ok {
			return
		}
		atom, neg := normCond(ifi.Cond)
		b, ok := atom.(*ssa.BinOp)
		if !ok || (b.Op != token.EQL && b.Op != token.NEQ) {
			return
		}
		if !(isRev(b.X, "MatchRequest") && isRev(b.Y, "Matcher") || isRev(b.Y, "MatchRequest") && isRev(b.X, "Matcher")) {
			return
		}
		n++
		eqTrue := (b.Op == token.EQL) != neg
		diff := ifi.Block().Succs[1]
		if !eqTrue {
			diff = ifi.Block().Succs[0]
		}
		start := diff.Instrs[0]
		isReset := func(i ssa.Instruction) bool {
			st, ok := i.(*ssa.Store)
			if !ok {
				return false
			}
			fld, _ := fieldOf(st.Addr)
			_, isMake := st.Val.(*ssa.MakeMap)
			return fld == fMC && isMake
		}
		goal := ssa.Instruction(nil)
		if !isReset(start) {
			goal = pathAvoiding(start, func(i ssa.Instruction) bool { return staticCallee(i) == scan || isReturn(i) }, isReset, nil)
			if staticCallee(start) == scan {
				goal = start
			}
		}
		r.check(goal == nil, fmt.Sprintf("%s:revision change #%d resets mergerCache", relName(mloop), n), b.Pos(), mloop,
			"a different revision replaces the merger cache before the next scan", "a request with a different (minor) revision can reach the scan with the old merger cache in place")
	})
	r.floor("revision comparisons in Matcher.Loop", n, 1)
}

// condsOf returns the branch conditions block b is control dependent on in fn (cached per function).
type cdCache map[*ssa.Function]map[*ssa.BasicBlock]map[ssa.Value]bool

func (cc cdCache) of(in ssa.Instruction) map[ssa.Value]bool {
	fn := in.Parent()
	if cc[fn] == nil {
		cc[fn] = controlConds(fn)
	}
	return cc[fn][in.Block()]
}

// dependsOnCall reports whether v is computed from a call satisfying pred (intra-procedural slice).
func dependsOnCall(v ssa.Value, pred func(*ssa.Call) bool) bool {
	for w := range backwardSlice(v, func(*ssa.CallCommon) bool { return true }, nil) {
		if call, ok := w.(*ssa.Call); ok && pred(call) {
			return true
		}
	}
	return false
}

// c07r8..r10: three decisions on the output path whose conditions must stay exactly what they are.
func c07r8(c *Ctx, r *Report) {
	l := c.L
	cc := cdCache{}
	// ---- R8: keyMatch
	r.rule("C07-R8", "A (control dependence of a comparison)", "P1",
		"in keyMatch, the comparison of the Char fields of the two events is control dependent on nothing but the comparison of their Type fields",
		"--expect (and every other lookup through keyMatch) treats all keys of one class as the same key: with `--expect alt-a`, alt-b is reported as alt-a")
	if km := l.Fn("fzf", "keyMatch"); km == nil {
		r.unest("anchors", token.NoPos, nil, "anchor keyMatch", "cannot resolve")
	} else {
		isFld := func(v ssa.Value, name string) bool {
			fld, _ := loadedField(v)
			if fld == nil {
				if f2, ok := v.(*ssa.Field); ok {
					return f2.X.Type().Underlying().(*types.Struct).Field(f2.Field).Name() == name
				}
				return false
			}
			return fld.Name() == name
		}
		n := 0
		eachInstr(km, func(in ssa.Instruction) {
			b, ok := in.(*ssa.BinOp)
			if !ok || (b.Op != token.EQL && b.Op != token.NEQ) || !isFld(b.X, "Char") || !isFld(b.Y, "Char") {
				return
			}
			n++
			why := ""
			for cond := range cc.of(in) {
				cb, ok := cond.(*ssa.BinOp)
				if ok && (cb.Op == token.EQL || cb.Op == token.NEQ) && isFld(cb.X, "Type") && isFld(cb.Y, "Type") {
					continue
				}
				why = fmt.Sprintf("it is only made under the condition at %s", l.pos(cond.Pos()))
			}
			r.check(why == "", relName(km)+":Char compared whenever the types agree", b.Pos(), km, "the characters are compared for every key type", why+": keys of the other types match whatever their character")
		})
		r.floor("comparisons of Event.Char in keyMatch", n, 1)
	}
	// ---- R9: the child's stdout
	r.rule("C07-R9", "A (control dependence of a redirection)", "P1",
		"in Terminal.executeCommand, a store of anything but os.Stdout into exec.Cmd.Stdout is not control dependent on a property of os.Stderr",
		"with fzf's stdout piped and stderr on the terminal, the output of execute(...) commands goes into fzf's own output")
	if ec := l.Fn("fzf", "(*Terminal).executeCommand"); ec == nil {
		r.unest("anchors", token.NoPos, nil, "anchor Terminal.executeCommand", "cannot resolve")
	} else {
		isGlobalLoad := func(v ssa.Value, name string) bool {
			found := false
			for w := range backwardSlice(v, nil, nil) {
				if u, ok := w.(*ssa.UnOp); ok && u.Op == token.MUL {
					if g, ok := u.X.(*ssa.Global); ok && g.Name() == name && g.Pkg.Pkg.Path() == "os" {
						found = true
					}
				}
			}
			return found
		}
		n := 0
		for _, f := range withClosures(ec) {
			eachInstr(f, func(in ssa.Instruction) {
				st, ok := in.(*ssa.Store)
				if !ok {
					return
				}
				fld, _ := fieldOf(st.Addr)
				if fld == nil || fld.Name() != "Stdout" || fld.Pkg() == nil || fld.Pkg().Path() != "os/exec" {
					return
				}
				if isGlobalLoad(st.Val, "Stdout") {
					return
				}
				n++
				why := ""
				for cond := range cc.of(in) {
					if dependsOnCall(cond, func(call *ssa.Call) bool {
						for _, a := range call.Call.Args {
							if isGlobalLoad(a, "Stderr") {
								return true
							}
						}
						return false
					}) {
						why = l.pos(cond.Pos())
					}
				}
				r.check(why == "", fmt.Sprintf("%s:redirection #%d of the command's stdout depends on fzf's stdout only", relName(ec), n), st.Pos(), f,
					"independent of os.Stderr", fmt.Sprintf("the redirection happens only under a condition on os.Stderr (%s)", why))
			})
		}
		r.floor("redirections of the command's stdout", n, 1)
	}
	// ---- R10: the selection is printed whatever the list shows
	r.rule("C07-R10", "A (control dependence of the print loop)", "P1",
		"in Terminal.output, the calls of the printer for the selected items are not control dependent on Merger.Length()",
		"accept with a non-empty selection prints nothing (exit 1) when the current query matches nothing")
	out := l.Fn("fzf", "(*Terminal).output")
	mlen := l.Fn("fzf", "(*Merger).Length")
	ss := l.Fn("fzf", "(*Terminal).sortSelected")
	if out == nil || mlen == nil || ss == nil {
		r.unest("anchors", token.NoPos, nil, "anchors Terminal.output / Merger.Length / sortSelected", "cannot resolve")
		return
	}
	n := 0
	eachInstr(out, func(in ssa.Instruction) {
		call, ok := in.(*ssa.Call)
		if !ok || call.Common().IsInvoke() {
			return
		}
		fld, _ := loadedField(call.Common().Value)
		if fld == nil || fld.Name() != "printer" {
			return
		}
		// only the prints fed from the selection
		if len(call.Call.Args) == 0 || !dependsOnCall(call.Call.Args[0], func(c2 *ssa.Call) bool { return callIs(c2.Common(), ss) }) {
			return
		}
		n++
		why := ""
		for cond := range cc.of(in) {
			if dependsOnCall(cond, func(c2 *ssa.Call) bool { return callIs(c2.Common(), mlen) }) {
				why = l.pos(cond.Pos())
			}
		}
		r.check(why == "", fmt.Sprintf("%s:print of the selection #%d does not depend on the match count", relName(out), n), call.Pos(), out,
			"the selection is printed whatever the current list shows", fmt.Sprintf("the selection is printed only under a condition on Merger.Length() (%s)", why))
	})
	r.floor("prints of selected items in Terminal.output", n, 1)
}

// c06r10: outside Reader.feed (whose buffer discipline C06-R1 checks) a record handed to the pusher must be
// backed by memory nothing rewrites: the items keep the slice. A string is such memory (round-7 mutant C06b7
// copied the strings of Options.Input into a recycled slab: once the slab wrapped, earlier items changed).
func c06r10(c *Ctx, r *Report) {
	l := c.L
	r.rule("C06-R10", "D (provenance of the pushed bytes)", "P1",
		"in the methods of Reader other than feed, every value passed to Reader.pusher is converted from a string ([]byte(s) or stringBytes(s)), not a window of a byte buffer",
		"library input (Options.Input) longer than the buffer: items that were already read change their text")
	feed := l.Fn("fzf", "(*Reader).feed")
	sb := l.Fn("fzf", "stringBytes")
	n := 0
	for _, fn := range l.AllFuncs() {
		if fn.Blocks == nil || fn.Pkg != l.pkg("fzf") || rootFn(fn) == feed {
			continue
		}
		rf := rootFn(fn)
		if rf.Signature.Recv() == nil {
			continue
		}
		if nn, ok := deref(rf.Signature.Recv().Type()).(*types.Named); !ok || nn.Obj().Name() != "Reader" {
			continue
		}
		k := 0
		eachInstr(fn, func(in ssa.Instruction) {
			call, ok := in.(*ssa.Call)
			if !ok || call.Common().IsInvoke() {
				return
			}
			fld, _ := loadedField(call.Common().Value)
			if fld == nil || fld.Name() != "pusher" {
				return
			}
			n++
			k++
			a := call.Call.Args[0]
			fromString := false
			switch x := a.(type) {
			case *ssa.Convert:
				if bt, ok := x.X.Type().Underlying().(*types.Basic); ok && bt.Info()&types.IsString != 0 {
					fromString = true
				}
			case *ssa.Call:
				fromString = sb != nil && callIs(x.Common(), sb)
			}
			r.check(fromString, fmt.Sprintf("%s:record #%d handed to the pusher is backed by a string", relName(rf), k), call.Pos(), fn,
				"the bytes come from a string", "the pushed bytes are a window of a buffer: a later write to the buffer changes an item that was already read")
		})
	}
	r.floor("pushes outside Reader.feed", n, 2)
}

// c08r17: "did it change?" must be asked of the field that is then updated. change-nth compares the new
// field selection with Terminal.nthCurrent and stores it there; comparing with the start-up value Terminal.nth
// instead makes a change BACK to the start-up value look like no change (round-7 mutant C08b7/C10b7).
func c08r17(c *Ctx, r *Report) {
	l := c.L
	r.rule("C08-R17", "E (the compared field is the assigned field)", "P1",
		"every store into Terminal.nthCurrent that is control dependent on a compareRanges call gets, as one argument of that call, a load of Terminal.nthCurrent itself",
		"change-nth back to the value fzf was started with sends no search request: the list stays that of the previous field selection")
	fCur := l.Field("fzf", "Terminal", "nthCurrent")
	cmp := l.Fn("fzf", "compareRanges")
	if fCur == nil || cmp == nil {
		r.unest("anchors", token.NoPos, nil, "anchors Terminal.nthCurrent / compareRanges", "cannot resolve")
		return
	}
	cc := cdCache{}
	n := 0
	for _, fn := range l.AllFuncs() {
		if fn.Blocks == nil || fn.Pkg != l.pkg("fzf") {
			continue
		}
		eachInstr(fn, func(in ssa.Instruction) {
			st, ok := in.(*ssa.Store)
			if !ok {
				return
			}
			if fld, _ := fieldOf(st.Addr); fld != fCur {
				return
			}
			var guard *ssa.Call
			for cond := range cc.of(in) {
				for w := range backwardSlice(cond, func(*ssa.CallCommon) bool { return false }, nil) {
					if call, ok := w.(*ssa.Call); ok && callIs(call.Common(), cmp) {
						guard = call
					}
				}
			}
			if guard == nil {
				return
			}
			n++
			same := false
			for _, a := range guard.Call.Args {
				if fld, _ := loadedField(a); fld == fCur {
					same = true
				}
			}
			r.check(same, fmt.Sprintf("%s:nthCurrent #%d is compared before it is replaced", relName(rootFn(fn)), n), guard.Pos(), fn,
				"the comparison reads Terminal.nthCurrent", "the store into Terminal.nthCurrent is guarded by a comparison with another field: a change back to that field's value is not seen as a change")
		})
	}
	r.floor("guarded stores into Terminal.nthCurrent", n, 1)
}

// c08r18: an empty pattern lets the matcher skip the scan and pass the whole snapshot through. A pattern with
// excluded items is never empty in that sense, in either syntax mode: every non-false return of IsEmpty has
// consulted the denylist (round-7 mutant C08c7 folded the test into the extended branch only).
func c08r18(c *Ctx, r *Report) {
	l := c.L
	r.rule("C08-R18", "A (every `true` answer has looked at the exclusions)", "P1",
		"in Pattern.IsEmpty every return of a value other than the constant false either is reached only under a test of len(p.denylist) or returns a value computed from such a test",
		"with --no-extended, an excluded item comes back into the list when the query is cleared")
	ie := l.Fn("fzf", "(*Pattern).IsEmpty")
	fDeny := l.Field("fzf", "Pattern", "denylist")
	if ie == nil || fDeny == nil {
		r.unest("anchors", token.NoPos, nil, "anchors Pattern.IsEmpty / Pattern.denylist", "cannot resolve")
		return
	}
	onDeny := func(v ssa.Value) bool {
		for w := range backwardSlice(v, nil, nil) {
			if call, ok := w.(*ssa.Call); ok && calleeName(call.Common()) == "builtin.len" {
				if fld, _ := loadedField(call.Call.Args[0]); fld == fDeny {
					return true
				}
			}
		}
		return false
	}
	cc := cdCache{}
	n := 0
	eachInstr(ie, func(in ssa.Instruction) {
		ret, ok := in.(*ssa.Return)
		if !ok || len(ret.Results) != 1 {
			return
		}
		rv := retResult(ret, 0)
		if k, ok := rv.(*ssa.Const); ok && k.Value != nil && k.Value.String() == "false" {
			return
		}
		n++
		ok2 := onDeny(rv)
		if phi, isPhi := rv.(*ssa.Phi); isPhi && !ok2 {
			// a short-circuit `a && b`: one edge constant false, the others computed
			for _, e := range phi.Edges {
				if onDeny(e) {
					ok2 = true
				}
			}
		}
		for cond := range cc.of(in) {
			if onDeny(cond) {
				ok2 = true
			}
		}
		r.check(ok2, fmt.Sprintf("%s:return #%d has consulted the denylist", relName(ie), n), ret.Pos(), ie,
			"the answer depends on len(p.denylist)", "this return can answer `empty` without having looked at the excluded items")
	})
	r.floor("non-false returns of Pattern.IsEmpty", n, 2)
}

// c09r11: a kill command saves the killed text for yank. The text has to be read from Terminal.input BEFORE the
// same function rewrites Terminal.input in place (round-7 mutant C09a7 swapped the two statements of rubout:
// with the cursor inside the query the yank buffer held the text that had moved into the gap).
func c09r11(c *Ctx, r *Report) {
	l := c.L
	r.rule("C09-R11", "P (read-before-overwrite)", "P1",
		"for every store into Terminal.yanked whose value is computed from a load of Terminal.input, no store into Terminal.input of the same function can reach that load",
		"unix-word-rubout / backward-kill-word with the cursor inside the query: yank inserts the wrong text")
	fIn := l.Field("fzf", "Terminal", "input")
	fY := l.Field("fzf", "Terminal", "yanked")
	if fIn == nil || fY == nil {
		r.unest("anchors", token.NoPos, nil, "anchors Terminal.input / Terminal.yanked", "cannot resolve")
		return
	}
	n := 0
	for _, fn := range l.AllFuncs() {
		if fn.Blocks == nil || fn.Pkg != l.pkg("fzf") {
			continue
		}
		var inStores []ssa.Instruction
		eachInstr(fn, func(in ssa.Instruction) {
			if st, ok := in.(*ssa.Store); ok {
				if fld, _ := fieldOf(st.Addr); fld == fIn {
					inStores = append(inStores, in)
				}
			}
		})
		k := 0
		eachInstr(fn, func(in ssa.Instruction) {
			st, ok := in.(*ssa.Store)
			if !ok {
				return
			}
			if fld, _ := fieldOf(st.Addr); fld != fY {
				return
			}
			var loads []ssa.Instruction
			for w := range backwardSlice(st.Val, func(*ssa.CallCommon) bool { return true }, nil) {
				if u, ok := w.(*ssa.UnOp); ok && u.Op == token.MUL {
					if fld, _ := fieldOf(u.X); fld == fIn {
						loads = append(loads, u)
					}
				}
			}
			if len(loads) == 0 {
				return
			}
			n++
			k++
			bad := ""
			for _, ld := range loads {
				for _, s := range inStores {
					if canReach(s, ld) && !canReach(ld, s) || s.Block() == ld.Block() && instrIndex(s) < instrIndex(ld) {
						bad = l.pos(s.Pos())
					}
				}
			}
			r.check(bad == "", fmt.Sprintf("%s:yank #%d is taken from the query before the query is rewritten", relName(rootFn(fn)), k), st.Pos(), fn,
				"the killed text is read before Terminal.input is stored", fmt.Sprintf("Terminal.input is rewritten at %s before the killed text is read from it", bad))
		})
	}
	r.floor("stores into Terminal.yanked computed from the query", n, 3)
}

// c09r12: the terminal learns from a merger's revision that the input was reloaded (and drops the selection,
// resets the caches of line heights). Every merger scan builds must therefore carry the request's revision,
// also the one for an empty input (round-7 mutant C09b7 returned EmptyMerger(revision{}): a reload that
// produces nothing kept the old selection).
func c09r12(c *Ctx, r *Report) {
	l := c.L
	r.rule("C09-R12", "D (provenance of the revision handed to every merger constructor)", "P1",
		"in Matcher.scan, every argument of type revision passed to EmptyMerger / PassMerger / NewMerger is a load of MatchRequest.revision",
		"after a reload whose command prints nothing the old selection survives and is printed on accept")
	scan := l.Fn("fzf", "(*Matcher).scan")
	if scan == nil {
		r.unest("anchors", token.NoPos, nil, "anchor Matcher.scan", "cannot resolve")
		return
	}
	n := 0
	for _, fn := range withClosures(scan) {
		eachInstr(fn, func(in ssa.Instruction) {
			call, ok := in.(*ssa.Call)
			if !ok || call.Common().StaticCallee() == nil {
				return
			}
			// a merger constructor: a package-level function returning *Merger
			callee := call.Common().StaticCallee()
			if callee.Signature.Recv() != nil || callee.Signature.Results().Len() != 1 {
				return
			}
			if pt, ok := callee.Signature.Results().At(0).Type().(*types.Pointer); !ok {
				return
			} else if nn, ok := pt.Elem().(*types.Named); !ok || nn.Obj().Name() != "Merger" {
				return
			}
			for _, a := range call.Call.Args {
				nt, ok := a.Type().(*types.Named)
				if !ok || nt.Obj().Name() != "revision" {
					continue
				}
				n++
				fld, _ := loadedField(a)
				r.check(fld != nil && fld.Name() == "revision", fmt.Sprintf("%s:revision of merger #%d is the request's", relName(scan), n), call.Pos(), fn,
					"the merger carries MatchRequest.revision", "this merger is built with a revision that is not the request's: the terminal cannot tell that the input was reloaded")
			}
		})
	}
	r.floor("merger constructors called by scan", n, 3)
}

// c09r13: Merger.Get maps a display position to an item and Merger.FindIndex maps an item back to a
// position (used by --track). For a pass-through merger both do it by arithmetic, and both have to mirror
// the index under --tac (round-7 mutant C09c7 removed the mirroring from FindIndex only).
func c09r13(c *Ctx, r *Report) {
	l := c.L
	r.rule("C09-R13", "E (two inverse mappings agree on the mirror)", "P1",
		"Merger.Get and Merger.FindIndex each contain a subtraction from Merger.count that is control dependent on Merger.tac",
		"--tac --track with an empty query: after the list grows the cursor jumps to the mirrored line")
	fCount := l.Field("fzf", "Merger", "count")
	fTac := l.Field("fzf", "Merger", "tac")
	if fCount == nil || fTac == nil {
		r.unest("anchors", token.NoPos, nil, "anchors Merger.count / Merger.tac", "cannot resolve")
		return
	}
	cc := cdCache{}
	for _, name := range []string{"(*Merger).Get", "(*Merger).FindIndex"} {
		fn := l.Fn("fzf", name)
		if fn == nil {
			r.unest("anchors", token.NoPos, nil, "anchor "+name, "cannot resolve")
			continue
		}
		mirrored := false
		eachInstr(fn, func(in ssa.Instruction) {
			b, ok := in.(*ssa.BinOp)
			if !ok || b.Op != token.SUB {
				return
			}
			if fld, _ := loadedField(b.X); fld != fCount {
				return
			}
			for cond := range cc.of(in) {
				for w := range backwardSlice(cond, nil, nil) {
					if fld, _ := loadedField(w); fld == fTac {
						mirrored = true
					}
				}
			}
		})
		r.check(mirrored, relName(fn)+":mirrors the position under tac", fn.Pos(), fn, "count - x under tac", "no mirroring of the position under Merger.tac: the mapping disagrees with its inverse when --tac is set")
	}
}

// c10r6: the same field-index grammar is accepted in plain form (`1,3..`) and inside the braces of a template
// (`{1} {3..}`); the character class of the template's placeholder pattern has to be the class of the plain
// form's validation pattern (round-7 mutant C10c7 allowed `-` only right after the brace: `{2..-1}` was no
// longer a placeholder and was printed literally).
func c10r6(c *Ctx, r *Report) {
	l := c.L
	r.rule("C10-R6", "E (agreement of constant patterns)", "P1",
		"all constant regular expressions of splitNth and nthTransformer that contain a repeated character class use the same class",
		"a field expression that is valid in plain form is not recognised inside a --with-nth / --accept-nth template")
	var classes []string
	var where []token.Pos
	var fns []*ssa.Function
	for _, name := range []string{"splitNth", "nthTransformer"} {
		fn := l.Fn("fzf", name)
		if fn == nil {
			r.unest("anchors", token.NoPos, nil, "anchor "+name, "cannot resolve")
			return
		}
		for _, f := range withClosures(fn) {
			eachInstr(f, func(in ssa.Instruction) {
				call, ok := in.(*ssa.Call)
				if !ok {
					return
				}
				switch calleeName(call.Common()) {
				case "regexp.MustCompile", "regexp.MatchString", "regexp.Compile":
				default:
					return
				}
				pat, ok := constString(call.Call.Args[0])
				if !ok {
					return
				}
				re, err := syntax.Parse(pat, syntax.Perl)
				if err != nil {
					return
				}
				var find func(x *syntax.Regexp) *syntax.Regexp
				find = func(x *syntax.Regexp) *syntax.Regexp {
					if (x.Op == syntax.OpPlus || x.Op == syntax.OpStar) && len(x.Sub) == 1 && x.Sub[0].Op == syntax.OpCharClass {
						return x.Sub[0]
					}
					for _, s := range x.Sub {
						if c := find(s); c != nil {
							return c
						}
					}
					return nil
				}
				if cl := find(re); cl != nil {
					classes = append(classes, fmt.Sprint(cl.Rune))
					where = append(where, call.Pos())
					fns = append(fns, f)
				}
			})
		}
	}
	for i := range classes {
		r.check(classes[i] == classes[0], fmt.Sprintf("fzf.nthTransformer:field-expression pattern #%d uses the common class", i+1), where[i], fns[i],
			"same character class as the plain form", "this pattern's character class differs from the plain form's: the two forms accept different field expressions")
	}
	r.floor("field-expression patterns", len(classes), 3)
}

// c11r16: colorOffsets paints one cell record per character and cuts a new colour span wherever the record
// changes. The cut has to compare the WHOLE record (colour index, match flag, nth flag ...): a comparison
// that ignores a field merges spans that differ in it (round-7 mutant C11b7 merged adjacent matched cells
// regardless of their ANSI colour).
func c11r16(c *Ctx, r *Report) {
	l := c.L
	r.rule("C11-R16", "A (the span boundary test is a total comparison)", "P1",
		"in Result.colorOffsets, the call that closes a span inside the loop over the cells is control dependent on an (in)equality of two cellInfo values as a whole",
		"two differently coloured spans that touch inside a match are drawn in one colour")
	co := l.Fn("fzf", "(*Result).colorOffsets")
	if co == nil {
		r.unest("anchors", token.NoPos, nil, "anchor Result.colorOffsets", "cannot resolve")
		return
	}
	loops := natLoops(co)
	cc := cdCache{}
	n := 0
	eachInstr(co, func(in ssa.Instruction) {
		call, ok := in.(*ssa.Call)
		if !ok || call.Common().StaticCallee() == nil || call.Common().StaticCallee().Parent() != co {
			return
		}
		inLoop := false
		for _, lp := range loops {
			if lp.body[in.Block()] {
				inLoop = true
			}
		}
		if !inLoop || len(call.Call.Args) < 1 {
			return
		}
		// the span-closing closure takes the cell index
		if bt, ok := call.Call.Args[len(call.Call.Args)-1].Type().Underlying().(*types.Basic); !ok || bt.Info()&types.IsInteger == 0 {
			return
		}
		total := false
		for cond := range cc.of(in) {
			if b, ok := cond.(*ssa.BinOp); ok && (b.Op == token.NEQ || b.Op == token.EQL) {
				if nt, ok := b.X.Type().(*types.Named); ok && nt.Obj().Name() == "cellInfo" {
					total = true
				}
			}
		}
		if len(cc.of(in)) == 0 {
			return
		}
		n++
		r.check(total, fmt.Sprintf("%s:span cut #%d compares whole cells", relName(co), n), call.Pos(), co, "cellInfo values are compared as a whole", "the span is cut under a condition that is not a comparison of the two cell records as a whole: cells that differ in an ignored field end up in one span")
	})
	r.floor("span cuts inside the cell loop", n, 1)
}

// c07r11: --accept-nth prints fields of the line as the user sees it: with --ansi the line is tokenised after
// the escape sequences were removed, exactly as the list was. Item.acceptNth therefore tokenises
// item.AsString(stripAnsi) with ITS OWN stripAnsi argument (round-7 mutant C11c7 tokenised the raw line and
// stripped afterwards: sequences that contain delimiter characters shifted the fields).
func c07r11(c *Ctx, r *Report) {
	l := c.L
	r.rule("C07-R11", "D (provenance of the tokenised text)", "P1",
		"in Item.acceptNth, the text given to Tokenize is the result of Item.AsString called with acceptNth's stripAnsi parameter",
		"--ansi --accept-nth prints other fields than the ones selected when escape sequences contain the delimiter")
	an := l.Fn("fzf", "(*Item).acceptNth")
	tok := l.Fn("fzf", "Tokenize")
	as := l.Fn("fzf", "(*Item).AsString")
	if an == nil || tok == nil || as == nil {
		r.unest("anchors", token.NoPos, nil, "anchors Item.acceptNth / Tokenize / Item.AsString", "cannot resolve")
		return
	}
	var strip *ssa.Parameter
	for _, p := range an.Params {
		if bt, ok := p.Type().Underlying().(*types.Basic); ok && bt.Kind() == types.Bool {
			strip = p
		}
	}
	n := 0
	eachInstr(an, func(in ssa.Instruction) {
		call, ok := in.(*ssa.Call)
		if !ok || !callIs(call.Common(), tok) {
			return
		}
		n++
		src, ok := call.Call.Args[0].(*ssa.Call)
		good := ok && callIs(src.Common(), as) && len(src.Call.Args) == 2 && strip != nil && src.Call.Args[1] == ssa.Value(strip)
		r.check(good, fmt.Sprintf("%s:Tokenize #%d gets the text as displayed", relName(an), n), call.Pos(), an, "Tokenize(item.AsString(stripAnsi), ..)", "the tokenised text is not AsString(stripAnsi): the fields are cut on another text than the one the list shows")
	})
	r.floor("Tokenize calls in Item.acceptNth", n, 1)
}

// c12r9: a preview request carries a template and the item list the template's {+} flags ask for. Both have
// to be derived from the SAME template (round-7 mutant C12b7 built the list for the --preview option's
// template while enqueueing the preview(...) action's template).
func c12r9(c *Ctx, r *Report) {
	l := c.L
	r.rule("C12-R9", "E (two uses of one template agree)", "P1",
		"in every closure of Terminal.Loop that builds a previewRequest, the template stored in the request is the value that was passed to buildPlusList for the request's item list",
		"preview(... {+} ...) expands {+} to the current line only, or {q}-only previews never run")
	loop := l.Fn("fzf", "(*Terminal).Loop")
	bpl := l.Fn("fzf", "(*Terminal).buildPlusList")
	if loop == nil || bpl == nil {
		r.unest("anchors", token.NoPos, nil, "anchors Terminal.Loop / buildPlusList", "cannot resolve")
		return
	}
	n := 0
	for _, fn := range withClosures(loop) {
		eachInstr(fn, func(in ssa.Instruction) {
			st, ok := in.(*ssa.Store)
			if !ok {
				return
			}
			fld, base := fieldOf(st.Addr)
			if fld == nil || fld.Name() != "template" {
				return
			}
			if nn, ok := deref(base.Type()).(*types.Named); !ok || nn.Obj().Name() != "previewRequest" {
				return
			}
			// the list stored into the same request
			var list ssa.Value
			eachInstr(fn, func(i2 ssa.Instruction) {
				if s2, ok := i2.(*ssa.Store); ok {
					if f2, b2 := fieldOf(s2.Addr); f2 != nil && f2.Name() == "list" && b2 == base {
						list = s2.Val
					}
				}
			})
			if list == nil {
				return
			}
			var src *ssa.Call
			for w := range backwardSlice(list, nil, nil) {
				if ex, ok := w.(*ssa.Extract); ok {
					if call, ok := ex.Tuple.(*ssa.Call); ok && callIs(call.Common(), bpl) {
						src = call
					}
				}
			}
			if src == nil {
				return
			}
			n++
			r.check(samePath(src.Call.Args[1], st.Val, 0), fmt.Sprintf("%s:preview request #%d lists items for its own template", relName(loop), n), src.Pos(), fn,
				"buildPlusList got the template that is enqueued", "the item list was built for another template than the one stored in the request")
		})
	}
	r.floor("preview requests built from buildPlusList", n, 1)
}

// c12r10: the string handed to the shell is the expanded template, byte for byte: between the expansion and
// exec nothing may rewrite it. Executor.ExecCommand and Executor.Become therefore pass their `command`
// parameter itself (round-7 mutant C12c7 "normalised" CR LF in ExecCommand: quoted item text was altered).
func c12r10(c *Ctx, r *Report) {
	l := c.L
	r.rule("C12-R10", "D (the command reaches exec unmodified)", "P1",
		"in Executor.ExecCommand and Executor.Become, the command parameter is appended to the shell's argument list as it is: no call takes it as an argument except append and the exec functions",
		"item text containing CR LF (or whatever the rewrite touches) is changed between quoting and execution")
	n := 0
	for _, f := range l.AllFuncs() {
		if f.Blocks == nil || f.Pkg == nil || f.Pkg.Pkg.Name() != "util" || f.Signature.Recv() == nil {
			continue
		}
		if f.Name() != "ExecCommand" && f.Name() != "Become" {
			continue
		}
		// the command is the function's only parameter of type string
		var cmdp *ssa.Parameter
		nStr := 0
		for _, p := range f.Params {
			if bt, ok := p.Type().Underlying().(*types.Basic); ok && bt.Kind() == types.String {
				cmdp = p
				nStr++
			}
		}
		if cmdp == nil || nStr != 1 {
			continue
		}
		n++
		why := ""
		// what the exec functions RETURN (an error, a *Cmd) is not the command any more
		der := forwardDerived(f, []ssa.Value{cmdp}, func(cc *ssa.CallCommon) bool {
			switch calleeName(cc) {
			case "os/exec.Command", "syscall.Exec", "os/exec.CommandContext":
				return false
			}
			return true
		})
		eachInstr(f, func(in ssa.Instruction) {
			call, ok := in.(*ssa.Call)
			if !ok {
				return
			}
			uses := false
			for _, a := range call.Call.Args {
				if der[a] {
					uses = true
				}
			}
			if !uses {
				return
			}
			switch calleeName(call.Common()) {
			case "builtin.append", "os/exec.Command", "syscall.Exec", "os/exec.CommandContext":
			default:
				if call.Common().StaticCallee() != nil && call.Common().StaticCallee().Pkg == f.Pkg && strings.Contains(strings.ToLower(call.Common().StaticCallee().Name()), "exec") {
					return
				}
				why = calleeName(call.Common())
			}
		})
		r.check(why == "", relName(f)+":command reaches exec as given", f.Pos(), f, "only append and exec see the command", "the command passes through "+why+" before it is executed")
	}
	r.floor("executor entry points taking a command", n, 2)
}

// c04r14: a pass-through merger maps a position to (chunk, slot) by division; with --tail the first chunk
// may be partial, and positions at or beyond its count belong to the following chunks. On the path that
// indexes chunk idx/chunkSize directly, `idx < firstChunk.count` must therefore hold whenever the first chunk
// is partial (round-7 mutants C04c7 and C13c7: `idx >= count` became `idx > count`; the position equal to
// the count read the unused slot of the first chunk — a zero item — and shifted nothing).
func c04r14(c *Ctx, r *Report) {
	l := c.L
	r.rule("C04-R14", "A (path condition of the direct index)", "P1",
		"in Merger.Get, every path to the access `(*mg.chunks)[idx/chunkSize]` without the +1 either has established that the first chunk is full (count < chunkSize is false) or that idx < firstChunk.count",
		"with --tail and an empty query one line of the list is an empty phantom item (and the lines after it are shifted by one)")
	get := l.Fn("fzf", "(*Merger).Get")
	fCnt := l.Field("fzf", "Chunk", "count")
	if get == nil || fCnt == nil {
		r.unest("anchors", token.NoPos, nil, "anchors Merger.Get / Chunk.count", "cannot resolve")
		return
	}
	isCnt := func(v ssa.Value) bool {
		fld, _ := loadedField(v)
		return fld == fCnt
	}
	pc := pathConds(get)
	n := 0
	eachInstr(get, func(in ssa.Instruction) {
		ia, ok := in.(*ssa.IndexAddr)
		if !ok {
			return
		}
		q, ok := ia.Index.(*ssa.BinOp)
		if !ok || q.Op != token.QUO {
			return
		}
		if sl, ok := ia.X.Type().Underlying().(*types.Slice); !ok || !strings.Contains(sl.Elem().String(), "Chunk") {
			return
		}
		n++
		idx := q.X
		holds, reach := pc.Implies(in.Block(), func(lits []Lit) bool {
			for _, lt := range lits {
				b, ok := lt.Atom.(*ssa.BinOp)
				if !ok {
					continue
				}
				// the first chunk is full
				if isCnt(b.X) {
					if _, isK := constIntVal(b.Y); isK && (b.Op == token.LSS && !lt.Val || b.Op == token.GEQ && lt.Val) {
						return true
					}
				}
				// idx < count
				switch {
				case b.X == idx && isCnt(b.Y) && (b.Op == token.GEQ && !lt.Val || b.Op == token.LSS && lt.Val):
					return true
				case isCnt(b.X) && b.Y == idx && (b.Op == token.LEQ && !lt.Val || b.Op == token.GTR && lt.Val):
					return true
				}
			}
			return false
		})
		r.check(holds && reach, fmt.Sprintf("%s:direct chunk index #%d stays inside the first chunk's items", relName(get), n), ia.Pos(), get,
			"first chunk full, or idx < its count", "a path reaches this access with a partial first chunk and idx possibly equal to its count: the unused slot behind the last item is returned")
	})
	r.floor("direct chunk accesses in Merger.Get", n, 1)
}

// samePath: a and b are the same SSA value, or loads through the same chain of fields from the same root.
func samePath(a, b ssa.Value, d int) bool {
	if a == b {
		return true
	}
	if d > 6 {
		return false
	}
	ua, ok1 := a.(*ssa.UnOp)
	ub, ok2 := b.(*ssa.UnOp)
	if ok1 && ok2 && ua.Op == token.MUL && ub.Op == token.MUL {
		if ua.X == ub.X {
			return true // two loads of the same variable (a captured receiver, a global)
		}
		fa, ok1 := ua.X.(*ssa.FieldAddr)
		fb, ok2 := ub.X.(*ssa.FieldAddr)
		if ok1 && ok2 && fa.Field == fb.Field && types.Identical(fa.X.Type(), fb.X.Type()) {
			return samePathAddr(fa.X, fb.X, d+1)
		}
	}
	return false
}

func samePathAddr(a, b ssa.Value, d int) bool {
	if a == b {
		return true
	}
	fa, ok1 := a.(*ssa.FieldAddr)
	fb, ok2 := b.(*ssa.FieldAddr)
	if ok1 && ok2 && fa.Field == fb.Field && types.Identical(fa.X.Type(), fb.X.Type()) {
		return samePathAddr(fa.X, fb.X, d+1)
	}
	return samePath(a, b, d+1)
}

// c15r9: with --input-border (or --style full) the prompt lives in a window of its own, which can be narrower
// than the list window. Every computation that sets the prompt width against a window width has to take the
// input window when there is one (round-7 mutant C15c7 made updatePromptOffset always use the list window: a
// long query ran over the right edge of the input window).
func c15r9(c *Ctx, r *Report) {
	l := c.L
	r.rule("C15-R9", "E (siblings agree on which window bounds the prompt)", "P1",
		"in every method of Terminal that reads Terminal.promptLen, each Width() call on a window that meets Terminal.promptLen in one arithmetic expression either has a receiver that may be Terminal.inputWindow or is control dependent on a test of Terminal.inputWindow",
		"the query is laid out for the width of the list window and overflows the narrower input window")
	fPL := l.Field("fzf", "Terminal", "promptLen")
	fIW := l.Field("fzf", "Terminal", "inputWindow")
	if fPL == nil || fIW == nil {
		r.unest("anchors", token.NoPos, nil, "anchors Terminal.promptLen / Terminal.inputWindow", "cannot resolve")
		return
	}
	cc := cdCache{}
	n := 0
	for _, fn := range l.AllFuncs() {
		if fn.Blocks == nil || fn.Pkg != l.pkg("fzf") {
			continue
		}
		reads := false
		eachInstr(fn, func(in ssa.Instruction) {
			if u, ok := in.(*ssa.UnOp); ok && u.Op == token.MUL {
				if fld, _ := fieldOf(u.X); fld == fPL {
					reads = true
				}
			}
		})
		if !reads {
			continue
		}
		k := 0
		eachInstr(fn, func(in ssa.Instruction) {
			call, ok := in.(*ssa.Call)
			if !ok || !call.Common().IsInvoke() || call.Common().Method.Name() != "Width" {
				return
			}
			// only widths that meet promptLen in an expression
			meets := false
			eachInstr(fn, func(i2 ssa.Instruction) {
				b, ok := i2.(*ssa.BinOp)
				if !ok {
					return
				}
				// one arithmetic expression: operands reached through binary operations only
				hasW, hasP := false, false
				var walk func(v ssa.Value, d int)
				walk = func(v ssa.Value, d int) {
					if v == ssa.Value(call) {
						hasW = true
					}
					if fld, _ := loadedField(v); fld == fPL {
						hasP = true
					}
					if bb, ok := v.(*ssa.BinOp); ok && d < 6 {
						walk(bb.X, d+1)
						walk(bb.Y, d+1)
					}
				}
				walk(b, 0)
				if hasW && hasP {
					meets = true
				}
			})
			if !meets {
				return
			}
			n++
			k++
			okW := false
			for w := range backwardSlice(call.Common().Value, nil, nil) {
				if fld, _ := loadedField(w); fld == fIW {
					okW = true
				}
			}
			for cond := range cc.of(in) {
				for w := range backwardSlice(cond, nil, nil) {
					if fld, _ := loadedField(w); fld == fIW {
						okW = true
					}
				}
			}
			r.check(okW, fmt.Sprintf("%s:window width #%d set against the prompt considers the input window", relName(rootFn(fn)), k), call.Pos(), fn,
				"the input window is taken when there is one", "the width of the list window bounds the prompt even when the prompt has a window of its own")
		})
	}
	r.floor("window widths combined with the prompt length", n, 1)
}

// c14r12: the render goroutine takes the request box's lock (EventBox.Wait) and, inside the callback, Terminal.mutex;
// so nothing may post to Terminal.reqBox while holding Terminal.mutex — the opposite order deadlocks as soon as
// the box's callback is waiting for the mutex (the code says "Must be unlocked before touching reqBox").
// Checked per function: a post is made only after the function's own Lock has been released (round-7 mutant
// C14c7 turned UpdateList's explicit Unlock into a `defer`).
func c14r12(c *Ctx, r *Report) {
	l := c.L
	r.rule("C14-R12", "B (lock order: reqBox before Terminal.mutex)", "P1",
		"in every function of package fzf, a call of EventBox.Set on Terminal.reqBox is made with no Terminal.mutex acquired earlier in the same function still held",
		"the coordinator (UpdateList) and the render goroutine block each other for ever: fzf stops responding")
	set := l.Fn("util", "(*EventBox).Set")
	fRB := l.Field("fzf", "Terminal", "reqBox")
	if set == nil || fRB == nil {
		r.unest("anchors", token.NoPos, nil, "anchors EventBox.Set / Terminal.reqBox", "cannot resolve")
		return
	}
	n := 0
	for _, fn := range l.AllFuncs() {
		if fn.Blocks == nil || fn.Pkg != l.pkg("fzf") {
			continue
		}
		var sets map[ssa.Instruction]lockState
		k := 0
		eachInstr(fn, func(in ssa.Instruction) {
			call, ok := in.(*ssa.Call)
			if !ok || !callIs(call.Common(), set) {
				return
			}
			if fld, _ := loadedField(call.Call.Args[0]); fld != fRB {
				return
			}
			n++
			k++
			if sets == nil {
				sets = locksets(fn, lockState{})
			}
			held := sets[in]["Terminal.mutex"]
			r.check(!held, fmt.Sprintf("%s:post #%d to reqBox is made without Terminal.mutex", relName(fn), k), call.Pos(), fn,
				"the function's own lock on Terminal.mutex has been released", "Terminal.mutex, locked earlier in this function, is still held when the request box is posted to: lock order reqBox -> mutex is inverted")
		})
	}
	r.floor("posts to Terminal.reqBox", n, 10)
}

// c17r15: option parsers fill small fixed-size arrays through a counter that is bumped inside a loop. The
// counter indexes the array at the top of the next iteration, so every way back to the loop header has to
// have excluded "counter == length" (round-7 mutant C17b7 dropped `if idx == 3 { break }` from
// parseMarkerMultiLine: a marker string followed by a zero-width cluster indexed result[3] and panicked).
func c17r15(c *Ctx, r *Report) {
	l := c.L
	r.rule("C17-R15", "A (bounded counter: every back edge excludes the length)", "P1",
		"in options.go, for every element address of a fixed-size array whose index is a counter carried around a loop (initial constant below the length, incremented by 1), every back edge of the loop is taken only under a comparison that excludes counter == length (or bounds it below the length)",
		"index out of range while parsing an option value: a crash instead of an error message and exit status 2")
	n := 0
	for _, fn := range l.AllFuncs() {
		if fn.Blocks == nil || fn.Pkg != l.pkg("fzf") || !strings.HasSuffix(l.Fset.Position(fn.Pos()).Filename, "options.go") {
			continue
		}
		var pc *PathConds
		loops := natLoops(fn)
		k := 0
		eachInstr(fn, func(in ssa.Instruction) {
			ia, ok := in.(*ssa.IndexAddr)
			if !ok {
				return
			}
			arr, ok := deref(ia.X.Type()).Underlying().(*types.Array)
			if !ok {
				return
			}
			phi, ok := ia.Index.(*ssa.Phi)
			if !ok {
				return
			}
			var lp *natLoop
			for i := range loops {
				if loops[i].hdr == phi.Block() {
					lp = &loops[i]
				}
			}
			if lp == nil {
				return
			}
			N := arr.Len()
			// the counter's web: the header phi, phis fed by it, and +1 increments
			web := map[ssa.Value]bool{phi: true}
			shape := true
			var grow func(v ssa.Value, d int)
			grow = func(v ssa.Value, d int) {
				if web[v] || d > 8 {
					return
				}
				switch x := v.(type) {
				case *ssa.Phi:
					web[x] = true
					for _, e := range x.Edges {
						grow(e, d+1)
					}
				case *ssa.BinOp:
					if x.Op == token.ADD && isConstInt(x.Y, 1) {
						web[x] = true
						grow(x.X, d+1)
					} else {
						shape = false
					}
				case *ssa.Const:
					if kk, ok := constIntVal(x); !ok || kk < 0 || kk >= N {
						shape = false
					}
				default:
					shape = false
				}
			}
			for _, e := range phi.Edges {
				grow(e, 0)
			}
			if !shape {
				return // not a simple counter: other rules (constant indexes, length facts) apply
			}
			n++
			k++
			if pc == nil {
				pc = pathConds(fn)
			}
			bad := ""
			for ei, p := range phi.Block().Preds {
				if !lp.body[p] {
					continue
				}
				_ = ei
				holds, reach := pc.Implies(p, func(lits []Lit) bool {
					for _, lt := range lits {
						b, ok := lt.Atom.(*ssa.BinOp)
						if !ok || !web[b.X] {
							continue
						}
						kk, isK := constIntVal(b.Y)
						if !isK {
							continue
						}
						switch {
						case b.Op == token.EQL && !lt.Val && kk == N, b.Op == token.NEQ && lt.Val && kk == N:
							return true
						case b.Op == token.LSS && lt.Val && kk <= N, b.Op == token.GEQ && !lt.Val && kk <= N:
							return true
						case b.Op == token.LEQ && lt.Val && kk < N, b.Op == token.GTR && !lt.Val && kk < N:
							return true
						}
					}
					return false
				})
				// path facts about loop-carried values are dropped on back edges by construction, so the branch
				// that closes the loop is read directly
				if iff, ok := p.Instrs[len(p.Instrs)-1].(*ssa.If); ok && !holds {
					if b, ok := iff.Cond.(*ssa.BinOp); ok && web[b.X] {
						if kk, isK := constIntVal(b.Y); isK {
							onTrue := p.Succs[0] == phi.Block()
							switch {
							case b.Op == token.EQL && kk == N && !onTrue, b.Op == token.NEQ && kk == N && onTrue:
								holds = true
							case b.Op == token.LSS && kk <= N && onTrue, b.Op == token.GEQ && kk <= N && !onTrue:
								holds = true
							}
						}
					}
				}
				if reach && !holds {
					bad = l.pos(p.Instrs[len(p.Instrs)-1].Pos())
				}
			}
			r.check(bad == "", fmt.Sprintf("%s:counter index #%d into [%d]%s stays below the length", relName(fn), k, N, arr.Elem().String()), ia.Pos(), fn,
				"every back edge excludes counter == length", "the loop can come round with the counter equal to the array length: the next element address is out of range")
		})
	}
	r.floor("counter-indexed fixed-size arrays in option parsers", n, 1)
}

// c17r16: the functions of package fzf that hand out a *tui.ColorTheme for option parsing to edit (parseTheme
// and the like) return private copies, never one of package tui's shared themes (the sibling of C17-R14 for
// values that reach Options.Theme through a return; round-7 mutant C17c7: `theme = tui.Light256`).
func c17r16(c *Ctx, r *Report) {
	l := c.L
	r.rule("C17-R16", "F (alias of shared storage through a return value)", "P1",
		"no function of package fzf, and no function of package tui reachable from ParseOptions, returns, as a *tui.ColorTheme, the load of a package-level variable (round-8 mutant C17b8 made tui.NoColorTheme hand out one shared instance)",
		"--color=light,... edits the shared light theme in place: a later --color=light does not start from the pristine theme")
	n := 0
	// of package tui: the theme constructors the option parser calls (the renderer's DefaultTheme hands its base theme to InitTheme, which only reads it)
	fromOptions := map[*ssa.Function]bool{}
	if po := l.Fn("fzf", "ParseOptions"); po != nil {
		fromOptions = reachableFns(po)
	}
	for _, fn := range l.AllFuncs() {
		if fn.Blocks == nil || (fn.Pkg != l.pkg("fzf") && !(fn.Pkg == l.pkg("tui") && fromOptions[fn])) || fn.Signature.Results().Len() == 0 {
			continue
		}
		pt, ok := fn.Signature.Results().At(0).Type().(*types.Pointer)
		if !ok {
			continue
		}
		nt, ok := pt.Elem().(*types.Named)
		if !ok || nt.Obj().Name() != "ColorTheme" {
			continue
		}
		n++
		shared := ""
		eachInstr(fn, func(in ssa.Instruction) {
			ret, ok := in.(*ssa.Return)
			if !ok {
				return
			}
			for w := range backwardSlice(retResult(ret, 0), nil, nil) {
				if u, ok := w.(*ssa.UnOp); ok && u.Op == token.MUL {
					if g, ok := u.X.(*ssa.Global); ok {
						shared = g.Name()
					}
				}
			}
		})
		r.check(shared == "", relName(fn)+":returns a private theme", fn.Pos(), fn, "every returned theme is a copy", "the shared theme "+shared+" itself can be returned and is then edited in place by the caller")
	}
	r.floor("functions of packages fzf and tui returning a *ColorTheme", n, 3)
}

// c16r12..r14: three decisions around the listener.
func c16r12(c *Ctx, r *Report) {
	l := c.L
	// ---- R12: request numbers are parsed into the type they are used in
	r.rule("C16-R12", "D (no narrowing or sign-changing conversion of a request number)", "P1",
		"every value stored into a field of getParams is the constant default or the result of a parser whose result type is the field's type; no conversion from another integer type is on the way",
		"GET /?offset=18446744073709551615 becomes offset -1: index out of range in dumpStatus, fzf crashes")
	pg := l.Fn("fzf", "parseGetParams")
	if pg == nil {
		r.unest("anchors", token.NoPos, nil, "anchor parseGetParams", "cannot resolve")
	} else {
		n := 0
		eachInstr(pg, func(in ssa.Instruction) {
			st, ok := in.(*ssa.Store)
			if !ok {
				return
			}
			fld, base := fieldOf(st.Addr)
			if fld == nil {
				return
			}
			if nn, ok := deref(base.Type()).(*types.Named); !ok || nn.Obj().Name() != "getParams" {
				return
			}
			n++
			conv := false
			for w := range backwardSlice(st.Val, nil, nil) {
				if cv, ok := w.(*ssa.Convert); ok {
					if bt, ok := cv.X.Type().Underlying().(*types.Basic); ok && bt.Info()&types.IsInteger != 0 {
						conv = true
					}
				}
			}
			r.check(!conv, fmt.Sprintf("%s:store #%d into getParams.%s keeps the parsed type", relName(pg), n, fld.Name()), st.Pos(), pg, "no integer conversion between the parser and the field", "the parsed number is converted to the field's type: values outside its range wrap around (negative offset)")
		})
		r.floor("stores into getParams", n, 2)
	}
	cc := cdCache{}
	// ---- R13: actions received from the server are executed in jump mode too
	r.rule("C16-R13", "A (the dispatch is reachable with pending server actions whatever the jump mode)", "P1",
		"in Terminal.Loop, the call that runs the pending action list (doActions(actions)) is not control dependent on Terminal.jumping alone: some path reaches it on which the test `jumping == jumpDisabled` is false",
		"a POST that arrives while fzf is in jump mode is swallowed as a jump key: the body is not executed as the same --bind list would be")
	loop := l.Fn("fzf", "(*Terminal).Loop")
	fJ := l.Field("fzf", "Terminal", "jumping")
	if loop == nil || fJ == nil {
		r.unest("anchors", token.NoPos, nil, "anchors Terminal.Loop / Terminal.jumping", "cannot resolve")
	} else {
		n := 0
		eachInstr(loop, func(in ssa.Instruction) {
			call, ok := in.(*ssa.Call)
			if !ok || call.Common().IsInvoke() || len(call.Call.Args) != 1 {
				return
			}
			// doActions(actions): a closure call whose argument is the loop's `actions` list (a phi of server
			// input and keymap lookup)
			if _, isSl := call.Call.Args[0].Type().Underlying().(*types.Slice); !isSl || !strings.Contains(call.Call.Args[0].Type().String(), "action") {
				return
			}
			fromServer := false
			for w := range backwardSlice(call.Call.Args[0], nil, nil) {
				if ex, ok := w.(*ssa.Extract); ok {
					if _, isSel := ex.Tuple.(*ssa.Select); isSel {
						fromServer = true
					}
				}
			}
			if !fromServer {
				return
			}
			if _, isB := call.Common().Value.(*ssa.Builtin); isB {
				return
			}
			// the tests of the jump mode that dominate the dispatch
			for _, b := range loop.Blocks {
				iff, ok := b.Instrs[len(b.Instrs)-1].(*ssa.If)
				if !ok || !b.Dominates(in.Block()) {
					continue
				}
				cmp, ok := iff.Cond.(*ssa.BinOp)
				if !ok || (cmp.Op != token.EQL && cmp.Op != token.NEQ) {
					continue
				}
				if fld, _ := loadedField(cmp.X); fld != fJ {
					continue
				}
				if _, isK := constIntVal(cmp.Y); !isK {
					continue
				}
				n++
				// the successor taken when fzf IS in jump mode
				inJump := b.Succs[1]
				if cmp.Op == token.NEQ {
					inJump = b.Succs[0]
				}
				goal := pathAvoiding(inJump.Instrs[0], func(i ssa.Instruction) bool { return i == ssa.Instruction(call) }, func(ssa.Instruction) bool { return false },
					func(from, to *ssa.BasicBlock) bool { return !to.Dominates(from) })
				r.check(goal != nil || inJump.Instrs[0] == ssa.Instruction(call), fmt.Sprintf("%s:dispatch of the pending actions is reachable in jump mode (test #%d)", relName(loop), n), call.Pos(), loop,
					"reachable from the in-jump-mode branch within the same iteration (when actions are pending)", "the pending actions are dispatched only when jump mode is off")
			}
		})
		r.floor("dispatches of the pending action list under a jump-mode test", n, 1)
	}
	// ---- R14: a listener needs the previewer
	r.rule("C16-R14", "A (the listener alone decides)", "P1",
		"in mayTriggerPreview, a return of true is control dependent on the test of Options.ListenAddr and on nothing else",
		"preview(...) / change-preview(...) posted to a listener do nothing because no previewer was started, although the same list from --bind works")
	mtp := l.Fn("fzf", "mayTriggerPreview")
	if mtp == nil {
		r.unest("anchors", token.NoPos, nil, "anchor mayTriggerPreview", "cannot resolve")
		return
	}
	found := false
	eachInstr(mtp, func(in ssa.Instruction) {
		ret, ok := in.(*ssa.Return)
		if !ok || len(ret.Results) != 1 {
			return
		}
		if k, ok := ret.Results[0].(*ssa.Const); !ok || k.Value == nil || k.Value.String() != "true" {
			return
		}
		conds := cc.of(in)
		onlyListen := len(conds) > 0
		for cond := range conds {
			isL := false
			for w := range backwardSlice(cond, nil, nil) {
				if fld, _ := loadedField(w); fld != nil && fld.Name() == "ListenAddr" {
					isL = true
				}
			}
			if !isL {
				onlyListen = false
			}
		}
		if onlyListen {
			found = true
		}
	})
	r.check(found, relName(mtp)+":a listener alone makes a preview possible", mtp.Pos(), mtp, "`return true` under ListenAddr != nil only", "no return of true depends on the listener alone: with --listen and no preview binding the previewer is not started")
}

// c18r10: the history file is rewritten as a whole whenever a query is appended, and the new content can be
// shorter than the old one (an entry fell out at the cap). Whoever writes it must truncate: os.WriteFile does;
// an os.OpenFile for writing needs O_TRUNC (round-7 mutant C18a7 wrote line by line through
// OpenFile(O_WRONLY|O_CREATE): the tail of the longer old content stayed in the file as phantom entries).
func c18r10(c *Ctx, r *Report) {
	l := c.L
	r.rule("C18-R10", "B (census of the writers of the history file)", "P1",
		"every method of History that writes the file does it with os.WriteFile, or with os.OpenFile whose constant flags contain O_TRUNC (or O_APPEND)",
		"after the cap is reached the file keeps bytes of its previous, longer content: entries that were never submitted appear in the next session")
	n := 0
	for _, fn := range l.AllFuncs() {
		if fn.Blocks == nil || fn.Pkg != l.pkg("fzf") || rootFn(fn).Signature.Recv() == nil {
			continue
		}
		if nn, ok := deref(rootFn(fn).Signature.Recv().Type()).(*types.Named); !ok || nn.Obj().Name() != "History" {
			continue
		}
		eachInstr(fn, func(in ssa.Instruction) {
			call, ok := in.(*ssa.Call)
			if !ok {
				return
			}
			switch calleeName(call.Common()) {
			case "os.WriteFile":
				n++
				r.ok(fmt.Sprintf("%s:writer #%d truncates", relName(rootFn(fn)), n), call.Pos(), fn, "os.WriteFile replaces the content")
			case "os.OpenFile", "os.Create":
				n++
				good := calleeName(call.Common()) == "os.Create"
				if !good {
					if fl, ok := constIntVal(call.Call.Args[1]); ok {
						const oWRONLY, oRDWR, oAPPEND, oTRUNC = 0x1, 0x2, 0x400, 0x200
						if fl&(oWRONLY|oRDWR) == 0 || fl&(oTRUNC|oAPPEND) != 0 {
							good = true
						}
					}
				}
				r.check(good, fmt.Sprintf("%s:writer #%d truncates", relName(rootFn(fn)), n), call.Pos(), fn, "opened with O_TRUNC / O_APPEND", "the file is opened for writing without O_TRUNC: a shorter new content leaves the tail of the old one in place")
			}
		})
	}
	r.floor("writers of the history file", n, 1)
}

// c18r11: trimQuery prepares a stored or given query for the prompt; the only change it may make is TAB ->
// space (a TAB cannot be shown in the prompt). Anything else alters what is later submitted and stored
// (round-7 mutant C18b7 also trimmed surrounding blanks: an entry ` foo ` came back as `foo` and was stored
// as a new, different entry).
func c18r11(c *Ctx, r *Report) {
	l := c.L
	r.rule("C18-R11", "D (census of the transformers in trimQuery)", "P1",
		"in trimQuery, the only call that takes (a value derived from) the parameter is strings.ReplaceAll with the constant old string \"\\t\"",
		"navigating to a stored entry with leading/trailing blanks and submitting it stores a different entry")
	tq := l.Fn("fzf", "trimQuery")
	if tq == nil || len(tq.Params) != 1 {
		r.unest("anchors", token.NoPos, nil, "anchor trimQuery", "cannot resolve")
		return
	}
	der := forwardDerived(tq, []ssa.Value{tq.Params[0]}, func(*ssa.CallCommon) bool { return true })
	n := 0
	eachInstr(tq, func(in ssa.Instruction) {
		call, ok := in.(*ssa.Call)
		if !ok {
			return
		}
		uses := false
		for _, a := range call.Call.Args {
			if der[a] {
				uses = true
			}
		}
		if !uses {
			return
		}
		n++
		good := false
		if calleeName(call.Common()) == "strings.ReplaceAll" {
			if old, ok := constString(call.Call.Args[1]); ok && old == "\t" {
				good = true
			}
		}
		r.check(good, fmt.Sprintf("%s:transformer #%d is the TAB replacement", relName(tq), n), call.Pos(), tq, "strings.ReplaceAll(_, \"\\t\", _)", "the query passes through "+calleeName(call.Common())+": it is no longer the stored text")
	})
	r.floor("transformers in trimQuery", n, 1)
}

// c19r8: fzf walks the file system itself when $FZF_DEFAULT_COMMAND is EMPTY, which includes "set to the
// empty string" (the usual way to switch a globally exported command off for one call). The decision in
// ReadSource therefore has to test the value's emptiness (round-7 mutant C19a7 tested whether the variable is
// defined: `FZF_DEFAULT_COMMAND= fzf` ran an empty command and listed nothing).
func c19r8(c *Ctx, r *Report) {
	l := c.L
	r.rule("C19-R8", "A (the walker branch depends on the emptiness of the variable's value)", "P1",
		"in Reader.ReadSource, the call of readFiles is control dependent on a test of the length (or of equality with \"\") of a value obtained from os.Getenv / os.LookupEnv",
		"with FZF_DEFAULT_COMMAND set to the empty string the built-in walker is not used and the list is empty")
	rs := l.Fn("fzf", "(*Reader).ReadSource")
	rf := l.Fn("fzf", "(*Reader).readFiles")
	if rs == nil || rf == nil {
		r.unest("anchors", token.NoPos, nil, "anchors Reader.ReadSource / Reader.readFiles", "cannot resolve")
		return
	}
	cc := cdCache{}
	n := 0
	eachInstr(rs, func(in ssa.Instruction) {
		call, ok := in.(*ssa.Call)
		if !ok || !callIs(call.Common(), rf) {
			return
		}
		n++
		onEmpty := false
		for cond := range cc.of(in) {
			b, ok := cond.(*ssa.BinOp)
			if !ok {
				continue
			}
			fromEnv := func(v ssa.Value) bool {
				return dependsOnCall(v, func(c2 *ssa.Call) bool {
					nm := calleeName(c2.Common())
					return nm == "os.Getenv" || nm == "os.LookupEnv"
				})
			}
			for _, side := range []ssa.Value{b.X, b.Y} {
				// len(value) compared, or the string itself compared with a constant
				if lc, ok := side.(*ssa.Call); ok && calleeName(lc.Common()) == "builtin.len" && fromEnv(lc.Call.Args[0]) {
					onEmpty = true
				}
				if bt, ok := side.Type().Underlying().(*types.Basic); ok && bt.Info()&types.IsString != 0 && fromEnv(side) {
					onEmpty = true
				}
			}
		}
		r.check(onEmpty, fmt.Sprintf("%s:walker call #%d is taken when the default command is empty", relName(rs), n), call.Pos(), rs,
			"the branch tests the emptiness of the variable's value", "the walker is chosen by something else than the emptiness of $FZF_DEFAULT_COMMAND (e.g. whether it is defined)")
	})
	r.floor("calls of readFiles in ReadSource", n, 1)
}

// c20r14: "is anything selected?" is a test against zero everywhere: {+} stands for the selection as soon as
// ONE line is selected (round-7 mutant C20c7 made buildPlusList ask for more than one: with a single selected
// line and the cursor elsewhere, {+} expanded to the line under the cursor).
func c20r14(c *Ctx, r *Report) {
	l := c.L
	r.rule("C20-R14", "H (constant agreement of the emptiness tests)", "P1",
		"every comparison of len(Terminal.selected) with an integer constant in package fzf compares with 0",
		"{+} / {+f} / {+n} substitute the current line although exactly one other line is selected")
	fSel := l.Field("fzf", "Terminal", "selected")
	if fSel == nil {
		r.unest("anchors", token.NoPos, nil, "anchor Terminal.selected", "cannot resolve")
		return
	}
	n := 0
	for _, fn := range l.AllFuncs() {
		if fn.Blocks == nil || fn.Pkg != l.pkg("fzf") {
			continue
		}
		k := 0
		eachInstr(fn, func(in ssa.Instruction) {
			b, ok := in.(*ssa.BinOp)
			if !ok {
				return
			}
			switch b.Op {
			case token.EQL, token.NEQ, token.LSS, token.LEQ, token.GTR, token.GEQ:
			default:
				return
			}
			for _, pr := range [][2]ssa.Value{{b.X, b.Y}, {b.Y, b.X}} {
				lc, ok := pr[0].(*ssa.Call)
				if !ok || calleeName(lc.Common()) != "builtin.len" {
					continue
				}
				if fld, _ := loadedField(lc.Call.Args[0]); fld != fSel {
					continue
				}
				kk, isK := constIntVal(pr[1])
				if !isK {
					continue
				}
				n++
				k++
				r.check(kk == 0, fmt.Sprintf("%s:size test #%d of the selection is an emptiness test", relName(rootFn(fn)), k), b.Pos(), fn, "compared with 0", fmt.Sprintf("the selection's size is compared with %d: one selected line is treated as none", kk))
			}
		})
	}
	r.floor("comparisons of the selection's size with a constant", n, 5)
}

// c12r11: the tmux / proxy relaunch script rebuilds fzf's own command line from os.Args with
// escapeSingleQuote. Every word has to come out quoted — an "obviously safe" word left bare includes the EMPTY
// word, which then vanishes from the command line and shifts the arguments after it (round-7 mutant C19c7:
// `--walker-skip ”` lost its value in the popup and swallowed the next option).
func c12r11(c *Ctx, r *Report) {
	l := c.L
	r.rule("C12-R11", "A (every return is a quoted word)", "P1",
		"every value returned by escapeSingleQuote is a concatenation whose first and last operands are the constant single quote",
		"an empty (or otherwise 'safe') argument is dropped or re-split when fzf relaunches itself inside tmux")
	esq := l.Fn("fzf", "escapeSingleQuote")
	if esq == nil {
		r.unest("anchors", token.NoPos, nil, "anchor escapeSingleQuote", "cannot resolve")
		return
	}
	n := 0
	eachInstr(esq, func(in ssa.Instruction) {
		ret, ok := in.(*ssa.Return)
		if !ok || len(ret.Results) != 1 {
			return
		}
		n++
		v := retResult(ret, 0)
		var leaves []ssa.Value
		var flat func(x ssa.Value)
		flat = func(x ssa.Value) {
			if b, ok := x.(*ssa.BinOp); ok && b.Op == token.ADD {
				flat(b.X)
				flat(b.Y)
				return
			}
			leaves = append(leaves, x)
		}
		flat(v)
		q := func(x ssa.Value) bool { s, ok := constString(x); return ok && s == "'" }
		r.check(len(leaves) >= 3 && q(leaves[0]) && q(leaves[len(leaves)-1]), fmt.Sprintf("%s:return #%d is a quoted word", relName(esq), n), ret.Pos(), esq,
			"'...' on this path", "this return hands the argument back without quotes")
		// what stands between the quotes has EVERY quote of the argument replaced (round-8 mutant C19c8 replaced the first one only)
		if len(leaves) >= 3 {
			all := true
			for _, m := range leaves[1 : len(leaves)-1] {
				if _, isConst := m.(*ssa.Const); isConst {
					continue
				}
				call, ok := m.(*ssa.Call)
				good := false
				if ok {
					if cal := call.Call.StaticCallee(); cal != nil && len(call.Call.Args) >= 3 {
						if from, isq := constString(call.Call.Args[1]); isq && from == "'" {
							switch relName(cal) {
							case "strings.ReplaceAll":
								good = true
							case "strings.Replace":
								k, isk := constIntVal(call.Call.Args[3])
								good = isk && k < 0
							}
						}
					}
				}
				all = all && good
			}
			r.check(all, fmt.Sprintf("%s:return #%d replaces every quote of the argument", relName(esq), n), ret.Pos(), esq,
				"the argument only appears as strings.ReplaceAll(arg, \"'\", ..)", "the text between the quotes is not the argument with ALL of its quotes replaced: a later quote ends the word early and the rest is re-split by the shell")
		}
	})
	r.floor("returns of escapeSingleQuote", n, 1)
}

// c11r17: a backspace strikes out the ONE character in front of it (`.\x08` in the documented pattern, where
// `.` is one UTF-8 decoding step: a valid sequence, or a single byte if the bytes do not decode). The start of
// the removed range is therefore i-1 or i-n with n reported by utf8.DecodeLastRuneInString for the text before
// the backspace (round-7 mutant C11a7 stepped back over continuation bytes by hand: in non-UTF-8 input several
// bytes of ordinary text were swallowed).
func c11r17(c *Ctx, r *Report) {
	l := c.L
	r.rule("C11-R17", "D (provenance of the start of the struck-out character)", "P1",
		"in nextAnsiEscapeSequence, every return reached under `byte == 0x08` returns as its start the scan position minus the constant 1 or minus the width result of utf8.DecodeLastRuneInString",
		"a backspace after bytes that are not valid UTF-8 removes more than one character of the text")
	fn := l.Fn("fzf", "nextAnsiEscapeSequence")
	if fn == nil {
		r.unest("anchors", token.NoPos, nil, "anchor nextAnsiEscapeSequence", "cannot resolve")
		return
	}
	pc := pathConds(fn)
	n := 0
	eachInstr(fn, func(in ssa.Instruction) {
		ret, ok := in.(*ssa.Return)
		if !ok || len(ret.Results) != 2 {
			return
		}
		if isConstInt(ret.Results[0], -1) {
			return
		}
		underBS, _ := pc.Implies(in.Block(), func(lits []Lit) bool {
			return hasLit(lits, func(a ssa.Value, v bool) bool {
				_, op, k, ok := cmpInt(a)
				return ok && k == 8 && (op == token.EQL && v || op == token.NEQ && !v)
			})
		})
		if !underBS {
			return
		}
		n++
		good := false
		if b, ok := ret.Results[0].(*ssa.BinOp); ok && b.Op == token.SUB {
			if isConstInt(b.Y, 1) {
				good = true
			}
			if ex, ok := b.Y.(*ssa.Extract); ok && ex.Index == 1 {
				if call, ok := ex.Tuple.(*ssa.Call); ok && strings.HasPrefix(calleeName(call.Common()), "unicode/utf8.DecodeLastRune") {
					good = true
				}
			}
		}
		r.check(good, fmt.Sprintf("%s:backspace return #%d removes one decoded character", relName(fn), n), ret.Pos(), fn,
			"start = i - 1 or i - width(DecodeLastRuneInString)", "the start of the removed range is not derived from one UTF-8 decoding step")
	})
	r.floor("returns of the backspace case", n, 2)
}

// c15r10: resizeIfNeeded decides whether the header windows still have the height the current state asks
// for. "Still right" means EQUAL: a header that has shrunk needs the windows rebuilt just like one that has
// grown (round-7 mutant C15a7 turned `!=` into `>` for the header window: after hide-header / a shorter
// change-header the old, taller window stayed and kept showing stale lines).
func c15r10(c *Ctx, r *Report) {
	l := c.L
	r.rule("C15-R10", "E (sibling comparisons are all (in)equalities)", "P1",
		"in Terminal.resizeIfNeeded, every comparison between a wanted size and the Height() of an existing window is == or !=",
		"a window that has become too tall (or too short) is not rebuilt: stale rows stay on the screen")
	fn := l.Fn("fzf", "(*Terminal).resizeIfNeeded")
	if fn == nil {
		r.unest("anchors", token.NoPos, nil, "anchor Terminal.resizeIfNeeded", "cannot resolve")
		return
	}
	n := 0
	eachInstr(fn, func(in ssa.Instruction) {
		b, ok := in.(*ssa.BinOp)
		if !ok {
			return
		}
		switch b.Op {
		case token.EQL, token.NEQ, token.LSS, token.LEQ, token.GTR, token.GEQ:
		default:
			return
		}
		isH := func(v ssa.Value) bool {
			call, ok := v.(*ssa.Call)
			return ok && call.Common().IsInvoke() && call.Common().Method.Name() == "Height"
		}
		if !(isH(b.X) || isH(b.Y)) {
			return
		}
		other := b.X
		if isH(b.X) {
			other = b.Y
		}
		if _, isK := other.(*ssa.Const); isK {
			return
		}
		n++
		r.check(b.Op == token.EQL || b.Op == token.NEQ, fmt.Sprintf("%s:height agreement test #%d is an (in)equality", relName(fn), n), b.Pos(), fn,
			"wanted height == / != window height", "the wanted height is compared with "+b.Op.String()+": a change in the other direction is not noticed")
	})
	r.floor("height agreement tests in resizeIfNeeded", n, 2)
}

// c15r11: the light renderer draws with relative cursor movements computed from its own record (x, y) of where
// the cursor is. Pause() switches to the alternate screen, which makes the terminal SAVE the cursor, and
// Resume() switches back, which restores it — so whatever Pause does to the cursor in between must not touch
// the record (round-7 mutant C15b7 homed the cursor with origin(), which also sets y = 0: after execute(...)
// in --height mode everything was drawn height-1 rows too low, over a stale copy).
func c15r11(c *Ctx, r *Report) {
	l := c.L
	r.rule("C15-R11", "B (no writer of the cursor record on the pause path)", "P1",
		"no function reachable through static calls from LightRenderer.Pause stores into LightRenderer.x or LightRenderer.y",
		"after execute(...) under --height the list is drawn at the wrong rows: rows no longer show the corresponding result lines")
	pause := l.Fn("tui", "(*LightRenderer).Pause")
	if pause == nil {
		r.unest("anchors", token.NoPos, nil, "anchor LightRenderer.Pause", "cannot resolve")
		return
	}
	reach := map[*ssa.Function]bool{}
	var walk func(f *ssa.Function)
	walk = func(f *ssa.Function) {
		if f == nil || reach[f] || f.Blocks == nil || f.Pkg == nil || !isModulePkg(f.Pkg.Pkg) {
			return
		}
		reach[f] = true
		eachInstr(f, func(in ssa.Instruction) { walk(staticCallee(in)) })
	}
	walk(pause)
	bad := ""
	for f := range reach {
		eachInstr(f, func(in ssa.Instruction) {
			st, ok := in.(*ssa.Store)
			if !ok {
				return
			}
			fld, base := fieldOf(st.Addr)
			if fld == nil || (fld.Name() != "x" && fld.Name() != "y") {
				return
			}
			if nn, ok := deref(base.Type()).(*types.Named); ok && nn.Obj().Name() == "LightRenderer" {
				bad = fmt.Sprintf("%s stores LightRenderer.%s (%s)", relName(f), fld.Name(), l.pos(st.Pos()))
			}
		})
	}
	r.check(bad == "", relName(pause)+":the cursor record survives the pause", pause.Pos(), pause, fmt.Sprintf("%d functions reachable, none writes x / y", len(reach)), bad+": the record no longer describes the cursor the terminal restores on Resume")
}

// c14r13: a remainder or quotient by a LENGTH (len(x), Merger.Length()) panics when the list is empty, and
// the result list is empty whenever the query matches nothing. Each such divisor is shown non-zero: by a
// strict comparison `v < n` on the path with v a non-negative counter, by a comparison of n with a constant
// that excludes 0, or because n is the length of a slice that every return of a module function builds from a
// non-empty array literal (round-6 mutant C09c6 wrapped the cursor with `(dest + count) % count`: --cycle with
// an empty list crashed on the first up/down).
func c14r13(c *Ctx, r *Report) {
	l := c.L
	r.rule("C14-R13", "A (a divisor that is a length is shown non-zero)", "P1",
		"in packages fzf, tui and util, every integer `/` or `%` whose divisor is the result of len(..) or Merger.Length() is reached only where the divisor is known to be positive (strict upper bound of a non-negative counter, comparison with a constant, or length of a non-empty literal returned by a module function)",
		"integer divide by zero in the event loop when the result list is empty: fzf crashes and leaves the terminal raw")
	mlen := l.Fn("fzf", "(*Merger).Length")
	nonNegCounter := func(v ssa.Value) bool {
		phi, ok := v.(*ssa.Phi)
		if !ok {
			if k, isK := constIntVal(v); isK && k >= 0 {
				return true
			}
			return false
		}
		okc := false
		for _, e := range phi.Edges {
			if k, isK := constIntVal(e); isK {
				if k < 0 {
					return false
				}
				okc = true
				continue
			}
			b, ok := e.(*ssa.BinOp)
			if !ok || b.Op != token.ADD || b.X != ssa.Value(phi) {
				return false
			}
			if k, isK := constIntVal(b.Y); !isK || k < 0 {
				return false
			}
		}
		return okc
	}
	nonEmptyLiteralFn := func(v ssa.Value) bool {
		call, ok := v.(*ssa.Call)
		if !ok {
			if u, ok := v.(*ssa.UnOp); ok && u.Op == token.MUL {
				// a local holding the call result
				if al, ok := u.X.(*ssa.Alloc); ok {
					for _, st := range storesToAlloc(al) {
						if c2, ok := st.Val.(*ssa.Call); ok {
							call = c2
						}
					}
				}
				if fv, ok := u.X.(*ssa.FreeVar); ok {
					if al := freeVarAlloc(v.Parent(), fv); al != nil {
						for _, st := range storesToAlloc(al) {
							if c2, ok := st.Val.(*ssa.Call); ok {
								call = c2
							}
						}
					}
				}
			}
		}
		if call == nil || call.Common().StaticCallee() == nil || call.Common().StaticCallee().Blocks == nil {
			return false
		}
		f := call.Common().StaticCallee()
		all, any := true, false
		eachInstr(f, func(in ssa.Instruction) {
			ret, ok := in.(*ssa.Return)
			if !ok || len(ret.Results) == 0 {
				return
			}
			any = true
			sl, ok := retResult(ret, 0).(*ssa.Slice)
			if !ok {
				all = false
				return
			}
			al, ok := sl.X.(*ssa.Alloc)
			if !ok {
				all = false
				return
			}
			arr, ok := deref(al.Type()).Underlying().(*types.Array)
			if !ok || arr.Len() == 0 || sl.Low != nil || sl.High != nil {
				all = false
			}
		})
		return all && any
	}
	n := 0
	for _, fn := range l.AllFuncs() {
		if fn.Blocks == nil || fn.Pkg == nil || !isModulePkg(fn.Pkg.Pkg) {
			continue
		}
		var pc *PathConds
		k := 0
		eachInstr(fn, func(in ssa.Instruction) {
			bo, ok := in.(*ssa.BinOp)
			if !ok || (bo.Op != token.QUO && bo.Op != token.REM) {
				return
			}
			if bt, ok := bo.Type().Underlying().(*types.Basic); !ok || bt.Info()&types.IsInteger == 0 {
				return
			}
			d, ok := bo.Y.(*ssa.Call)
			if !ok {
				return
			}
			isLen := calleeName(d.Common()) == "builtin.len"
			if !isLen && !(mlen != nil && callIs(d.Common(), mlen)) {
				return
			}
			n++
			k++
			good := isLen && nonEmptyLiteralFn(d.Call.Args[0])
			if !good {
				if pc == nil {
					pc = pathConds(fn)
				}
				holds, reach := pc.Implies(bo.Block(), func(lits []Lit) bool {
					for _, lt := range lits {
						cmp, ok := lt.Atom.(*ssa.BinOp)
						if !ok {
							continue
						}
						// v < n (true) or n > v (true), v a non-negative counter; n compared with a constant
						switch {
						case cmp.Y == ssa.Value(d) && nonNegCounter(cmp.X) && (cmp.Op == token.LSS && lt.Val || cmp.Op == token.GEQ && !lt.Val):
							return true
						case cmp.X == ssa.Value(d) && nonNegCounter(cmp.Y) && (cmp.Op == token.GTR && lt.Val || cmp.Op == token.LEQ && !lt.Val):
							return true
						}
						if cmp.X == ssa.Value(d) {
							if kk, isK := constIntVal(cmp.Y); isK {
								switch {
								case cmp.Op == token.GTR && lt.Val && kk >= 0, cmp.Op == token.LEQ && !lt.Val && kk >= 0:
									return true
								case cmp.Op == token.NEQ && lt.Val && kk == 0, cmp.Op == token.EQL && !lt.Val && kk == 0:
									return true
								case cmp.Op == token.GEQ && lt.Val && kk >= 1, cmp.Op == token.LSS && !lt.Val && kk >= 1:
									return true
								}
							}
						}
					}
					return false
				})
				good = holds || !reach
			}
			r.check(good, fmt.Sprintf("%s:divisor-length #%d is not zero", relName(fn), k), bo.Pos(), fn,
				"the length is known to be positive here", "the divisor is a length that can be 0 on this path (empty result list): integer divide by zero")
		})
	}
	r.floor("divisions by a length", n, 2)
}

// c10r7: "strip the delimiter that ends the last selected field" exists twice: StripLastDelimiter (--nth,
// --with-nth, --accept-nth) and an inline copy in replacePlaceholder ({N} placeholders). The property asks
// that a field expression selects the same text everywhere, so the two copies have to use the same
// primitives on the literal-delimiter path and on the regex path (round-5 mutant C10c5: TrimSuffix became
// TrimRight in one copy; round-6 mutant C07b6: FindAllStringIndex became FindStringIndex in the other).
func c10r7(c *Ctx, r *Report) {
	l := c.L
	r.rule("C10-R7", "E (sibling implementations call the same primitives)", "P1",
		"all functions of package fzf that trim a string by a literal Delimiter.str (a strings.Trim* call fed from it) call the same set of library functions with Delimiter.str and the same set of methods on Delimiter.regex",
		"{N} placeholders and --nth/--with-nth/--accept-nth cut the last field differently for the same delimiter")
	type sets struct {
		lit, re map[string]bool
		pos     token.Pos
	}
	all := map[*ssa.Function]*sets{}
	for _, fn := range l.AllFuncs() {
		if fn.Blocks == nil || fn.Pkg != l.pkg("fzf") {
			continue
		}
		s := &sets{lit: map[string]bool{}, re: map[string]bool{}}
		fromDelim := func(v ssa.Value, field string) bool {
			for w := range backwardSlice(v, nil, nil) {
				if fld, base := loadedField(w); fld != nil && fld.Name() == field && base != nil {
					if nn, ok := deref(base.Type()).(*types.Named); ok && nn.Obj().Name() == "Delimiter" {
						return true
					}
				}
			}
			return false
		}
		eachInstr(fn, func(in ssa.Instruction) {
			call, ok := in.(*ssa.Call)
			if !ok || call.Common().IsInvoke() {
				return
			}
			name := calleeName(call.Common())
			if strings.HasPrefix(name, "strings.") {
				for _, a := range call.Call.Args {
					if fromDelim(a, "str") {
						s.lit[name] = true
						s.pos = call.Pos()
					}
				}
			}
			if strings.HasPrefix(name, "(*regexp.Regexp).") && len(call.Call.Args) > 0 && fromDelim(call.Call.Args[0], "regex") {
				s.re[name] = true
			}
		})
		trims := false
		for k := range s.lit {
			if strings.HasPrefix(k, "strings.Trim") {
				trims = true
			}
		}
		if trims {
			all[rootFn(fn)] = s
		}
	}
	var fns []*ssa.Function
	for f := range all {
		fns = append(fns, f)
	}
	sort.Slice(fns, func(i, j int) bool { return relName(fns[i]) < relName(fns[j]) })
	key := func(m map[string]bool) string {
		var ks []string
		for k := range m {
			ks = append(ks, k)
		}
		sort.Strings(ks)
		return strings.Join(ks, ",")
	}
	for _, f := range fns {
		ref := all[fns[0]]
		s := all[f]
		same := key(s.lit) == key(ref.lit) && key(s.re) == key(ref.re)
		r.check(same, relName(f)+":strips the last delimiter with the common primitives", s.pos, f,
			fmt.Sprintf("literal: %s; regex: %s", key(s.lit), key(s.re)), fmt.Sprintf("uses {%s | %s} where %s uses {%s | %s}", key(s.lit), key(s.re), relName(fns[0]), key(ref.lit), key(ref.re)))
	}
	r.floor("implementations of strip-the-last-delimiter", len(fns), 2)
}

// c02r11: Chars.LeadingWhitespaces / TrailingWhitespaces / Length count CHARACTERS. Offsets computed from
// them may cut a []rune, never a string, whose indexes are bytes (round-5 mutant C02c5 sliced text.ToString()
// with them in EqualMatch: for non-ASCII lines the compared window was shifted).
func c02r11(c *Ctx, r *Report) {
	l := c.L
	r.rule("C02-R11", "E (unit agreement: character counts cut character slices)", "P1",
		"in package algo, no slice expression over a string has a bound computed from Chars.LeadingWhitespaces, Chars.TrailingWhitespaces or Chars.Length",
		"an equal term (^...$) on a non-ASCII line with surrounding blanks compares the wrong window: a matching line is dropped")
	n := 0
	isCount := func(call *ssa.Call) bool {
		switch calleeName(call.Common()) {
		case "(*" + modPath + "/src/util.Chars).LeadingWhitespaces", "(*" + modPath + "/src/util.Chars).TrailingWhitespaces", "(*" + modPath + "/src/util.Chars).Length":
			return true
		}
		return false
	}
	for _, fn := range l.AllFuncs() {
		if fn.Blocks == nil || fn.Pkg != l.pkg("algo") {
			continue
		}
		k := 0
		eachInstr(fn, func(in ssa.Instruction) {
			sl, ok := in.(*ssa.Slice)
			if !ok {
				return
			}
			dep := false
			for _, b := range []ssa.Value{sl.Low, sl.High} {
				if b != nil && dependsOnCall(b, isCount) {
					dep = true
				}
			}
			if !dep {
				return
			}
			n++
			k++
			bt, isStr := sl.X.Type().Underlying().(*types.Basic)
			r.check(!(isStr && bt.Info()&types.IsString != 0), fmt.Sprintf("%s:slice #%d bounded by character counts cuts characters", relName(fn), k), sl.Pos(), fn,
				"the sliced value is a []rune (or bytes of an ASCII-only text)", "a string (byte indexes) is sliced with bounds counted in characters")
		})
	}
	r.floor("slices bounded by character counts", n, 1)
}

// c01r8: the anchored matchers ignore the blanks around the line unless the term itself has a blank at that
// end: leading blanks are skipped depending on the FIRST pattern character, trailing blanks depending on the
// LAST one, independently (round-6 mutant C01c6 made both depend on the first character in EqualMatch).
func c01r8(c *Ctx, r *Report) {
	l := c.L
	r.rule("C01-R8", "A (each trim depends on its own end of the pattern)", "P1",
		"in package algo, a call of Chars.LeadingWhitespaces is control dependent on a test of pattern[0] and of no other pattern element; a call of Chars.TrailingWhitespaces is control dependent on a test of pattern[len(pattern)-1] and of no other pattern element",
		"`^foo\\ $` style terms (an escaped blank at one end) match lines they should not, or miss the ones they should")
	cc := cdCache{}
	n := 0
	for _, fn := range l.AllFuncs() {
		if fn.Blocks == nil || fn.Pkg != l.pkg("algo") {
			continue
		}
		// the pattern is the function's parameter of type []rune
		var pat *ssa.Parameter
		for _, p := range fn.Params {
			if sl, ok := p.Type().Underlying().(*types.Slice); ok {
				if bt, ok := sl.Elem().Underlying().(*types.Basic); ok && bt.Kind() == types.Int32 {
					pat = p
				}
			}
		}
		if pat == nil {
			continue
		}
		eachInstr(fn, func(in ssa.Instruction) {
			call, ok := in.(*ssa.Call)
			if !ok {
				return
			}
			nm := calleeName(call.Common())
			lead := strings.HasSuffix(nm, "Chars).LeadingWhitespaces")
			trail := strings.HasSuffix(nm, "Chars).TrailingWhitespaces")
			if !lead && !trail {
				return
			}
			n++
			first, last, other := false, false, false
			for cond := range cc.of(in) {
				for w := range backwardSlice(cond, func(*ssa.CallCommon) bool { return true }, nil) {
					ia, ok := w.(*ssa.IndexAddr)
					if !ok || ia.X != ssa.Value(pat) {
						continue
					}
					if isConstInt(ia.Index, 0) {
						first = true
					} else if b, ok := ia.Index.(*ssa.BinOp); ok && b.Op == token.SUB && isConstInt(b.Y, 1) {
						last = true
					} else {
						other = true
					}
				}
			}
			okc := !other && (lead && first && !last || trail && last && !first)
			what := "pattern[len-1]"
			if lead {
				what = "pattern[0]"
			}
			r.check(okc, fmt.Sprintf("%s:%s depends on %s only", relName(fn), strings.TrimPrefix(nm[strings.LastIndex(nm, ".")+1:], ""), what), call.Pos(), fn,
				"the trim is decided by its own end of the pattern", "the trim is decided by another element of the pattern (or by none)")
		})
	}
	r.floor("blank-trimming calls of the anchored matchers", n, 4)
}

// c19r9: --walker-skip names are compared with directory names literally (base name, path, path suffix), and a
// directory name may begin or end with a blank. Between the option value and Options.WalkerSkip the entries
// may be split and empty ones dropped, nothing else (round-6 mutant C19b6 trimmed each entry: `--walker-skip
// ' cache'` pruned `cache`).
func c19r9(c *Ctx, r *Report) {
	l := c.L
	r.rule("C19-R9", "D (census of the transformers of a skip entry)", "P1",
		"in the functions through which the value stored into Options.WalkerSkip passes (module functions taking and returning []string), every element appended to the result is an element of the input itself, not the result of a call on it",
		"--walker-skip prunes a directory whose name merely resembles the entry (surrounding blanks removed)")
	fWS := l.Field("fzf", "Options", "WalkerSkip")
	if fWS == nil {
		r.unest("anchors", token.NoPos, nil, "anchor Options.WalkerSkip", "cannot resolve")
		return
	}
	// module functions on the way
	var filters []*ssa.Function
	for _, fn := range l.AllFuncs() {
		if fn.Blocks == nil || fn.Pkg != l.pkg("fzf") {
			continue
		}
		eachInstr(fn, func(in ssa.Instruction) {
			st, ok := in.(*ssa.Store)
			if !ok {
				return
			}
			if fld, _ := fieldOf(st.Addr); fld != fWS {
				return
			}
			for w := range backwardSlice(st.Val, nil, nil) {
				if call, ok := w.(*ssa.Call); ok && call.Common().StaticCallee() != nil && call.Common().StaticCallee().Pkg == fn.Pkg && call.Common().StaticCallee().Blocks != nil {
					filters = append(filters, call.Common().StaticCallee())
				}
			}
		})
	}
	n := 0
	for _, f := range filters {
		if len(f.Params) != 1 {
			continue
		}
		eachInstr(f, func(in ssa.Instruction) {
			call, ok := in.(*ssa.Call)
			if !ok || calleeName(call.Common()) != "builtin.append" {
				return
			}
			n++
			good := true
			// the appended elements: a one-element slice of a local array whose element was stored
			for w := range backwardSlice(call.Call.Args[1], nil, nil) {
				if al, ok := w.(*ssa.Alloc); ok && al.Referrers() != nil {
					for _, ref := range *al.Referrers() {
						ia, ok := ref.(*ssa.IndexAddr)
						if !ok || ia.Referrers() == nil {
							continue
						}
						for _, r2 := range *ia.Referrers() {
							if st, ok := r2.(*ssa.Store); ok && st.Addr == ssa.Value(ia) {
								for v := range backwardSlice(st.Val, nil, nil) {
									if c2, ok := v.(*ssa.Call); ok {
										_ = c2
										good = false
									}
								}
							}
						}
					}
				}
			}
			r.check(good, fmt.Sprintf("%s:append #%d keeps the entry as given", relName(f), n), call.Pos(), f, "the element of the input is appended unchanged", "the appended element is the result of a call on the entry: the skip name is rewritten")
		})
	}
	r.floor("appends in the filters of the skip list", n, 1)
}

// c10r8: StripLastDelimiter removes the delimiter (and blanks) at the END of the last selected field. The
// beginning of the text is part of the field: the recorded offsets and the displayed text start there (round-6
// mutant C10c6 used TrimSpace, which also cut leading blanks: `--with-nth` showed a different text than the one
// the offsets refer to).
func c10r8(c *Ctx, r *Report) {
	l := c.L
	r.rule("C10-R8", "B (only suffix-removing operations)", "P1",
		"in StripLastDelimiter, no strings function that can remove a prefix (TrimSpace, Trim, TrimLeft*, TrimPrefix, TrimFunc) is applied to the text and no slice of it has a lower bound",
		"leading blanks of the selected field disappear from the transformed line")
	sd := l.Fn("fzf", "StripLastDelimiter")
	if sd == nil || len(sd.Params) < 1 {
		r.unest("anchors", token.NoPos, nil, "anchor StripLastDelimiter", "cannot resolve")
		return
	}
	der := forwardDerived(sd, []ssa.Value{sd.Params[0]}, func(*ssa.CallCommon) bool { return true })
	n := 0
	bad := ""
	eachInstr(sd, func(in ssa.Instruction) {
		switch x := in.(type) {
		case *ssa.Call:
			if len(x.Call.Args) == 0 || !der[x.Call.Args[0]] {
				return
			}
			n++
			switch calleeName(x.Common()) {
			case "strings.TrimSpace", "strings.Trim", "strings.TrimLeft", "strings.TrimLeftFunc", "strings.TrimPrefix", "strings.TrimFunc":
				bad = calleeName(x.Common()) + " at " + l.pos(x.Pos())
			}
		case *ssa.Slice:
			if der[x.X] {
				n++
				if x.Low != nil {
					bad = "a slice with a lower bound at " + l.pos(x.Pos())
				}
			}
		}
	})
	r.check(bad == "", relName(sd)+":only the end of the text is cut", sd.Pos(), sd, fmt.Sprintf("%d operations on the text, all suffix-removing", n), bad+" can remove the beginning of the field")
	r.floor("operations on the text in StripLastDelimiter", n, 2)
}

// c03r7: bonusFor decides the position bonus of a character from its class and its predecessor's class. The
// documented model gives the word-boundary bonuses to every word character (every class above charNonWord)
// and tries them FIRST; camelCase / letter-to-digit transitions only come into play when no boundary applies
// (round-5 mutant C03c5 raised the threshold constant to charDelimiter; round-6 mutant C03c6 moved the
// camelCase test in front: a digit at the start of a word got 7 instead of the boundary bonus).
func c03r7(c *Ctx, r *Report) {
	l := c.L
	r.rule("C03-R7", "H + A (threshold constant and order of the two bonus families)", "P1",
		"bonusFor contains a test equivalent to `class > charNonWord`, and every return of the value bonusCamel123 is dominated by that test",
		"digits after a blank or a delimiter, and delimiter characters themselves, get a different bonus than the documented model gives them")
	bf := l.Fn("algo", "bonusFor")
	nonWord, ok1 := constOf(l, "algo", "charNonWord")
	camel, ok2 := constOf(l, "algo", "bonusCamel123")
	if bf == nil || !ok1 || !ok2 || len(bf.Params) != 2 {
		r.unest("anchors", token.NoPos, nil, "anchors bonusFor / charNonWord / bonusCamel123", "cannot resolve")
		return
	}
	// the word-character test: class > charNonWord, in any equivalent spelling
	var first *ssa.If
	eachInstr(bf, func(in ssa.Instruction) {
		iff, ok := in.(*ssa.If)
		if !ok || first != nil {
			return
		}
		b, ok := iff.Cond.(*ssa.BinOp)
		if !ok || b.X != ssa.Value(bf.Params[1]) {
			return
		}
		k, isK := constIntVal(b.Y)
		if !isK {
			return
		}
		switch {
		case b.Op == token.GTR && k == nonWord, b.Op == token.GEQ && k == nonWord+1, b.Op == token.LEQ && k == nonWord, b.Op == token.LSS && k == nonWord+1:
			first = iff
		}
	})
	ok := first != nil
	r.check(ok, relName(bf)+":word characters are the classes above charNonWord", bf.Pos(), bf, "a test equivalent to class > charNonWord selects the boundary bonuses", "bonusFor has no test equivalent to `class > charNonWord`: another set of classes gets the boundary bonuses")
	n := 0
	eachInstr(bf, func(in ssa.Instruction) {
		ret, ok := in.(*ssa.Return)
		if !ok || len(ret.Results) != 1 {
			return
		}
		if k, isK := constIntVal(ret.Results[0]); !isK || k != camel {
			return
		}
		n++
		r.check(ok && first != nil && first.Block().Dominates(in.Block()) && first.Block() != in.Block(), fmt.Sprintf("%s:camelCase bonus #%d comes after the boundary test", relName(bf), n), ret.Pos(), bf,
			"dominated by the boundary test", "bonusCamel123 can be returned before the word-boundary bonuses were considered")
	})
	r.floor("returns of bonusCamel123", n, 1)
}

// c14r14: constrain() walks the result list from Terminal.offset to find out how many (multi-line) items fit.
// After a query change the old offset can lie beyond the end of the new list, so it is clamped to the list
// first; every read of the merger in constrain comes after that clamp (round-6 mutant C14b6 dropped the
// clamp: with --wrap / multi-line items, scrolling down and then narrowing the query indexed past the list).
func c14r14(c *Ctx, r *Report) {
	l := c.L
	r.rule("C14-R14", "A (clamp dominates use)", "P1",
		"in Terminal.constrain, every call of Merger.Get is dominated by a store of a util.Constrain result into Terminal.offset",
		"index out of range in the render goroutine after the list shrinks below the scroll offset (multi-line display)")
	cs := l.Fn("fzf", "(*Terminal).constrain")
	get := l.Fn("fzf", "(*Merger).Get")
	fOff := l.Field("fzf", "Terminal", "offset")
	if cs == nil || get == nil || fOff == nil {
		r.unest("anchors", token.NoPos, nil, "anchors Terminal.constrain / Merger.Get / Terminal.offset", "cannot resolve")
		return
	}
	var clamps []ssa.Instruction
	eachInstr(cs, func(in ssa.Instruction) {
		st, ok := in.(*ssa.Store)
		if !ok {
			return
		}
		if fld, _ := fieldOf(st.Addr); fld != fOff {
			return
		}
		if call, ok := st.Val.(*ssa.Call); ok && calleeName(call.Common()) == modPath+"/src/util.Constrain" {
			clamps = append(clamps, in)
		}
	})
	n := 0
	for _, f := range withClosures(cs) {
		eachInstr(f, func(in ssa.Instruction) {
			call, ok := in.(*ssa.Call)
			if !ok || !callIs(call.Common(), get) {
				return
			}
			n++
			dom := false
			// for a closure of constrain: the closure is created after the clamp
			anchor := in
			if f != cs {
				eachInstr(cs, func(i2 ssa.Instruction) {
					if mc, ok := i2.(*ssa.MakeClosure); ok && mc.Fn == ssa.Value(f) {
						anchor = i2
					}
				})
			}
			for _, cl := range clamps {
				if anchor.Parent() == cs && dominates(cl, anchor) {
					dom = true
				}
			}
			r.check(dom, fmt.Sprintf("%s:read #%d of the list comes after the offset clamp", relName(cs), n), call.Pos(), f, "the offset was clamped to the list first", "the list is read at positions derived from an offset that was not clamped to the new list")
		})
	}
	r.floor("reads of the merger in constrain", n, 1)
}

// c19r10: inside tmux fzf relaunches itself in a popup; relative walker roots (and everything else relative)
// must resolve against the directory the ORIGINAL process runs in, so the popup is started with `-d <cwd>` where
// cwd comes from os.Getwd (round-6 mutant C19c6 preferred $PWD, which a caller may have left stale: the popup
// walked another directory).
func c19r10(c *Ctx, r *Report) {
	l := c.L
	r.rule("C19-R10", "D (provenance of the popup's working directory)", "P1",
		"in runTmux, every non-constant string placed into the initial tmux argument list derives from os.Getwd and from no environment variable",
		"with --tmux the built-in walker lists another directory than the one fzf was started in")
	rt := l.Fn("fzf", "runTmux")
	if rt == nil {
		r.unest("anchors", token.NoPos, nil, "anchor runTmux", "cannot resolve")
		return
	}
	n := 0
	eachInstr(rt, func(in ssa.Instruction) {
		st, ok := in.(*ssa.Store)
		if !ok {
			return
		}
		ia, ok := st.Addr.(*ssa.IndexAddr)
		if !ok {
			return
		}
		al, ok := ia.X.(*ssa.Alloc)
		if !ok {
			return
		}
		arr, ok := deref(al.Type()).Underlying().(*types.Array)
		if !ok || !types.Identical(arr.Elem(), types.Typ[types.String]) {
			return
		}
		if _, isK := st.Val.(*ssa.Const); isK {
			return
		}
		// only the literal that starts with "display-popup"
		isPopup := false
		for _, ref := range *al.Referrers() {
			if ia2, ok := ref.(*ssa.IndexAddr); ok && ia2.Referrers() != nil {
				for _, r2 := range *ia2.Referrers() {
					if s2, ok := r2.(*ssa.Store); ok {
						if cs, ok := constString(s2.Val); ok && cs == "display-popup" {
							isPopup = true
						}
					}
				}
			}
		}
		if !isPopup {
			return
		}
		n++
		wd := dependsOnCall(st.Val, func(c2 *ssa.Call) bool { return calleeName(c2.Common()) == "os.Getwd" })
		env := dependsOnCall(st.Val, func(c2 *ssa.Call) bool {
			nm := calleeName(c2.Common())
			return nm == "os.Getenv" || nm == "os.LookupEnv"
		})
		r.check(wd && !env, fmt.Sprintf("%s:popup argument #%d is the working directory of this process", relName(rt), n), st.Pos(), rt, "from os.Getwd", "the popup's directory can come from the environment instead of os.Getwd")
	})
	r.floor("computed strings in the display-popup argument list", n, 1)
}

// c15r12: LightRenderer.Clear erases from the origin of fzf's area downwards and leaves the cursor there; the
// renderer's record of the cursor has to say so afterwards, in full-screen mode too (there `CSI H` moves the
// terminal's cursor but not the record). Every path through Clear therefore passes origin() (round-3 mutant
// C15b3 and round-6 mutant C15a6 made it conditional on the non-fullscreen branch: after a full redraw the
// next relative movement started from a stale row).
func c15r12(c *Ctx, r *Report) {
	l := c.L
	r.rule("C15-R12", "A (must-pass-through)", "P1",
		"in LightRenderer.Clear, every path from the entry to the return passes a call of LightRenderer.origin",
		"after ctrl-l / a resize in full-screen mode the list is drawn at the wrong rows")
	cl := l.Fn("tui", "(*LightRenderer).Clear")
	org := l.Fn("tui", "(*LightRenderer).origin")
	if cl == nil || org == nil {
		r.unest("anchors", token.NoPos, nil, "anchors LightRenderer.Clear / origin", "cannot resolve")
		return
	}
	entry := cl.Blocks[0].Instrs[0]
	isOrg := func(i ssa.Instruction) bool { return staticCallee(i) == org }
	esc := ssa.Instruction(nil)
	if !isOrg(entry) {
		esc = pathAvoiding(entry, isReturn, isOrg, nil)
	}
	r.check(esc == nil, relName(cl)+":the cursor record is reset on every path", cl.Pos(), cl, "origin() on every path", "a path through Clear does not call origin(): the cursor record keeps its old row while the terminal's cursor is at the top")
}

// c01r9: the chunk-cache key of an extended pattern is the list of its cacheable terms joined by a separator.
// Two different term lists must not produce the same key, so the separator must be something no term can
// contain. A term is `string([]rune)`, i.e. always valid UTF-8 — hence a separator that is NOT valid UTF-8 is
// safe, and any valid one (TAB, since D34 keeps a TAB of the query in the term) is not (D40: `a b` and
// `a<TAB>b` shared the key "a\tb": in interactive mode one query was answered from the other's cached chunk
// results).
func c01r9(c *Ctx, r *Report) {
	l := c.L
	r.rule("C01-R9", "H + D (the separator is outside the alphabet of the joined strings)", "P1",
		"in Pattern.buildCacheKey, every string joined into the key is a conversion of a []rune value, and the constant separator passed to strings.Join either is not valid UTF-8 or is replaced in every joined string (strings.ReplaceAll) by a constant that is not valid UTF-8",
		"the interactive match list depends on the query history: a query containing the separator is served from the cache entry of a multi-term query (and vice versa)")
	bk := l.Fn("fzf", "(*Pattern).buildCacheKey")
	if bk == nil {
		r.unest("anchors", token.NoPos, nil, "anchor Pattern.buildCacheKey", "cannot resolve")
		return
	}
	n := 0
	eachInstr(bk, func(in ssa.Instruction) {
		call, ok := in.(*ssa.Call)
		if !ok || calleeName(call.Common()) != "strings.Join" {
			return
		}
		n++
		sep, isK := constString(call.Call.Args[1])
		// the joined elements: values appended to the slice. Each is a conversion of a []rune (valid UTF-8), taken as
		// it is when the separator is not valid UTF-8, or passed through strings.ReplaceAll(x, sep, R) with R a
		// constant that is not valid UTF-8 (so the replacement is one-to-one on valid strings and removes sep)
		fromRunes := func(v ssa.Value) bool {
			cv, ok := v.(*ssa.Convert)
			if !ok {
				return false
			}
			sl, ok := cv.X.Type().Underlying().(*types.Slice)
			return ok && types.Identical(sl.Elem().Underlying(), types.Typ[types.Int32])
		}
		okAll, nEl := true, 0
		for w := range backwardSlice(call.Call.Args[0], func(*ssa.CallCommon) bool { return true }, nil) {
			ap, ok := w.(*ssa.Call)
			if !ok || calleeName(ap.Common()) != "builtin.append" {
				continue
			}
			for v := range backwardSlice(ap.Call.Args[1], nil, nil) {
				al, ok := v.(*ssa.Alloc)
				if !ok || al.Referrers() == nil {
					continue
				}
				for _, ref := range *al.Referrers() {
					ia, ok := ref.(*ssa.IndexAddr)
					if !ok || ia.Referrers() == nil {
						continue
					}
					for _, r2 := range *ia.Referrers() {
						s2, ok := r2.(*ssa.Store)
						if !ok || s2.Addr != ssa.Value(ia) {
							continue
						}
						nEl++
						switch {
						case fromRunes(s2.Val) && isK && !utf8.ValidString(sep):
						default:
							rc, ok := s2.Val.(*ssa.Call)
							good := false
							if ok && calleeName(rc.Common()) == "strings.ReplaceAll" && fromRunes(rc.Call.Args[0]) {
								o, ok1 := constString(rc.Call.Args[1])
								nw, ok2 := constString(rc.Call.Args[2])
								good = ok1 && ok2 && isK && o == sep && !utf8.ValidString(nw) && !strings.Contains(nw, sep)
							}
							if !good {
								okAll = false
							}
						}
					}
				}
			}
		}
		r.check(isK && okAll && nEl > 0, fmt.Sprintf("%s:key separator #%d cannot occur in a joined term", relName(bk), n), call.Pos(), bk,
			"terms are string([]rune); the separator is invalid UTF-8, or is replaced in every term by a string that is", fmt.Sprintf("a term can contain the separator %q: two different term lists can have the same key", sep))
	})
	r.floor("joins in buildCacheKey", n, 1)
}

// c08r19: Matcher.Loop may answer a request from the merger cache only when the snapshot has as many items as
// the snapshot the cached mergers were built over; it remembers that number in a loop-carried variable. The
// variable must describe the PREVIOUS iteration's snapshot whatever that iteration did — also when it dropped
// the caches because the revision changed (D41: on that path the variable kept the count from before the
// reload; a later snapshot of the new input that happened to have that old count was answered with the merger
// of a smaller snapshot: 300 items loaded, 100 shown, until the count changed again).
func c08r19(c *Ctx, r *Report) {
	l := c.L
	r.rule("C08-R19", "D (value carried around the loop)", "P1",
		"in Matcher.Loop, the loop-carried variable that is compared with CountItems(request.chunks) receives, on every path to the next iteration, that call's result — or keeps its old value only on a path that has established old == count",
		"after a reload (or change-nth / exclude) the list of an earlier, smaller snapshot is served for a later snapshot that happens to have the item count seen before the reload")
	mloop := l.Fn("fzf", "(*Matcher).Loop")
	countItems := l.Fn("fzf", "CountItems")
	if mloop == nil || countItems == nil {
		r.unest("anchors", token.NoPos, nil, "anchors Matcher.Loop / CountItems", "cannot resolve")
		return
	}
	var count *ssa.Call
	eachInstr(mloop, func(in ssa.Instruction) {
		if call, ok := in.(*ssa.Call); ok && callIs(call.Common(), countItems) {
			count = call
		}
	})
	if count == nil {
		r.unest("anchors", token.NoPos, mloop, "the call of CountItems in Matcher.Loop", "cannot find it")
		return
	}
	// the loop-carried variable: a header phi compared with count
	var prev *ssa.Phi
	eachInstr(mloop, func(in ssa.Instruction) {
		b, ok := in.(*ssa.BinOp)
		if !ok || (b.Op != token.EQL && b.Op != token.NEQ) {
			return
		}
		for _, pr := range [][2]ssa.Value{{b.X, b.Y}, {b.Y, b.X}} {
			if pr[0] == ssa.Value(count) {
				if p, ok := pr[1].(*ssa.Phi); ok {
					prev = p
				}
			}
		}
	})
	if prev == nil {
		r.unest("anchors", token.NoPos, mloop, "the loop-carried count that CountItems' result is compared with", "cannot find it")
		return
	}
	pc := pathConds(mloop)
	n := 0
	seen := map[*ssa.Phi]bool{}
	var walk func(v ssa.Value, from *ssa.BasicBlock, to *ssa.BasicBlock)
	walk = func(v ssa.Value, from, to *ssa.BasicBlock) {
		if v == ssa.Value(count) {
			n++
			r.ok(fmt.Sprintf("%s:carried count, path #%d", relName(mloop), n), count.Pos(), mloop, "the new count is carried")
			return
		}
		if phi, ok := v.(*ssa.Phi); ok && phi != prev {
			if seen[phi] {
				return
			}
			seen[phi] = true
			for i, e := range phi.Edges {
				walk(e, phi.Block().Preds[i], phi.Block())
			}
			return
		}
		n++
		good := false
		if v == ssa.Value(prev) && from != nil {
			eq := func(lits []Lit) bool {
				return hasLit(lits, func(a ssa.Value, val bool) bool {
					b, ok := a.(*ssa.BinOp)
					if !ok {
						return false
					}
					same := b.X == ssa.Value(count) && b.Y == ssa.Value(prev) || b.Y == ssa.Value(count) && b.X == ssa.Value(prev)
					return same && (b.Op == token.EQL && val || b.Op == token.NEQ && !val)
				})
			}
			h1, r1 := pc.ImpliesEdge(from, to, eq)
			h2, r2 := pc.Implies(from, eq)
			good = h1 && r1 || h2 && r2
		}
		pos := mloop.Pos()
		if from != nil && len(from.Instrs) > 0 {
			pos = from.Instrs[len(from.Instrs)-1].Pos()
		}
		r.check(good, fmt.Sprintf("%s:carried count, path #%d", relName(mloop), n), pos, mloop, "the old value is kept only where it equals the new count", "a path to the next iteration keeps the count of an older snapshot although this iteration scanned a snapshot of another size")
	}
	for i, e := range prev.Edges {
		p := prev.Block().Preds[i]
		if prev.Block().Dominates(p) { // back edge
			walk(e, p, prev.Block())
		}
	}
	r.floor("values carried into the next iteration's count", n, 2)
}

// c02r12: the matchers' contract says "the pattern is already normalised if normalize is true". The pattern
// text and the flag are handed over together in two places — per term (parseTerms) and for the whole query
// (BuildPattern, --no-extended) — and in both the text has to pass algo.NormalizeRunes wherever the flag can
// be true (D43: the --no-extended branch kept the flag but not the normalisation; under smart-case the
// capitals İ, Ⱥ, Ⱦ stayed in the pattern, the line's character was folded, and `fzf +x -f İ` did not find
// `İstanbul`).
func c02r12(c *Ctx, r *Report) {
	l := c.L
	r.rule("C02-R12", "E (sibling agreement: text and flag are produced together)", "P1",
		"for every struct of package fzf into which a pattern text ([]rune field `text`) and a flag `normalize` are stored together, the stored text is computed from a call of algo.NormalizeRunes",
		"a query containing a capital whose lower-case form is not in the accent table (İ, Ⱥ, Ⱦ) does not match lines containing that very character under --no-extended")
	norm := l.Fn("algo", "NormalizeRunes")
	if norm == nil {
		r.unest("anchors", token.NoPos, nil, "anchor algo.NormalizeRunes", "cannot resolve")
		return
	}
	n := 0
	for _, fn := range l.AllFuncs() {
		if fn.Blocks == nil || fn.Pkg != l.pkg("fzf") {
			continue
		}
		type pair struct {
			text  *ssa.Store
			hasNm bool
		}
		byBase := map[ssa.Value]*pair{}
		eachInstr(fn, func(in ssa.Instruction) {
			st, ok := in.(*ssa.Store)
			if !ok {
				return
			}
			fld, base := fieldOf(st.Addr)
			if fld == nil || base == nil {
				return
			}
			if _, isAlloc := base.(*ssa.Alloc); !isAlloc {
				return
			}
			if byBase[base] == nil {
				byBase[base] = &pair{}
			}
			switch fld.Name() {
			case "text":
				if sl, ok := fld.Type().Underlying().(*types.Slice); ok && types.Identical(sl.Elem().Underlying(), types.Typ[types.Int32]) {
					byBase[base].text = st
				}
			case "normalize":
				if k, isK := st.Val.(*ssa.Const); !isK || k.Value == nil || k.Value.String() != "false" {
					byBase[base].hasNm = true
				}
			}
		})
		for _, p := range byBase {
			if p.text == nil || !p.hasNm {
				continue
			}
			n++
			normalised := dependsOnCall(p.text.Val, func(c2 *ssa.Call) bool { return callIs(c2.Common(), norm) })
			r.check(normalised, fmt.Sprintf("%s:pattern text stored with a normalize flag #%d", relName(fn), n), p.text.Pos(), fn,
				"the text passes algo.NormalizeRunes", "the text is stored next to a normalize flag that can be true but never passes algo.NormalizeRunes: the matchers fold the line and compare it with an unfolded pattern")
		}
	}
	r.floor("(text, normalize) pairs handed to the matchers", n, 2)
}

// c19r11: readFiles walks the given roots one after the other and remembers whether all walks succeeded.
// Whether a root is walked must not depend on how the roots before it fared (D44: `noerr = noerr && (Walk(..)
// == nil)` short-circuits: after one root that cannot be walked — it does not exist — all later roots were
// skipped silently).
func c19r11(c *Ctx, r *Report) {
	l := c.L
	r.rule("C19-R11", "A (the walk of a root does not depend on earlier walks)", "P1",
		"in Reader.readFiles, the call of fastwalk.Walk is control dependent on no value carried around the loop over the roots",
		"--walker-root with a root that cannot be walked silently drops every root listed after it")
	rf := l.Fn("fzf", "(*Reader).readFiles")
	if rf == nil {
		r.unest("anchors", token.NoPos, nil, "anchor Reader.readFiles", "cannot resolve")
		return
	}
	cc := cdCache{}
	n := 0
	eachInstr(rf, func(in ssa.Instruction) {
		call, ok := in.(*ssa.Call)
		if !ok || !strings.HasSuffix(calleeName(call.Common()), "fastwalk.Walk") {
			return
		}
		n++
		bad := ""
		for cond := range cc.of(in) {
			for w := range backwardSlice(cond, nil, nil) {
				phi, ok := w.(*ssa.Phi)
				if !ok {
					continue
				}
				// a loop-carried boolean: a phi one of whose edges comes from a block it dominates
				if bt, ok := phi.Type().Underlying().(*types.Basic); !ok || bt.Kind() != types.Bool {
					continue
				}
				for _, p := range phi.Block().Preds {
					if phi.Block().Dominates(p) {
						bad = l.pos(cond.Pos())
					}
				}
			}
		}
		r.check(bad == "", fmt.Sprintf("%s:walk #%d runs for every root", relName(rf), n), call.Pos(), rf,
			"unconditional inside the loop", "the walk is skipped depending on a flag carried from the previous roots")
	})
	r.floor("calls of fastwalk.Walk", n, 1)
}

// c09r14: constrain() brings the cursor back into the result list. The clamp has to happen on every path
// through the function, not only inside the loop that fits items to the window — that loop does not run at all
// when the window has no row for items (D45: with --height=3 --header-lines=1, or a 2-row terminal, the cursor
// stayed beyond the end after the list shrank: no current line, accept printed nothing and exited with 1).
func c09r14(c *Ctx, r *Report) {
	l := c.L
	r.rule("C09-R14", "A (must-pass-through)", "P1",
		"in Terminal.constrain, every path from the entry to a return passes a store of a util.Constrain result into Terminal.cy",
		"in a window without room for item rows the cursor is never clamped: accept prints nothing although there is a match")
	cs := l.Fn("fzf", "(*Terminal).constrain")
	fCy := l.Field("fzf", "Terminal", "cy")
	if cs == nil || fCy == nil {
		r.unest("anchors", token.NoPos, nil, "anchors Terminal.constrain / Terminal.cy", "cannot resolve")
		return
	}
	isClamp := func(in ssa.Instruction) bool {
		st, ok := in.(*ssa.Store)
		if !ok {
			return false
		}
		if fld, _ := fieldOf(st.Addr); fld != fCy {
			return false
		}
		call, ok := st.Val.(*ssa.Call)
		return ok && calleeName(call.Common()) == modPath+"/src/util.Constrain"
	}
	entry := cs.Blocks[0].Instrs[0]
	esc := ssa.Instruction(nil)
	if !isClamp(entry) {
		esc = pathAvoiding(entry, isReturn, isClamp, nil)
	}
	r.check(esc == nil, relName(cs)+":the cursor is clamped on every path", cs.Pos(), cs, "a clamp of cy on every path to the return", "a path through constrain (the fitting loop not entered) leaves the cursor unclamped")
}

// c08r20: a bracketed paste is applied to the query key by key and compared with a snapshot of the query
// taken when the paste began; only a difference triggers a search. The snapshot has to be a COPY: the editing
// actions rewrite Terminal.input in place (D46: `current := []rune(t.input)` converts a []rune to []rune, which
// copies nothing; a paste containing a backspace changed the snapshot along with the query, no search was
// requested, and the list kept showing the matches of the old query).
func c08r20(c *Ctx, r *Report) {
	l := c.L
	r.rule("C08-R20", "F (the snapshot does not alias the live query)", "P1",
		"every value stored into the variable whose address is kept in Terminal.pasting is computed through a call (a copy), never a plain load or conversion of Terminal.input",
		"after a paste that deletes characters the query on screen is not the query whose results are shown")
	fPaste := l.Field("fzf", "Terminal", "pasting")
	fIn := l.Field("fzf", "Terminal", "input")
	if fPaste == nil || fIn == nil {
		r.unest("anchors", token.NoPos, nil, "anchors Terminal.pasting / Terminal.input", "cannot resolve")
		return
	}
	n := 0
	for _, fn := range l.AllFuncs() {
		if fn.Blocks == nil || fn.Pkg != l.pkg("fzf") {
			continue
		}
		eachInstr(fn, func(in ssa.Instruction) {
			st, ok := in.(*ssa.Store)
			if !ok {
				return
			}
			if fld, _ := fieldOf(st.Addr); fld != fPaste {
				return
			}
			al, ok := st.Val.(*ssa.Alloc)
			if !ok || al.Referrers() == nil {
				return
			}
			for _, ref := range *al.Referrers() {
				s2, ok := ref.(*ssa.Store)
				if !ok || s2.Addr != ssa.Value(al) {
					continue
				}
				n++
				alias := false
				for w := range backwardSlice(s2.Val, nil, nil) {
					if fld, _ := loadedField(w); fld == fIn {
						alias = true
					}
				}
				r.check(!alias, fmt.Sprintf("%s:paste snapshot #%d is a copy", relName(rootFn(fn)), n), s2.Pos(), fn, "the snapshot passes a copying call", "the snapshot is Terminal.input itself (a conversion between identical slice types copies nothing)")
			}
		})
	}
	r.floor("snapshots kept in Terminal.pasting", n, 1)
}

// c14r15: a field range comes from the user (`--nth 2..9223372036854775807`, `{-999999999999..}`); the loop
// in Transform that collects the fields of a range must run over existing fields only, i.e. between 1 and the
// number of tokens, whatever the bounds of the range are (D47: it ran from `begin` to `end` and merely skipped
// the indexes without a field: a huge bound kept one core busy for ever — and the int counter wraps before it
// gets there — for every line).
func c14r15(c *Ctx, r *Report) {
	l := c.L
	r.rule("C14-R15", "A (a loop over user-given bounds is clipped to the data)", "P1",
		"in Transform, the loop whose counter indexes `tokens` starts at a util.Max(.., 1) and ends at a util.Min(.., len(tokens))",
		"--nth / --with-nth / --accept-nth / {N..M} with a huge bound never returns: fzf hangs on the first line")
	tf := l.Fn("fzf", "Transform")
	if tf == nil || len(tf.Params) < 1 {
		r.unest("anchors", token.NoPos, nil, "anchor Transform", "cannot resolve")
		return
	}
	tokens := tf.Params[0]
	isLenTokens := func(v ssa.Value) bool {
		call, ok := v.(*ssa.Call)
		return ok && calleeName(call.Common()) == "builtin.len" && call.Call.Args[0] == ssa.Value(tokens)
	}
	clip := func(v ssa.Value, fn string, pred func(ssa.Value) bool) bool {
		call, ok := v.(*ssa.Call)
		if !ok || calleeName(call.Common()) != modPath+"/src/util."+fn {
			return false
		}
		for _, a := range call.Call.Args {
			if pred(a) {
				return true
			}
		}
		return false
	}
	n := 0
	for _, lp := range natLoops(tf) {
		// the counter: a header phi of int type that indexes tokens (minus one) inside the loop
		for _, in := range lp.hdr.Instrs {
			phi, ok := in.(*ssa.Phi)
			if !ok {
				break
			}
			indexes := false
			eachInstr(tf, func(i2 ssa.Instruction) {
				ia, ok := i2.(*ssa.IndexAddr)
				if !ok || ia.X != ssa.Value(tokens) || !lp.body[i2.Block()] {
					return
				}
				for w := range backwardSlice(ia.Index, nil, nil) {
					if w == ssa.Value(phi) {
						indexes = true
					}
				}
			})
			// the range loop over withNth also has a header phi, but its counter does not index tokens
			if !indexes {
				continue
			}
			iff, ok := lp.hdr.Instrs[len(lp.hdr.Instrs)-1].(*ssa.If)
			if !ok {
				continue
			}
			cmp, ok := iff.Cond.(*ssa.BinOp)
			if !ok || cmp.X != ssa.Value(phi) {
				continue
			}
			n++
			upper := clip(cmp.Y, "Min", isLenTokens)
			lower := false
			for i, e := range phi.Edges {
				if lp.body[phi.Block().Preds[i]] {
					continue
				}
				lower = clip(e, "Max", func(a ssa.Value) bool { return isConstInt(a, 1) })
			}
			r.check(upper && lower, fmt.Sprintf("%s:field loop #%d is clipped to the existing fields", relName(tf), n), cmp.Pos(), tf,
				"from util.Max(begin, 1) to util.Min(end, len(tokens))", "the loop runs over the whole range the user gave, not over the fields that exist")
		}
	}
	r.floor("loops over field indexes in Transform", n, 1)
}

// c17r17: $FZF_DEFAULT_OPTS and the options file are split into words by a shell-words parser that STOPS at
// the first unquoted `; & | < >` and reports where it stopped in Parser.Position. Whoever calls Parse has to
// look at that position; otherwise the rest of the string — valid options, invalid options, the remaining
// lines of the file — is dropped without a word (D48: `FZF_DEFAULT_OPTS='--query=a|b --no-such-option'` was
// accepted with exit 0).
func c17r17(c *Ctx, r *Report) {
	l := c.L
	r.rule("C17-R17", "B (the stop position of the word parser is consulted at every call site)", "P1",
		"every function of package fzf that calls (*shellwords.Parser).Parse also reads the parser's Position field after the call",
		"$FZF_DEFAULT_OPTS / the options file is silently truncated at an unquoted shell metacharacter: options after it are neither applied nor reported")
	n := 0
	for _, fn := range l.AllFuncs() {
		if fn.Blocks == nil || fn.Pkg != l.pkg("fzf") {
			continue
		}
		eachInstr(fn, func(in ssa.Instruction) {
			call, ok := in.(*ssa.Call)
			if !ok || !strings.HasSuffix(calleeName(call.Common()), "go-shellwords.Parser).Parse") {
				return
			}
			n++
			read := false
			eachInstr(fn, func(i2 ssa.Instruction) {
				u, ok := i2.(*ssa.UnOp)
				if !ok || u.Op != token.MUL {
					return
				}
				if fld, _ := fieldOf(u.X); fld != nil && fld.Name() == "Position" && canReach(in, i2) {
					read = true
				}
			})
			r.check(read, fmt.Sprintf("%s:word parser call #%d checks where the parser stopped", relName(fn), n), call.Pos(), fn,
				"Parser.Position is read after Parse", "the words are used without looking at Parser.Position: everything after an unquoted ; & | < > is dropped silently")
			// the library reports "everything was parsed" as -1; position 0 is a stop like any other
			// (round-9 mutant C17d9 tested `Position > 0`: a value starting with ; & | < > was dropped silently)
			eachInstr(fn, func(i2 ssa.Instruction) {
				b, ok := i2.(*ssa.BinOp)
				if !ok {
					return
				}
				x, op, k, ok := cmpInt(b)
				if !ok {
					return
				}
				if fld, _ := loadedField(x); fld == nil || fld.Name() != "Position" {
					return
				}
				switch op {
				case token.GEQ, token.GTR, token.NEQ, token.EQL, token.LSS, token.LEQ:
				default:
					return
				}
				admits0 := false // does the "stopped" side of the test contain position 0, and the other side -1?
				switch op {
				case token.GEQ:
					admits0 = k == 0
				case token.GTR:
					admits0 = k == -1
				case token.NEQ, token.EQL:
					admits0 = k == -1
				case token.LSS:
					admits0 = k == 0
				case token.LEQ:
					admits0 = k == -1
				}
				r.check(admits0, fmt.Sprintf("%s:the stop test of word parser call #%d separates -1 from 0 and up", relName(fn), n), b.Pos(), fn,
					"-1 means `parsed everything`, every other position is a stop", "the test of Parser.Position does not treat position 0 as a stop: a string that begins with an unquoted metacharacter is dropped silently")
			})
		})
	}
	r.floor("calls of the shell-words parser", n, 1)
}

// c17r18: strconv.ParseFloat accepts "NaN" and "Inf". Every comparison with NaN is false, so a NaN passes
// the range checks `val < 0` / `val > max` that follow; a number parsed from an option therefore has to be
// screened with math.IsNaN before it is returned (D49: `--height NaN%`, `--margin nan%`, `--padding NaN%` were
// accepted and became garbage sizes).
func c17r18(c *Ctx, r *Report) {
	l := c.L
	r.rule("C17-R18", "B (every parsed float is screened for NaN)", "P1",
		"in package fzf, every function that calls strconv.ParseFloat passes the parsed value to math.IsNaN before returning it",
		"a percentage option given as NaN% is accepted although it is outside the documented domain")
	n := 0
	for _, fn := range l.AllFuncs() {
		if fn.Blocks == nil || fn.Pkg != l.pkg("fzf") {
			continue
		}
		eachInstr(fn, func(in ssa.Instruction) {
			call, ok := in.(*ssa.Call)
			if !ok || calleeName(call.Common()) != "strconv.ParseFloat" {
				return
			}
			n++
			screened := false
			eachInstr(fn, func(i2 ssa.Instruction) {
				c2, ok := i2.(*ssa.Call)
				if !ok || calleeName(c2.Common()) != "math.IsNaN" {
					return
				}
				for w := range backwardSlice(c2.Call.Args[0], nil, nil) {
					if ex, ok := w.(*ssa.Extract); ok && ex.Tuple == ssa.Value(call) {
						screened = true
					}
				}
			})
			r.check(screened, fmt.Sprintf("%s:float parse #%d rejects NaN", relName(fn), n), call.Pos(), fn, "math.IsNaN is applied to the parsed value", "a NaN passes every later range comparison")
		})
	}
	r.floor("calls of strconv.ParseFloat", n, 1)
}

// c17r19: a parser of package fzf reports an invalid value by returning an error. A caller inside the option
// parsers that TESTS such an error must not continue to a successful return on the "error is not nil" side:
// that would accept the invalid value silently (D50: nthTransformer did `else if nth, err := splitNth(expr);
// err == nil { ... }` with nothing for the other outcome — an invalid placeholder such as {0} or {1..2..3} in
// a --with-nth / --accept-nth template simply vanished, while the same expression without braces is rejected).
func c17r19(c *Ctx, r *Report) {
	l := c.L
	r.rule("C17-R19", "A (the error outcome never reaches a successful return)", "P1",
		"in options.go, for every branch on the nil-ness of an error returned by a function of package fzf, no path from the `not nil` side reaches a return whose error result is the constant nil",
		"an invalid sub-expression is dropped silently: the option is neither accepted as documented nor rejected")
	n := 0
	for _, fn := range l.AllFuncs() {
		if fn.Blocks == nil || fn.Pkg != l.pkg("fzf") || !strings.HasSuffix(l.Fset.Position(fn.Pos()).Filename, "options.go") {
			continue
		}
		res := fn.Signature.Results()
		ei := -1
		for i := 0; i < res.Len(); i++ {
			if isErrorType(res.At(i).Type()) {
				ei = i
			}
		}
		if ei < 0 {
			continue
		}
		okRet := func(in ssa.Instruction) bool {
			ret, ok := in.(*ssa.Return)
			if !ok || len(ret.Results) <= ei {
				return false
			}
			k, isK := retResult(ret, ei).(*ssa.Const)
			return isK && k.IsNil()
		}
		errRet := func(in ssa.Instruction) bool {
			ret, ok := in.(*ssa.Return)
			return ok && !okRet(ret)
		}
		k := 0
		eachInstr(fn, func(in ssa.Instruction) {
			iff, ok := in.(*ssa.If)
			if !ok {
				return
			}
			b, ok := iff.Cond.(*ssa.BinOp)
			if !ok || (b.Op != token.EQL && b.Op != token.NEQ) {
				return
			}
			kc, isK := b.Y.(*ssa.Const)
			if !isK || !kc.IsNil() || !isErrorType(b.X.Type()) {
				return
			}
			ex, ok := b.X.(*ssa.Extract)
			if !ok {
				return
			}
			call, ok := ex.Tuple.(*ssa.Call)
			if !ok || call.Common().StaticCallee() == nil || call.Common().StaticCallee().Pkg != fn.Pkg {
				return
			}
			n++
			k++
			bad := iff.Block().Succs[1]
			if b.Op == token.NEQ {
				bad = iff.Block().Succs[0]
			}
			start := bad.Instrs[0]
			esc := ssa.Instruction(nil)
			if okRet(start) {
				esc = start
			} else if !errRet(start) {
				esc = pathAvoiding(start, okRet, errRet, nil)
			}
			r.check(esc == nil, fmt.Sprintf("%s:error of %s #%d is not swallowed", relName(fn), call.Common().StaticCallee().Name(), k), call.Pos(), fn,
				"the error outcome only leads to error returns", "after this error the function can still return successfully: the invalid value is dropped without a message")
		})
	}
	r.floor("branches on errors of module parsers in options.go", n, 50)
}

// c04r15: results are ranked only when the query has something to rank by; an empty query — also one that is
// evaluated by the matcher because items are excluded — keeps the input order. Pattern.sortable may therefore
// become `true` only where a term that is not negated was seen; it must not start out as true on any branch
// (D51: the --no-extended branch of BuildPattern left `sortable` at its initial true: after `exclude` with an
// empty query the list was re-ordered by length).
func c04r15(c *Ctx, r *Report) {
	l := c.L
	r.rule("C04-R15", "A (every `true` that reaches Pattern.sortable was earned)", "P1",
		"in BuildPattern, every constant true that can flow into the value stored in Pattern.sortable comes from a block that is control dependent on a test of a term's `inv` flag; every other contribution is computed",
		"with --no-extended, an empty query and excluded items the list is sorted by the tiebreak instead of staying in input order")
	bp := l.Fn("fzf", "BuildPattern")
	fS := l.Field("fzf", "Pattern", "sortable")
	if bp == nil || fS == nil {
		r.unest("anchors", token.NoPos, nil, "anchors BuildPattern / Pattern.sortable", "cannot resolve")
		return
	}
	cds := controlConds(bp)
	n := 0
	eachInstr(bp, func(in ssa.Instruction) {
		st, ok := in.(*ssa.Store)
		if !ok {
			return
		}
		if fld, _ := fieldOf(st.Addr); fld != fS {
			return
		}
		seen := map[*ssa.Phi]bool{}
		var walk func(v ssa.Value, from *ssa.BasicBlock)
		walk = func(v ssa.Value, from *ssa.BasicBlock) {
			if phi, ok := v.(*ssa.Phi); ok {
				if seen[phi] {
					return
				}
				seen[phi] = true
				for i, e := range phi.Edges {
					walk(e, phi.Block().Preds[i])
				}
				return
			}
			k, isK := v.(*ssa.Const)
			if !isK || k.Value == nil || k.Value.String() != "true" {
				return
			}
			n++
			earned := false
			for cond := range cds[from] {
				for w := range backwardSlice(cond, nil, nil) {
					if fld, _ := loadedField(w); fld != nil && fld.Name() == "inv" {
						earned = true
					}
					if f2, ok := w.(*ssa.Field); ok {
						if f2.X.Type().Underlying().(*types.Struct).Field(f2.Field).Name() == "inv" {
							earned = true
						}
					}
				}
			}
			pos := bp.Pos()
			if from != nil && len(from.Instrs) > 0 {
				pos = from.Instrs[len(from.Instrs)-1].Pos()
			}
			r.check(earned, fmt.Sprintf("%s:constant true #%d reaching Pattern.sortable follows a non-negated term", relName(bp), n), pos, bp,
				"set under a test of term.inv", "sortable is true on a path that has not seen a term that is not negated (e.g. the empty query of --no-extended)")
		}
		walk(st.Val, st.Block())
	})
	r.floor("constants flowing into Pattern.sortable", n, 1)
}

// c02r13: fzf is released for 32-bit targets (linux/386, linux/arm, windows/386) where `int` has 32 bits. Two
// products in the code reach 2^31 for long lines and must not be computed in `int`: the scratch-size test N*M of
// FuzzyMatchV2 (compared with the slab's capacity) and the scaling MaxUint16*x of the `end` tiebreak key
// (D52/D53: on GOARCH=386 the first wrapped negative, the V1 fallback was skipped and alloc16 sliced the slab
// with negative bounds — a crash for a 2.1 M character line and an 1100 character query; the second inverted
// the order of matches ending beyond column 32768).
func c02r13(c *Ctx, r *Report) {
	l := c.L
	r.rule("C02-R13", "H (no product in platform `int` that can exceed 2^31)", "P1",
		"in packages fzf and algo, no multiplication of type int has a constant factor of 2^15 or more and a run-time factor, and no multiplication of two run-time ints is compared with a cap(..) value",
		"on 32-bit builds: a crash in the matcher for a very long line with a long query; inverted --tiebreak=end order for matches beyond column 32768")
	n, nCap := 0, 0
	for _, fn := range l.AllFuncs() {
		if fn.Blocks == nil || fn.Pkg == nil || (fn.Pkg != l.pkg("fzf") && fn.Pkg != l.pkg("algo")) {
			continue
		}
		k := 0
		eachInstr(fn, func(in ssa.Instruction) {
			b, ok := in.(*ssa.BinOp)
			if !ok {
				return
			}
			isInt := func(v ssa.Value) bool {
				bt, ok := v.Type().Underlying().(*types.Basic)
				return ok && bt.Kind() == types.Int
			}
			switch b.Op {
			case token.MUL:
				if !isInt(b) {
					return
				}
				kx, cx := constIntVal(b.X)
				ky, cy := constIntVal(b.Y)
				if cx && cy {
					return
				}
				if cx && kx >= 1<<15 || cy && ky >= 1<<15 {
					n++
					k++
					r.bad(fmt.Sprintf("%s:product #%d with a large constant is 64-bit", relName(fn), k), b.Pos(), fn, "computed in int64", "a run-time int is multiplied by a constant >= 2^15 in platform int: it wraps on 32-bit targets once the other factor exceeds 2^16")
				}
			case token.GTR, token.LSS, token.GEQ, token.LEQ:
				for _, pr := range [][2]ssa.Value{{b.X, b.Y}, {b.Y, b.X}} {
					cc, ok := pr[1].(*ssa.Call)
					if !ok || calleeName(cc.Common()) != "builtin.cap" {
						continue
					}
					nCap++
					if m, ok := pr[0].(*ssa.BinOp); ok && m.Op == token.MUL && isInt(m) {
						if _, c1 := constIntVal(m.X); !c1 {
							if _, c2 := constIntVal(m.Y); !c2 {
								n++
								k++
								r.bad(fmt.Sprintf("%s:size test #%d does not multiply two lengths", relName(fn), k), m.Pos(), fn, "compared by division", "the product of two run-time lengths is compared with a capacity: on 32-bit targets it wraps and the test passes for sizes that do not fit")
							}
						}
					}
				}
			}
		})
	}
	r.ok("fzf+algo:products in platform int", token.NoPos, nil, fmt.Sprintf("%d capacity comparisons inspected", nCap))
	r.floor("comparisons with a capacity", nCap, 2)
}

// c14r16: fzf cleans up (terminal modes, temporary files, the preview and reload commands, which run in
// process groups of their own) on the signals it catches. A session that loses its terminal gets SIGHUP; it
// has to be among the caught signals, next to SIGINT and SIGTERM (D54: it was not: closing the terminal window
// killed fzf on the spot and left the running preview command behind).
func c14r16(c *Ctx, r *Report) {
	l := c.L
	r.rule("C14-R16", "E (the caught signals cover the ways a session ends)", "P1",
		"the signal.Notify call of Terminal.Loop whose channel feeds the quit request registers SIGINT, SIGTERM and SIGHUP",
		"when the terminal is closed, the preview / reload commands of the session keep running")
	loop := l.Fn("fzf", "(*Terminal).Loop")
	if loop == nil {
		r.unest("anchors", token.NoPos, nil, "anchor Terminal.Loop", "cannot resolve")
		return
	}
	n := 0
	eachInstr(loop, func(in ssa.Instruction) {
		call, ok := in.(*ssa.Call)
		if !ok || calleeName(call.Common()) != "os/signal.Notify" {
			return
		}
		// the signals: elements stored into the variadic array
		sigs := map[int64]bool{}
		for w := range backwardSlice(call.Call.Args[1], nil, nil) {
			al, ok := w.(*ssa.Alloc)
			if !ok || al.Referrers() == nil {
				continue
			}
			for _, ref := range *al.Referrers() {
				ia, ok := ref.(*ssa.IndexAddr)
				if !ok || ia.Referrers() == nil {
					continue
				}
				for _, r2 := range *ia.Referrers() {
					st, ok := r2.(*ssa.Store)
					if !ok {
						continue
					}
					for v := range backwardSlice(st.Val, nil, nil) {
						if k, isK := constIntVal(v); isK {
							sigs[k] = true
						}
						if u, ok := v.(*ssa.UnOp); ok {
							if g, ok := u.X.(*ssa.Global); ok && g.Name() == "Interrupt" {
								sigs[2] = true
							}
						}
					}
				}
			}
		}
		if !sigs[2] && !sigs[15] {
			return // another Notify (e.g. resize)
		}
		n++
		r.check(sigs[2] && sigs[15] && sigs[1], relName(loop)+":SIGINT, SIGTERM and SIGHUP are caught", call.Pos(), loop, "all three registered", "SIGHUP is not registered: a closed terminal kills fzf without its clean-up")
	})
	r.floor("signal registrations for the quit request", n, 1)
}

// c16r15 / c16r16: two framing clauses of the hand-written HTTP endpoint.
func c16r15(c *Ctx, r *Report) {
	l := c.L
	cc := cdCache{}
	_ = cc
	// ---- R15: the answer is written under a deadline
	r.rule("C16-R15", "A (a deadline dominates the blocking write)", "P1",
		"in startHttpServer's accept loop, every Write on the accepted connection is dominated by a SetWriteDeadline or SetDeadline call on that connection",
		"a client that requests a large answer and stops reading blocks the serial accept loop for good: every later request hangs")
	start := l.Fn("fzf", "startHttpServer")
	if start == nil {
		r.unest("anchors", token.NoPos, nil, "anchor startHttpServer", "cannot resolve")
	} else {
		n := 0
		for _, f := range withClosures(start) {
			eachInstr(f, func(in ssa.Instruction) {
				call, ok := in.(*ssa.Call)
				if !ok || !call.Common().IsInvoke() || call.Common().Method.Name() != "Write" {
					return
				}
				if !strings.HasSuffix(call.Common().Value.Type().String(), "net.Conn") {
					return
				}
				n++
				dom := false
				eachInstr(f, func(i2 ssa.Instruction) {
					c2, ok := i2.(*ssa.Call)
					if !ok || !c2.Common().IsInvoke() || c2.Common().Value != call.Common().Value {
						return
					}
					if nm := c2.Common().Method.Name(); (nm == "SetWriteDeadline" || nm == "SetDeadline") && dominates(i2, in) {
						dom = true
					}
				})
				r.check(dom, fmt.Sprintf("%s:answer #%d is written under a deadline", relName(start), n), call.Pos(), f, "SetWriteDeadline / SetDeadline before Write", "the answer is written without a deadline: a client that does not read wedges the endpoint")
			})
		}
		r.floor("writes on accepted connections", n, 1)
	}
	// ---- R16: the request scanner's "final token" shortcut belongs to the body
	r.rule("C16-R16", "A (the shortcut is taken only at EOF or in the body section)", "P1",
		"in the split function handleHttpRequest gives its scanner, the return of bufio.ErrFinalToken is reached only under atEOF or under a test of the section counter",
		"a well-formed request whose header block arrives in two TCP segments is answered 400 / 401")
	h := l.Fn("fzf", "(*httpServer).handleHttpRequest")
	if h == nil {
		r.unest("anchors", token.NoPos, nil, "anchor httpServer.handleHttpRequest", "cannot resolve")
		return
	}
	n := 0
	for _, f := range withClosures(h) {
		if f == h || len(f.Params) != 2 {
			continue
		}
		var atEOF *ssa.Parameter
		for _, p := range f.Params {
			if bt, ok := p.Type().Underlying().(*types.Basic); ok && bt.Kind() == types.Bool {
				atEOF = p
			}
		}
		if atEOF == nil {
			continue
		}
		pc := pathConds(f)
		eachInstr(f, func(in ssa.Instruction) {
			ret, ok := in.(*ssa.Return)
			if !ok || len(ret.Results) != 3 {
				return
			}
			final := false
			for w := range backwardSlice(retResult(ret, 2), nil, nil) {
				if u, ok := w.(*ssa.UnOp); ok {
					if g, ok := u.X.(*ssa.Global); ok && g.Name() == "ErrFinalToken" {
						final = true
					}
				}
			}
			if !final {
				return
			}
			n++
			holds, reach := pc.Implies(in.Block(), func(lits []Lit) bool {
				for _, lt := range lits {
					if lt.Atom == ssa.Value(atEOF) && lt.Val {
						return true
					}
					if b, ok := lt.Atom.(*ssa.BinOp); ok && (b.Op == token.EQL && lt.Val || b.Op == token.NEQ && !lt.Val) {
						// section == <const>, section being a captured int variable of the handler
						if u, ok := b.X.(*ssa.UnOp); ok && u.Op == token.MUL {
							if fv, ok := u.X.(*ssa.FreeVar); ok {
								if bt, ok := deref(fv.Type()).Underlying().(*types.Basic); ok && bt.Kind() == types.Int {
									if _, isK := constIntVal(b.Y); isK {
										return true
									}
								}
							}
						}
					}
				}
				return false
			})
			r.check(holds && reach, fmt.Sprintf("%s:final-token return #%d", relName(h), n), ret.Pos(), f, "at EOF, or while the body is read", "the rest of the buffer is declared the final token also while header lines are being read: a header line split across reads ends the request")
		})
	}
	r.floor("final-token returns of the request scanner", n, 1)
}

// stripLoad returns the address a value was loaded from (or the value itself).
func stripLoad(v ssa.Value) ssa.Value {
	if u, ok := v.(*ssa.UnOp); ok && u.Op == token.MUL {
		return u.X
	}
	return v
}
