package main

import (
	"fmt"
	"go/token"
	"go/types"
	"sort"
	"strings"

	"golang.org/x/tools/go/ssa"
)

// Round 7: rules written for the defects the round-7 agents reported on the unchanged tree (D19..) and for
// the round-7 mutants that arrived undetected.

// algoTextChar returns a predicate "v is (derived from) a character of the line" for a function of package algo.
func algoTextChar(l *Loaded, fn *ssa.Function) func(v ssa.Value) bool {
	get := "(*" + modPath + "/src/util.Chars).Get"
	toRunes := "(*" + modPath + "/src/util.Chars).ToRunes"
	a32 := l.Fn("algo", "alloc32")
	carved := map[ssa.Value]bool{}
	eachInstr(fn, func(in ssa.Instruction) {
		if ex, ok := in.(*ssa.Extract); ok && ex.Index == 1 {
			if call, ok := ex.Tuple.(*ssa.Call); ok && call.Common().StaticCallee() == a32 {
				carved[ex] = true
			}
		}
	})
	return func(v ssa.Value) bool {
		for w := range backwardSlice(v, func(*ssa.CallCommon) bool { return true }, nil) {
			if call, ok := w.(*ssa.Call); ok && (calleeName(call.Common()) == get || calleeName(call.Common()) == toRunes) {
				return true
			}
			if u, ok := w.(*ssa.UnOp); ok && u.Op == token.MUL {
				if ia, ok := u.X.(*ssa.IndexAddr); ok && carved[ia.X] {
					return true
				}
			}
		}
		return false
	}
}

// c02r9: the non-ASCII lower-casing step of every matcher is applied to EVERY character when the match is
// case-insensitive — it may be guarded by caseSensitive and by range tests on the character itself (the
// ASCII fast path), never by a classification derived from the character (D19: FuzzyMatchV2 lower-cased
// only characters of class charUpper, i.e. unicode.IsUpper; title-case letters, Roman numerals and circled
// capitals have a lower-case mapping without being "upper", so V2 missed lines that V1, the scorer and the
// exact family match).
func c02r9(c *Ctx, r *Report) {
	l := c.L
	r.rule("C02-R9", "E (sibling agreement of the folding pipelines)", "P1",
		"in package algo, every unicode.To / unicode.ToLower applied to a character of the line is control-dependent only on caseSensitive, on comparisons of that character with constants, and on conditions that do not depend on the character — never on the result of a call that classifies the character",
		"a case-insensitive fuzzy term does not match a line that the other term kinds (and the other algorithm) match: characters with a lower-case mapping that the classifier does not call upper-case are compared unfolded")
	n := 0
	for _, fn := range l.AllFuncs() {
		if fn.Pkg != l.pkg("algo") || fn.Blocks == nil {
			continue
		}
		isText := algoTextChar(l, fn)
		var sites []*ssa.Call
		eachInstr(fn, func(in ssa.Instruction) {
			call, ok := in.(*ssa.Call)
			if !ok {
				return
			}
			switch calleeName(call.Common()) {
			case "unicode.To", "unicode.ToLower":
				arg := call.Call.Args[len(call.Call.Args)-1]
				if isText(arg) {
					sites = append(sites, call)
				}
			}
		})
		if len(sites) == 0 {
			continue
		}
		pc := pathConds(fn)
		for i, site := range sites {
			n++
			key := fmt.Sprintf("%s:non-ASCII lower-casing step #%d", relName(fn), i+1)
			why := ""
			seen := map[ssa.Value]bool{}
			for _, dj := range pc.At(site.Block()) {
				for _, lt := range dj {
					if seen[lt.Atom] {
						continue
					}
					seen[lt.Atom] = true
					for w := range backwardSlice(lt.Atom, func(*ssa.CallCommon) bool { return true }, nil) {
						call, ok := w.(*ssa.Call)
						if !ok {
							continue
						}
						switch calleeName(call.Common()) {
						case "(*" + modPath + "/src/util.Chars).Get", "(*" + modPath + "/src/util.Chars).ToRunes", "(*" + modPath + "/src/util.Chars).Length":
							continue
						}
						for _, a := range call.Call.Args {
							if isText(a) {
								why = fmt.Sprintf("it runs only under the condition %s (%s), which depends on %s of the character", lt.Atom.Name(), l.pos(lt.Atom.Pos()), calleeName(call.Common()))
							}
						}
					}
				}
			}
			r.check(why == "", key, site.Pos(), fn, "guarded by caseSensitive and range tests of the character only", why)
		}
	}
	r.floor("non-ASCII lower-casing steps applied to characters of the line", n, 8)
}

// c13r10: the item builder (the function stored in ChunkList.trans) keeps state across calls — the
// running item index, the header lines still to divert, the ANSI state of the previous line — so every
// call of it has to be serialised. ChunkList.Push calls it under the list mutex; the streaming filter
// has its own mutex (D20: it took that mutex only after the builder had run, and the built-in walker
// pushes from several goroutines).
func c13r10(c *Ctx, r *Report) {
	l := c.L
	r.rule("C13-R10", "A (lock held at every call site)", "P1",
		"every call of a value of type ItemBuilder (the function stored in ChunkList.trans) is made with a write lock held: ChunkList.mutex in Push, the streaming filter's own mutex in the filter's pusher",
		"two walker goroutines run the item builder at once: items get the same ordinal, --header-lines diverts more or fewer records than asked, the carried ANSI state is torn")
	la := analyseLocks(l, map[string]bool{"Terminal": true})
	n := 0
	for _, fn := range l.AllFuncs() {
		if fn.Blocks == nil || fn.Pkg != l.pkg("fzf") {
			continue
		}
		eachInstr(fn, func(in ssa.Instruction) {
			call, ok := in.(*ssa.Call)
			if !ok || call.Common().IsInvoke() {
				return
			}
			// the builder is recognised by its type: a value of the named type ItemBuilder
			nt, ok := call.Common().Value.Type().(*types.Named)
			if !ok || nt.Obj().Name() != "ItemBuilder" || !isModulePkg(nt.Obj().Pkg()) {
				return
			}
			n++
			held := []string{}
			for k, v := range la.sets[fn][in] {
				if v && !strings.HasSuffix(k, "#R") {
					held = append(held, k)
				}
			}
			sort.Strings(held)
			r.check(len(held) > 0, fmt.Sprintf("%s:call of the ItemBuilder", relName(fn)), call.Pos(), fn,
				"the item builder runs under a lock "+strings.Join(held, ","), "the item builder is called with no lock held: it is not serialised against other pushers")
		})
	}
	r.floor("call sites of the item builder", n, 2)
}

// c06r9: the streaming filter never builds the chunk list, so it cannot honour --tail (the code says so in
// a comment next to the Snapshot(opts.Tail) call of the other branch); the decision to stream therefore
// has to look at opts.Tail (D21: it did not, and `--filter --no-sort --tail N` printed matches from the
// whole input).
func c06r9(c *Ctx, r *Report) {
	l := c.L
	r.rule("C06-R9", "C (the decision consults the option)", "P1",
		"in Run, the pusher that bypasses ChunkList.Push (the streaming filter) is created only under a condition that compares Options.Tail with a constant",
		"--filter with --no-sort ignores --tail: records before the last N remain searchable and are printed")
	run := l.Fn("fzf", "Run")
	push := l.Fn("fzf", "(*ChunkList).Push")
	newReader := l.Fn("fzf", "NewReader")
	if run == nil || push == nil || newReader == nil {
		r.unest("anchors", token.NoPos, nil, "anchors Run / ChunkList.Push / NewReader", "cannot resolve")
		return
	}
	n := 0
	pc := pathConds(run)
	eachInstr(run, func(in ssa.Instruction) {
		call, ok := in.(*ssa.Call)
		if !ok || !callIs(call.Common(), newReader) {
			return
		}
		mc, ok := call.Call.Args[0].(*ssa.MakeClosure)
		if !ok {
			return
		}
		pusher := mc.Fn.(*ssa.Function)
		callsPush := false
		eachInstr(pusher, func(i2 ssa.Instruction) {
			if c2, ok := i2.(*ssa.Call); ok && callIs(c2.Common(), push) {
				callsPush = true
			}
		})
		if callsPush {
			return
		}
		n++
		consults := false
		for _, dj := range pc.At(call.Block()) {
			for _, lt := range dj {
				for w := range backwardSlice(lt.Atom, nil, nil) {
					b, ok := w.(*ssa.BinOp)
					if !ok {
						continue
					}
					for _, side := range []ssa.Value{b.X, b.Y} {
						if f, _ := loadedField(side); f != nil && f.Name() == "Tail" {
							consults = true
						}
					}
				}
			}
		}
		r.check(consults, fmt.Sprintf("%s:pusher bypassing ChunkList.Push is excluded under --tail", relName(run)), call.Pos(), run,
			"the condition under which the streaming pusher is created compares Options.Tail", "the streaming pusher is created without looking at Options.Tail: the streamed records are never trimmed to the last N")
	})
	r.floor("pushers that bypass ChunkList.Push", n, 1)
}

// c03r5: exact, boundary, prefix, suffix and equal terms report an occurrence [Start, End) and must score
// THAT occurrence: the Score of every matching Result they return is the value calculateScore computed
// (the same scorer fuzzy V1 uses), not a closed form (D22: EqualMatch returned (16+bonusBoundaryWhite)*len
// + bonusBoundaryWhite, which is the scorer's value only when the first character gets the whitespace
// boundary bonus and no later bonus is larger — false under --scheme=path, whose initial class is the
// delimiter class, and false for lines starting with a non-word character under any scheme).
func c03r5(c *Ctx, r *Report) {
	l := c.L
	r.rule("C03-R5", "B (provenance of the returned score)", "P1",
		"in package algo, every function of type Algo other than FuzzyMatchV2 returns, on each return whose Start is not the constant -1, a Score that is the first result of a calculateScore call",
		"an equal / prefix / suffix / exact term is ranked with a score that is not the score of the occurrence it reports: under --scheme=path a whole-line match ranks below a prefix match of a longer line")
	calc := l.Fn("algo", "calculateScore")
	if calc == nil {
		r.unest("anchors", token.NoPos, nil, "anchor calculateScore", "cannot resolve")
		return
	}
	n := 0
	for _, fn := range l.AllFuncs() {
		if fn.Pkg != l.pkg("algo") || fn.Blocks == nil || fn.Parent() != nil {
			continue
		}
		sig := fn.Signature
		if sig.Results().Len() != 2 {
			continue
		}
		rt, ok := sig.Results().At(0).Type().(*types.Named)
		if !ok || rt.Obj().Name() != "Result" {
			continue
		}
		if fn.Name() == "FuzzyMatchV2" {
			continue // the dynamic programme; its score is the subject of C03-R1/R2 and C05-R9/R10
		}
		k := 0
		eachInstr(fn, func(in ssa.Instruction) {
			ret, ok := in.(*ssa.Return)
			if !ok {
				return
			}
			start, end, score := resultFields(ret.Results[0])
			if start == nil || score == nil || end == nil {
				// a call result forwarded as is (ExactMatchNaive -> exactMatchNaive): the callee is checked
				if call, ok := ret.Results[0].(*ssa.Extract); ok {
					if cc, ok := call.Tuple.(*ssa.Call); ok && cc.Common().StaticCallee() != nil && cc.Common().StaticCallee().Pkg == fn.Pkg {
						return
					}
				}
				k++
				n++
				r.unest(fmt.Sprintf("%s:return #%d", relName(fn), k), ret.Pos(), fn, "the returned Result is a literal whose fields can be read", "cannot resolve the fields of the returned Result")
				return
			}
			if isConstInt(start, -1) {
				return
			}
			if a, ok1 := constIntVal(start); isConstInt(score, 0) && (start == end || ok1 && isConstInt(end, a)) {
				return // the empty pattern: an empty occurrence scores 0
			}
			k++
			n++
			isScorer := func(v ssa.Value) bool {
				if ex, ok := v.(*ssa.Extract); ok && ex.Index == 0 {
					if cc, ok := ex.Tuple.(*ssa.Call); ok && callIs(cc.Common(), calc) {
						return true
					}
				}
				return false
			}
			// the value itself must be the scorer's result, not an expression over it; where the function
			// also serves boundary terms ('foo'), which have a ranking of their own, the edges computed
			// under boundaryCheck are not in the property's list of term kinds and are left alone
			var bc ssa.Value
			for _, p := range fn.Params {
				if p.Name() == "boundaryCheck" {
					bc = p
				}
			}
			fromScorer := isScorer(score)
			if phi, ok := score.(*ssa.Phi); ok {
				fromScorer = true
				pc := pathConds(fn)
				nScorer := 0
				for i, e := range phi.Edges {
					if isScorer(e) {
						nScorer++
						continue
					}
					holds, _ := pc.Implies(phi.Block().Preds[i], func(lits []Lit) bool {
						return hasLit(lits, func(a ssa.Value, v bool) bool { return bc != nil && a == bc && v })
					})
					if !holds {
						fromScorer = false
					}
				}
				if nScorer == 0 {
					fromScorer = false
				}
			}
			r.check(fromScorer, fmt.Sprintf("%s:matching return #%d", relName(fn), k), ret.Pos(), fn,
				"Score is the result of calculateScore over the reported range", "Score is not the value calculateScore computed: a closed form that agrees with the scorer only for some bonus configurations")
		})
	}
	r.floor("matching returns of the non-DP matchers", n, 5)
}

// resultFields resolves the Start (field 0) and Score (field 2) operands of a Result value built by a
// composite literal: a load of a local whose fields are stored once each.
func resultFields(v ssa.Value) (start, end, score ssa.Value) {
	u, ok := v.(*ssa.UnOp)
	if !ok || u.Op != token.MUL {
		return nil, nil, nil
	}
	al, ok := u.X.(*ssa.Alloc)
	if !ok || al.Referrers() == nil {
		return nil, nil, nil
	}
	for _, ref := range *al.Referrers() {
		fa, ok := ref.(*ssa.FieldAddr)
		if !ok || fa.Referrers() == nil {
			continue
		}
		for _, r2 := range *fa.Referrers() {
			if st, ok := r2.(*ssa.Store); ok && st.Addr == ssa.Value(fa) {
				switch fa.Field {
				case 0:
					start = st.Val
				case 1:
					end = st.Val
				case 2:
					score = st.Val
				}
			}
		}
	}
	return
}

// c03r6: Init(scheme) configures the scorer by assigning package-level inputs. A scheme is a complete
// configuration only if every input that SOME scheme assigns is assigned by EVERY successful path through
// Init; otherwise what a scheme means depends on which scheme was initialised before it (D23: "path" set
// delimiterChars and initialCharClass, "default" and "history" left them alone, so default -> path ->
// default scored ',' as an ordinary character and the first character of a line with the delimiter bonus).
func c03r6(c *Ctx, r *Report) {
	l := c.L
	r.rule("C03-R6", "A (must-pass-through: complete configuration)", "P1",
		"in algo.Init, every package-level variable of package algo that is stored on some path is stored on every path from the entry to a return of true",
		"the score of a (line, term) pair under a scheme depends on the scheme initialised before it: a second Init in one process (library use, tests, a re-launched Run) inherits the delimiter set and the initial character class of the previous scheme")
	init := l.Fn("algo", "Init")
	if init == nil {
		r.unest("anchors", token.NoPos, nil, "anchor algo.Init", "cannot resolve")
		return
	}
	stores := map[*ssa.Global]bool{}
	eachInstr(init, func(in ssa.Instruction) {
		if st, ok := in.(*ssa.Store); ok {
			if g, ok := st.Addr.(*ssa.Global); ok && g.Pkg == l.pkg("algo") {
				stores[g] = true
			}
		}
	})
	var gs []*ssa.Global
	for g := range stores {
		gs = append(gs, g)
	}
	sort.Slice(gs, func(i, j int) bool { return gs[i].Name() < gs[j].Name() })
	isOK := func(in ssa.Instruction) bool {
		ret, ok := in.(*ssa.Return)
		if !ok || len(ret.Results) != 1 {
			return false
		}
		if k, ok := ret.Results[0].(*ssa.Const); ok && k.Value != nil && k.Value.String() == "false" {
			return false
		}
		return true
	}
	entry := init.Blocks[0].Instrs[0]
	for _, g := range gs {
		g := g
		isStore := func(in ssa.Instruction) bool {
			st, ok := in.(*ssa.Store)
			return ok && st.Addr == ssa.Value(g)
		}
		var esc ssa.Instruction
		if isStore(entry) {
			esc = nil
		} else {
			esc = pathAvoiding(entry, isOK, isStore, nil)
		}
		where := ""
		if esc != nil {
			where = l.pos(esc.Pos())
		}
		r.check(esc == nil, fmt.Sprintf("%s:%s assigned on every successful path", relName(init), g.Name()), init.Pos(), init,
			"every path to a successful return stores it", fmt.Sprintf("a path reaches the successful return at %s without assigning %s: that scheme inherits the value of the scheme initialised before", where, g.Name()))
	}
	r.floor("scoring inputs assigned by Init", len(gs), 4)
}

// eqConstLits collects, for a block, the constants K such that every disjunct of the block's path
// condition contains a positive literal `x == K` (x any value, K an integer constant). ok is false when
// some disjunct has no such literal.
func eqConstLits(pc *PathConds, b *ssa.BasicBlock) (ks map[int64]bool, ok bool) {
	ks = map[int64]bool{}
	ds := pc.At(b)
	if len(ds) == 0 {
		return ks, false
	}
	for _, dj := range ds {
		found := false
		for _, lt := range dj {
			bo, isBin := lt.Atom.(*ssa.BinOp)
			if !isBin {
				continue
			}
			if !(bo.Op == token.EQL && lt.Val || bo.Op == token.NEQ && !lt.Val) {
				continue
			}
			for _, side := range []ssa.Value{bo.X, bo.Y} {
				if k, isK := constIntVal(side); isK {
					ks[k] = true
					found = true
				}
			}
		}
		if !found {
			return ks, false
		}
	}
	return ks, true
}

// c18r8: a request that makes the render goroutine leave the session (it calls the exit closure and
// returns) must also stop the event loop, in the very call of `req` that posts it. Otherwise the loop keeps
// consuming keys until the render goroutine gets round to exit(), and whatever those keys do to the query is
// what gets printed and stored in the history (D24: req cleared `looping` for reqClose and reqQuit only;
// after print-query / accept-or-print-query typed-ahead characters were appended to the query that was
// printed and written to the history file).
func c18r8(c *Ctx, r *Report) {
	l := c.L
	r.rule("C18-R8", "E (agreement of two case lists over one enumeration)", "P1",
		"in Terminal.Loop, every request type under which the render goroutine calls exit(...) is a request type for which the req closure clears `looping`",
		"keys that arrive right after the submitting key (type-ahead, paste) still edit the query: print-query prints, and the history stores, a query that was never submitted")
	loop := l.Fn("fzf", "(*Terminal).Loop")
	if loop == nil {
		r.unest("anchors", token.NoPos, nil, "anchor Terminal.Loop", "cannot resolve")
		return
	}
	reqName := func(k int64) string {
		sc := l.pkg("fzf").Pkg.Scope()
		for _, nm := range sc.Names() {
			if !strings.HasPrefix(nm, "req") {
				continue
			}
			if cst, ok := sc.Lookup(nm).(*types.Const); ok {
				if v, ok := constInt(cst); ok && v == k {
					return nm
				}
			}
		}
		return fmt.Sprintf("request %d", k)
	}
	namedVar := func(v ssa.Value, name string) bool {
		if u, ok := v.(*ssa.UnOp); ok && u.Op == token.MUL {
			v = u.X
		}
		switch x := v.(type) {
		case *ssa.FreeVar:
			return x.Name() == name
		case *ssa.Alloc:
			return x.Comment == name
		}
		return false
	}
	exits := map[int64]token.Pos{}
	var stops map[int64]bool
	nStop := 0
	for _, fn := range withClosures(loop) {
		var pc *PathConds
		eachInstr(fn, func(in ssa.Instruction) {
			switch x := in.(type) {
			case *ssa.Call:
				if x.Common().IsInvoke() || !namedVar(x.Common().Value, "exit") {
					return
				}
				if pc == nil {
					pc = pathConds(fn)
				}
				ks, ok := eqConstLits(pc, x.Block())
				if !ok {
					r.unest(fmt.Sprintf("%s:exit call at a request case", relName(fn)), x.Pos(), fn, "the exit call sits under a case of the request switch", "cannot relate this exit call to a request type")
					return
				}
				for k := range ks {
					exits[k] = x.Pos()
				}
			case *ssa.Store:
				if !namedVar(x.Addr, "looping") {
					return
				}
				if k, ok := x.Val.(*ssa.Const); !ok || k.Value == nil || k.Value.String() != "false" {
					return
				}
				if pc == nil {
					pc = pathConds(fn)
				}
				ks, ok := eqConstLits(pc, x.Block())
				if !ok {
					return // an unconditional stop elsewhere in the loop (e.g. on a fatal read error)
				}
				nStop++
				if stops == nil {
					stops = map[int64]bool{}
				}
				for k := range ks {
					stops[k] = true
				}
			}
		})
	}
	var ks []int64
	for k := range exits {
		ks = append(ks, k)
	}
	sort.Slice(ks, func(i, j int) bool { return ks[i] < ks[j] })
	for _, k := range ks {
		r.check(stops[k], fmt.Sprintf("%s:%s ends the session and stops the event loop", relName(loop), reqName(k)), exits[k], loop,
			"req clears `looping` for this request", "the render goroutine exits on this request but req does not clear `looping` for it: the event loop keeps applying keys to the query until exit() runs")
	}
	r.floor("request types that end the session", len(ks), 5)
	r.floor("conditional stores of looping=false keyed by a request type", nStop, 1)
}

// c14r10: an integer division or remainder whose divisor is a DIFFERENCE a - b of two run-time quantities
// panics when the two are equal. The code has two such divisors; each must be excluded from being zero by a
// comparison of a with b (or of the difference with a constant) on every path to the division (D25:
// scrollPreviewTo computed x % (numLines - headerLines) behind `scrollable` only, which is also true for a
// wrapped line that runs past the window: --preview-window cycle,wrap,~1 and a one-line preview divide by
// zero on the first preview scroll, and the panic leaves the terminal raw).
func c14r10(c *Ctx, r *Report) {
	l := c.L
	r.rule("C14-R10", "A (guard dominates the partial operation)", "P1",
		"in packages fzf, tui and util, every integer `/` or `%` whose divisor is a subtraction with a non-constant operand is reached only on paths whose condition compares the two operands (or the difference) so that equality is excluded",
		"integer divide by zero: fzf panics in the event loop and the terminal is left in raw mode on the alternate screen with mouse reporting on")
	n := 0
	for _, fn := range l.AllFuncs() {
		if fn.Blocks == nil || fn.Pkg == nil || !isModulePkg(fn.Pkg.Pkg) {
			continue
		}
		var pc *PathConds
		k := 0
		eachInstr(fn, func(in ssa.Instruction) {
			bo, ok := in.(*ssa.BinOp)
			if !ok || (bo.Op != token.QUO && bo.Op != token.REM) {
				return
			}
			if bt, ok := bo.Type().Underlying().(*types.Basic); !ok || bt.Info()&types.IsInteger == 0 {
				return
			}
			d, ok := bo.Y.(*ssa.BinOp)
			if !ok || d.Op != token.SUB {
				return
			}
			if _, isK := d.X.(*ssa.Const); isK {
				if _, isK2 := d.Y.(*ssa.Const); isK2 {
					return
				}
			}
			n++
			k++
			if pc == nil {
				pc = pathConds(fn)
			}
			excl := func(op token.Token, val bool, swapped bool) bool {
				// literal (p op q) == val with (p,q) = (a,b), or (b,a) when swapped: does it exclude a == b?
				switch op {
				case token.LSS, token.GTR:
					return val
				case token.LEQ, token.GEQ:
					return !val
				case token.NEQ:
					return val
				case token.EQL:
					return !val
				}
				return false
			}
			exclConst := func(op token.Token, val bool, kk int64) bool {
				// literal (D op kk) == val: does it exclude D == 0?
				holds0 := false
				switch op {
				case token.LSS:
					holds0 = 0 < kk
				case token.LEQ:
					holds0 = 0 <= kk
				case token.GTR:
					holds0 = 0 > kk
				case token.GEQ:
					holds0 = 0 >= kk
				case token.EQL:
					holds0 = kk == 0
				case token.NEQ:
					holds0 = kk != 0
				default:
					return false
				}
				return holds0 != val
			}
			guarded, reach := pc.Implies(bo.Block(), func(lits []Lit) bool {
				for _, lt := range lits {
					cmp, ok := lt.Atom.(*ssa.BinOp)
					if !ok {
						continue
					}
					if sameExpr(cmp.X, d.X, 0) && sameExpr(cmp.Y, d.Y, 0) && excl(cmp.Op, lt.Val, false) {
						return true
					}
					if sameExpr(cmp.X, d.Y, 0) && sameExpr(cmp.Y, d.X, 0) && excl(cmp.Op, lt.Val, true) {
						return true
					}
					if kk, isK := constIntVal(cmp.Y); isK && sameExpr(cmp.X, d, 0) && exclConst(cmp.Op, lt.Val, kk) {
						return true
					}
				}
				return false
			})
			if !reach {
				guarded = true
			}
			r.check(guarded, fmt.Sprintf("%s:divisor-difference #%d is not zero", relName(fn), k), bo.Pos(), fn,
				"a comparison on every path excludes a zero divisor", fmt.Sprintf("the divisor %s - %s can be zero here: no comparison of the two operands on the way to this %s", d.X.Name(), d.Y.Name(), bo.Op))
		})
	}
	r.floor("divisions by a difference", n, 2)
}

// c09r9: util.Constrain(v, lo, hi) returns hi when hi < lo. Where the list cursor is clamped to the result
// list the upper bound is Length()-1, which is -1 for an empty list; the clamp in constrain() wraps it in
// util.Max(0, ·), its sibling in vset did not (D26: any navigation action on an empty result list left
// cy == -1, currentItem() then reports no current line even after the list has filled again, and accept
// prints nothing and exits 1 until the renderer happens to repair the cursor).
func c09r9(c *Ctx, r *Report) {
	l := c.L
	r.rule("C09-R9", "E (sibling agreement of the two clamps)", "P1",
		"every util.Constrain result stored into Terminal.cy has the constant 0 as its lower bound and an upper bound that cannot be below it: a util.Max with a constant 0 operand, or a non-negative constant",
		"the list cursor becomes -1 on an empty list and stays there when results arrive: no current line, accept prints nothing and exits 1")
	fCy := l.Field("fzf", "Terminal", "cy")
	if fCy == nil {
		r.unest("anchors", token.NoPos, nil, "anchor Terminal.cy", "cannot resolve")
		return
	}
	n := 0
	for _, fn := range l.AllFuncs() {
		if fn.Blocks == nil || fn.Pkg != l.pkg("fzf") {
			continue
		}
		k := 0
		eachInstr(fn, func(in ssa.Instruction) {
			st, ok := in.(*ssa.Store)
			if !ok {
				return
			}
			if fld, _ := fieldOf(st.Addr); fld != fCy {
				return
			}
			call, ok := st.Val.(*ssa.Call)
			if !ok || calleeName(call.Common()) != modPath+"/src/util.Constrain" {
				return
			}
			n++
			k++
			lo, hi := call.Call.Args[1], call.Call.Args[2]
			okHi := false
			if kk, isK := constIntVal(hi); isK && kk >= 0 {
				okHi = true
			}
			if mc, isCall := hi.(*ssa.Call); isCall && calleeName(mc.Common()) == modPath+"/src/util.Max" {
				for _, a := range mc.Call.Args {
					if isConstInt(a, 0) {
						okHi = true
					}
				}
			}
			why := ""
			switch {
			case !isConstInt(lo, 0):
				why = "the lower bound is not the constant 0"
			case !okHi:
				why = "the upper bound can be -1 (empty list) and Constrain returns the upper bound when it is below the lower one"
			}
			r.check(why == "", fmt.Sprintf("%s:clamp of the list cursor #%d", relName(fn), k), st.Pos(), fn, "clamped to [0, max(0, n-1)]", why)
		})
	}
	r.floor("clamps stored into Terminal.cy", n, 2)
}

type natLoop struct {
	hdr  *ssa.BasicBlock
	body map[*ssa.BasicBlock]bool
}

// natLoops returns the natural loops of fn: header h with a back edge p->h (h dominates p); the body is
// the set of blocks that reach p without passing h.
func natLoops(fn *ssa.Function) []natLoop {
	var loops []natLoop
	for _, h := range fn.Blocks {
		body := map[*ssa.BasicBlock]bool{}
		for _, p := range h.Preds {
			if !h.Dominates(p) {
				continue
			}
			work := []*ssa.BasicBlock{p}
			body[h] = true
			for len(work) > 0 {
				x := work[len(work)-1]
				work = work[:len(work)-1]
				if body[x] {
					continue
				}
				body[x] = true
				work = append(work, x.Preds...)
			}
		}
		if len(body) > 0 {
			loops = append(loops, natLoop{h, body})
		}
	}
	return loops
}

// c17r13: option parsers that loop over the tokens of an argument produce an error per token. An error
// produced in one iteration must be examined (tested against nil, or returned) before the next iteration can
// replace it; carrying it in a variable that the next token simply overwrites forgets it (D27:
// parseLabelPosition assigned `opts.column, err = atoi(token)` for every token and returned the last err, so
// --border-label-pos=foo:3 was accepted).
func c17r13(c *Ctx, r *Report) {
	l := c.L
	r.rule("C17-R13", "A (error discipline across loop iterations)", "P1",
		"in the option-parsing functions (package fzf, options.go), an error value produced by a call inside a loop is either not carried into the next iteration, or every path from the call to the loop header passes a test of that error (or of a variable holding it) or a return",
		"an invalid token followed by a valid one is accepted silently: the argument is neither accepted as documented nor rejected")
	n, carriedN := 0, 0
	for _, fn := range l.AllFuncs() {
		if fn.Blocks == nil || fn.Pkg != l.pkg("fzf") {
			continue
		}
		if !strings.HasSuffix(l.Fset.Position(fn.Pos()).Filename, "options.go") {
			continue
		}
		loops := natLoops(fn)
		if len(loops) == 0 {
			continue
		}
		k := 0
		eachInstr(fn, func(in ssa.Instruction) {
			var e ssa.Value
			at := in.Pos()
			switch x := in.(type) {
			case *ssa.Extract:
				if cl, ok := x.Tuple.(*ssa.Call); ok && isErrorType(x.Type()) {
					e = x
					at = cl.Pos()
				}
			case *ssa.Call:
				if isErrorType(x.Type()) {
					e = x
				}
			}
			if e == nil {
				return
			}
			// innermost loop containing the definition
			var lp *natLoop
			for i := range loops {
				if loops[i].body[in.Block()] && (lp == nil || len(loops[i].body) < len(lp.body)) {
					lp = &loops[i]
				}
			}
			if lp == nil {
				return
			}
			n++
			k++
			// the web of values that hold e: e and the phis it flows into
			web := map[ssa.Value]bool{}
			var grow func(v ssa.Value)
			grow = func(v ssa.Value) {
				if web[v] {
					return
				}
				web[v] = true
				if v.Referrers() == nil {
					return
				}
				for _, ref := range *v.Referrers() {
					if p, ok := ref.(*ssa.Phi); ok {
						grow(p)
					}
				}
			}
			grow(e)
			carried := false
			for v := range web {
				if p, ok := v.(*ssa.Phi); ok && p.Block() == lp.hdr {
					carried = true
				}
			}
			key := fmt.Sprintf("%s:error of call #%d in a loop", relName(fn), k)
			if !carried {
				r.ok(key, at, fn, "not carried into the next iteration")
				return
			}
			carriedN++
			tests := func(i2 ssa.Instruction) bool {
				switch y := i2.(type) {
				case *ssa.Return:
					return true
				case *ssa.If:
					for w := range backwardSlice(y.Cond, nil, nil) {
						if web[w] {
							return true
						}
					}
				}
				return false
			}
			isHdr := func(i2 ssa.Instruction) bool {
				return i2.Block() == lp.hdr && i2 == lp.hdr.Instrs[0]
			}
			esc := pathAvoiding(in, isHdr, tests, func(from, to *ssa.BasicBlock) bool { return lp.body[to] })
			r.check(esc == nil, key, at, fn, "carried into the next iteration only after it was tested",
				"the error is carried to the next iteration of the loop without having been tested: the next token's result overwrites it")
		})
	}
	r.floor("error values produced inside loops of option parsers", n, 100)
	r.info("carried", token.NoPos, nil, fmt.Sprintf("%d of them are carried across iterations", carriedN))
}

// c17r14: option parsing edits the theme in place (--style sets Theme.Gutter, --color edits single
// entries). Options.Theme therefore has to be a private copy: storing one of the shared package-level
// themes of package tui makes those edits permanent for the process, and a later option that selects the same
// base theme no longer resets it (D28: --no-256 stored tui.Default16 itself, so
// `--no-256 --style=minimal --no-256` kept the gutter of --style=minimal).
func c17r14(c *Ctx, r *Report) {
	l := c.L
	r.rule("C17-R14", "F (alias of shared storage)", "P1",
		"every value stored into Options.Theme is the result of a call (a constructor or dupeTheme), never the load of a package-level variable",
		"a later occurrence of an option does not override an earlier one: the base theme it selects still carries the edits made through the alias")
	fTheme := l.Field("fzf", "Options", "Theme")
	if fTheme == nil {
		r.unest("anchors", token.NoPos, nil, "anchor Options.Theme", "cannot resolve")
		return
	}
	n := 0
	for _, fn := range l.AllFuncs() {
		if fn.Blocks == nil || fn.Pkg != l.pkg("fzf") {
			continue
		}
		k := 0
		eachInstr(fn, func(in ssa.Instruction) {
			st, ok := in.(*ssa.Store)
			if !ok {
				return
			}
			if fld, _ := fieldOf(st.Addr); fld != fTheme {
				return
			}
			n++
			k++
			shared := ""
			for w := range backwardSlice(st.Val, nil, nil) {
				if u, ok := w.(*ssa.UnOp); ok && u.Op == token.MUL {
					if g, ok := u.X.(*ssa.Global); ok {
						shared = g.Name()
					}
				}
			}
			r.check(shared == "", fmt.Sprintf("%s:store #%d into Options.Theme", relName(fn), k), st.Pos(), fn, "a private copy is stored",
				fmt.Sprintf("the shared package-level theme %s itself is stored: later in-place edits (--style, --color) modify it for the rest of the process", shared))
		})
	}
	r.floor("stores into Options.Theme", n, 4)
}

// c07r7: with --tmux (and the Windows/mintty proxy) fzf runs itself in a popup and relays the child's output
// from a FIFO in a goroutine. The relay must be joined before runProxy returns: main exits as soon as it
// gets the exit code, and whatever the goroutine has not copied yet is lost (D29: nothing
// waited for the goroutine; with a consumer slower than the producer the last ~64 KB of a large
// multi-selection are dropped and the exit status is still 0).
func c07r7(c *Ctx, r *Report) {
	l := c.L
	r.rule("C07-R7", "A (must-pass-through: join before return)", "P1",
		"in runProxy, for the goroutine that relays the popup's output (its closure calls withOutputPipe), every path from the call of cmd.Run to the return of ExitOk passes a join on that goroutine: a receive from a channel bound to the closure, or Wait on a WaitGroup bound to it",
		"under --tmux the tail of the output (the last selected records) is lost and the last printed record may be cut in the middle, with exit status 0")
	rp := l.Fn("fzf", "runProxy")
	wop := l.Fn("fzf", "withOutputPipe")
	if rp == nil || wop == nil {
		r.unest("anchors", token.NoPos, nil, "anchors runProxy / withOutputPipe", "cannot resolve")
		return
	}
	var relay *ssa.Go
	eachInstr(rp, func(in ssa.Instruction) {
		g, ok := in.(*ssa.Go)
		if !ok {
			return
		}
		mc, ok := g.Call.Value.(*ssa.MakeClosure)
		if !ok {
			return
		}
		for _, f := range withClosures(mc.Fn.(*ssa.Function)) {
			eachInstr(f, func(i2 ssa.Instruction) {
				if c2, ok := i2.(*ssa.Call); ok && callIs(c2.Common(), wop) {
					relay = g
				}
			})
		}
	})
	var run ssa.Instruction
	eachInstr(rp, func(in ssa.Instruction) {
		if c2, ok := in.(*ssa.Call); ok && calleeName(c2.Common()) == "(*os/exec.Cmd).Run" {
			run = in
		}
	})
	if relay == nil || run == nil {
		r.unest("anchors", token.NoPos, rp, "the relay goroutine and the cmd.Run call in runProxy", "cannot find them")
		return
	}
	bound := map[ssa.Value]bool{}
	for _, b := range relay.Call.Value.(*ssa.MakeClosure).Bindings {
		bound[b] = true
	}
	isJoin := func(in ssa.Instruction) bool {
		switch x := in.(type) {
		case *ssa.UnOp:
			if x.Op != token.ARROW {
				return false
			}
			for w := range backwardSlice(x.X, nil, nil) {
				if bound[w] {
					return true
				}
			}
		case *ssa.Call:
			if calleeName(x.Common()) == "(*sync.WaitGroup).Wait" {
				for w := range backwardSlice(x.Call.Args[0], nil, nil) {
					if bound[w] {
						return true
					}
				}
			}
		}
		return false
	}
	// the successful return: the exit code is the constant ExitOk. (After a failed command the FIFO may
	// never have been opened by a writer, and waiting for the relay would block for ever.)
	isRet := func(in ssa.Instruction) bool {
		ret, ok := in.(*ssa.Return)
		return ok && len(ret.Results) == 2 && isConstInt(retResult(ret, 0), 0)
	}
	nOK := 0
	eachInstr(rp, func(in ssa.Instruction) {
		if isRet(in) {
			nOK++
		}
	})
	r.floor("returns of ExitOk in runProxy", nOK, 1)
	esc := pathAvoiding(run, isRet, isJoin, nil)
	where := ""
	if esc != nil {
		where = l.pos(esc.Pos())
	}
	r.check(esc == nil, fmt.Sprintf("%s:output relay goroutine is joined", relName(rp)), relay.Pos(), rp,
		"the successful return after cmd.Run waits for the relay", fmt.Sprintf("the return at %s is reached after cmd.Run without waiting for the goroutine that copies the popup's output: the process exits with output still in the FIFO", where))
}

// c08r15: the terminal posts one searchRequest per loop iteration into the coordinator's mailbox slot
// EvtSearchNew. The slot holds one value, and three fields of the request are increments that exist only in
// the iteration that produced them (denylist: the items excluded in this iteration; command: the reload
// asked for; nth: the new field selection) plus the `changed` flag. Overwriting a request the coordinator has
// not taken yet loses them for good (D30: EventBox.Set overwrote; while input is loading the coordinator
// sleeps up to 100 ms per round, so an exclude, a reload or a change-nth followed within that time by any
// other request never took effect). The post therefore has to be a read-modify-write of the slot that folds
// the pending request's increments into the new one.
func c08r15(c *Ctx, r *Report) {
	l := c.L
	r.rule("C08-R15", "D (read-modify-write of the mailbox slot) + E (field census)", "P1",
		"no searchRequest is handed to the overwriting EventBox.Set; every post goes through EventBox.Update with a callback whose result depends on the pending value it is given; and the function that folds a pending request into a new one reads the pending request's changed, nth, command and denylist fields",
		"request coalescing is observable: an excluded item stays listed, a reload never happens, a change-nth is ignored, when another request follows before the coordinator wakes up")
	set := l.Fn("util", "(*EventBox).Set")
	upd := l.Fn("util", "(*EventBox).Update")
	if set == nil {
		r.unest("anchors", token.NoPos, nil, "anchor EventBox.Set", "cannot resolve")
		return
	}
	isReq := func(v ssa.Value) bool {
		mi, ok := v.(*ssa.MakeInterface)
		if !ok {
			return false
		}
		n, ok := mi.X.Type().(*types.Named)
		return ok && n.Obj().Name() == "searchRequest"
	}
	nPost := 0
	var fold *ssa.Function
	foldArg := 0
	foldWanted := false
	for _, fn := range l.AllFuncs() {
		if fn.Blocks == nil || fn.Pkg == nil || !isModulePkg(fn.Pkg.Pkg) {
			continue
		}
		eachInstr(fn, func(in ssa.Instruction) {
			call, ok := in.(*ssa.Call)
			if !ok {
				return
			}
			switch {
			case callIs(call.Common(), set) && len(call.Call.Args) == 3 && isReq(call.Call.Args[2]):
				nPost++
				r.bad(fmt.Sprintf("%s:post of a searchRequest", relName(rootFn(fn))), call.Pos(), fn, "posted through the merging primitive",
					"a searchRequest is posted with EventBox.Set, which overwrites a request the coordinator has not taken yet: its denylist / reload command / nth are lost")
			case upd != nil && callIs(call.Common(), upd) && len(call.Call.Args) == 3:
				mc, ok := call.Call.Args[2].(*ssa.MakeClosure)
				if !ok {
					return
				}
				cb := mc.Fn.(*ssa.Function)
				posts := false
				uses := false
				eachInstr(cb, func(i2 ssa.Instruction) {
					ret, ok := i2.(*ssa.Return)
					if !ok || len(ret.Results) != 1 {
						return
					}
					rv := retResult(ret, 0)
					if isReq(rv) {
						posts = true
					}
					for w := range backwardSlice(rv, func(*ssa.CallCommon) bool { return true }, nil) {
						if w == ssa.Value(cb.Params[0]) {
							uses = true
						}
					}
				})
				if !posts {
					return
				}
				nPost++
				foldWanted = true
				eachInstr(cb, func(i2 ssa.Instruction) {
					c2, ok := i2.(*ssa.Call)
					if !ok || c2.Common().StaticCallee() == nil || c2.Common().StaticCallee().Pkg == nil || !isModulePkg(c2.Common().StaticCallee().Pkg.Pkg) {
						return
					}
					for ai, a := range c2.Call.Args {
						n, isN := a.Type().(*types.Named)
						if !isN || n.Obj().Name() != "searchRequest" {
							continue
						}
						for w := range backwardSlice(a, nil, nil) {
							if w == ssa.Value(cb.Params[0]) {
								fold, foldArg = c2.Common().StaticCallee(), ai
							}
						}
					}
				})
				r.check(uses, fmt.Sprintf("%s:post of a searchRequest", relName(rootFn(fn))), call.Pos(), fn, "the posted value is computed from the pending one",
					"the callback ignores the pending request: it is overwritten as with Set")
			}
		})
	}
	r.floor("posts of a searchRequest", nPost, 1)
	// the fold reads every increment of the pending request; the fold is the module function the callback
	// hands the pending request to
	if fold == nil {
		if nPost > 0 && foldWanted {
			r.unest("fold", token.NoPos, nil, "the function that folds a pending searchRequest into a new one", "the callback does not pass the pending request to a function of the module")
		}
		return
	}
	merge := fold
	read := map[string]bool{}
	pending := merge.Params[foldArg]
	eachInstr(merge, func(in ssa.Instruction) {
		switch x := in.(type) {
		case *ssa.Field:
			if x.X == ssa.Value(pending) {
				read[x.X.Type().Underlying().(*types.Struct).Field(x.Field).Name()] = true
			}
		case *ssa.FieldAddr:
			// the parameter spilled to a local
			if al, ok := x.X.(*ssa.Alloc); ok && al.Comment == pending.Name() {
				read[deref(x.X.Type()).Underlying().(*types.Struct).Field(x.Field).Name()] = true
			}
		}
	})
	for _, f := range []string{"changed", "nth", "command", "denylist"} {
		r.check(read[f], fmt.Sprintf("%s:pending.%s is folded in", relName(merge), f), merge.Pos(), merge, "the pending request's "+f+" is read", "the pending request's "+f+" is dropped when a newer request replaces it")
	}
}

// builderCells returns the variables of Run that the item-builder closures (the functions handed to
// NewChunkList, and the closures they call) store into: the state the builders keep from one record to the next.
func builderCells(l *Loaded) (run *ssa.Function, cells map[*ssa.Alloc][]*ssa.Store, builders []*ssa.Function) {
	run = l.Fn("fzf", "Run")
	ncl := l.Fn("fzf", "NewChunkList")
	cells = map[*ssa.Alloc][]*ssa.Store{}
	if run == nil || ncl == nil {
		return
	}
	seen := map[*ssa.Function]bool{}
	var add func(f *ssa.Function)
	add = func(f *ssa.Function) {
		if f == nil || seen[f] || rootFn(f) != run {
			return
		}
		seen[f] = true
		builders = append(builders, f)
		eachInstr(f, func(in ssa.Instruction) {
			call, ok := in.(*ssa.Call)
			if !ok {
				return
			}
			// closures of Run called through a captured variable (ansiProcessor)
			v := call.Common().Value
			if u, ok := v.(*ssa.UnOp); ok && u.Op == token.MUL {
				if fv, ok := u.X.(*ssa.FreeVar); ok {
					if al := freeVarAlloc(f, fv); al != nil {
						for _, st := range storesToAlloc(al) {
							if mc, ok := st.Val.(*ssa.MakeClosure); ok {
								add(mc.Fn.(*ssa.Function))
							}
						}
					}
				}
			}
		})
	}
	eachInstr(run, func(in ssa.Instruction) {
		if call, ok := in.(*ssa.Call); ok && callIs(call.Common(), ncl) {
			a := call.Call.Args[1]
			if ct, ok := a.(*ssa.ChangeType); ok {
				a = ct.X // the literal converted to the named type ItemBuilder
			}
			if mc, ok := a.(*ssa.MakeClosure); ok {
				add(mc.Fn.(*ssa.Function))
			}
		}
	})
	for _, f := range builders {
		eachInstr(f, func(in ssa.Instruction) {
			st, ok := in.(*ssa.Store)
			if !ok {
				return
			}
			if fv, ok := st.Addr.(*ssa.FreeVar); ok {
				if al := freeVarAlloc(f, fv); al != nil {
					cells[al] = append(cells[al], st)
				}
			}
		})
	}
	return
}

// freeVarAlloc resolves a free variable of a closure (possibly nested) to the Alloc it was bound to.
func freeVarAlloc(f *ssa.Function, fv *ssa.FreeVar) *ssa.Alloc {
	for d := 0; d < 6 && f != nil && f.Parent() != nil; d++ {
		idx := -1
		for i, x := range f.FreeVars {
			if x == fv {
				idx = i
			}
		}
		if idx < 0 {
			return nil
		}
		var bound ssa.Value
		for _, g := range withClosures(f.Parent()) {
			eachInstr(g, func(in ssa.Instruction) {
				if mc, ok := in.(*ssa.MakeClosure); ok && mc.Fn == ssa.Value(f) && idx < len(mc.Bindings) {
					bound = mc.Bindings[idx]
				}
			})
		}
		switch b := bound.(type) {
		case *ssa.Alloc:
			return b
		case *ssa.FreeVar:
			fv, f = b, f.Parent()
		default:
			return nil
		}
	}
	return nil
}

// storesToAlloc lists the stores into an Alloc made by its function and by the closures that capture it.
func storesToAlloc(al *ssa.Alloc) []*ssa.Store {
	var out []*ssa.Store
	for _, g := range withClosures(al.Parent()) {
		eachInstr(g, func(in ssa.Instruction) {
			st, ok := in.(*ssa.Store)
			if !ok {
				return
			}
			switch a := st.Addr.(type) {
			case *ssa.Alloc:
				if a == al {
					out = append(out, st)
				}
			case *ssa.FreeVar:
				if freeVarAlloc(g, a) == al {
					out = append(out, st)
				}
			}
		})
	}
	return out
}

// c11r14: the colour state carried from one input line to the next lives in variables of Run that the
// item builders update. A value stored into such a variable must be the state extractColor returned for the
// line just processed (or nil) — not a copy of the variable taken BEFORE the line was processed, which is
// the state of the line before (D31: the --with-nth builder seeded its tokens from prevLineAnsiState, a copy
// made ahead of the update; a colour left open was applied to every other line only).
func c11r14(c *Ctx, r *Report) {
	l := c.L
	r.rule("C11-R14", "D (provenance of the carried state)", "P1",
		"every value the item builders store into a captured *ansiState variable of Run is the state result of an extractColor call or nil; a load of another such variable is accepted only after that variable's own update in the same function",
		"with --ansi --with-nth the colour carried over from the previous line is one line late: it is applied to every other line")
	run, cells, _ := builderCells(l)
	ext := l.Fn("fzf", "extractColor")
	if run == nil || ext == nil {
		r.unest("anchors", token.NoPos, nil, "anchors Run / NewChunkList / extractColor", "cannot resolve")
		return
	}
	isState := func(al *ssa.Alloc) bool {
		p, ok := deref(al.Type()).(*types.Pointer)
		if !ok {
			return false
		}
		n, ok := p.Elem().(*types.Named)
		return ok && n.Obj().Name() == "ansiState"
	}
	n := 0
	var als []*ssa.Alloc
	for al := range cells {
		if isState(al) {
			als = append(als, al)
		}
	}
	sort.Slice(als, func(i, j int) bool { return als[i].Comment < als[j].Comment })
	for _, al := range als {
		for i, st := range cells[al] {
			n++
			f := st.Parent()
			why := ""
			switch v := st.Val.(type) {
			case *ssa.Extract:
				call, ok := v.Tuple.(*ssa.Call)
				if !ok || !callIs(call.Common(), ext) || v.Index != 2 {
					why = "the stored value is not the state result of extractColor"
				}
			case *ssa.Const:
				if !v.IsNil() {
					why = "the stored value is a non-nil constant"
				}
			case *ssa.UnOp:
				src, _ := v.X.(*ssa.FreeVar)
				var from *ssa.Alloc
				if src != nil {
					from = freeVarAlloc(f, src)
				}
				if v.Op != token.MUL || from == nil || !isState(from) {
					why = "the stored value is not derived from extractColor"
					break
				}
				updated := false
				for _, s2 := range cells[from] {
					if s2.Parent() == f && dominates(s2, v) {
						updated = true
					}
				}
				if !updated {
					why = fmt.Sprintf("it is a copy of %s taken before %s is updated for the current line: the state of the line before", from.Comment, from.Comment)
				}
			default:
				why = "the stored value is not the state result of extractColor"
			}
			r.check(why == "", fmt.Sprintf("%s:store #%d into %s", relName(run), i+1, al.Comment), st.Pos(), f, "the carried state is the one extractColor returned for this line", why)
		}
	}
	r.floor("stores into the carried ANSI state", n, 1)
}

// c11r15: a reload starts a new input stream; everything the item builders carry from one record to the
// next belongs to the old stream and has to be reset by the coordinator's restart closure, as itemIndex and
// header are (D32: the carried colour state was not, so a colour left open by the last line of the old input
// coloured the first lines of the reloaded input).
func c11r15(c *Ctx, r *Report) {
	l := c.L
	r.rule("C11-R15", "E (census: every builder cell is reset)", "P1",
		"every variable of Run that the item builders store into is also stored by the closure that restarts the reader (the one that calls Reader.restart)",
		"state of the previous input leaks into the reloaded one: item ordinals continue, header lines are not diverted again, the first lines inherit the colour of the old input's last line")
	run, cells, _ := builderCells(l)
	rr := l.Fn("fzf", "(*Reader).restart")
	if run == nil || rr == nil {
		r.unest("anchors", token.NoPos, nil, "anchors Run / Reader.restart", "cannot resolve")
		return
	}
	var restart *ssa.Function
	for _, g := range withClosures(run) {
		eachInstr(g, func(in ssa.Instruction) {
			if ci, ok := in.(ssa.CallInstruction); ok && callIs(ci.Common(), rr) {
				restart = g
			}
		})
	}
	if restart == nil {
		r.unest("anchors", token.NoPos, run, "the closure of Run that calls Reader.restart", "cannot find it")
		return
	}
	var als []*ssa.Alloc
	for al := range cells {
		als = append(als, al)
	}
	sort.Slice(als, func(i, j int) bool { return als[i].Comment < als[j].Comment })
	for _, al := range als {
		reset := false
		for _, st := range storesToAlloc(al) {
			if st.Parent() == restart {
				reset = true
			}
		}
		r.check(reset, fmt.Sprintf("%s:%s is reset on reload", relName(run), al.Comment), al.Pos(), restart, "restart stores it", fmt.Sprintf("the item builders keep %s across records but the restart closure does not reset it: the reloaded input starts with the old input's state", al.Comment))
	}
	r.floor("variables the item builders keep across records", len(als), 3)
}

// c19r7: the walk callback appends the separator to an entry it treats as a directory (a real directory or,
// with follow, a symlink to one) and later decides whether to list the entry from `isDir`. The two must
// agree: on every path on which the separator was appended, the value tested by the listing decision is
// true (D33: isDir was de.IsDir() only, so a followed symlink to a directory got the separator but was listed
// as a FILE: --walker=file,follow listed `link/`, --walker=dir,follow did not).
func c19r7(c *Ctx, r *Report) {
	l := c.L
	r.rule("C19-R7", "A (the marker and the classification agree on every path)", "P1",
		"in the walk callback of Reader.readFiles, on every path through the block that appends the path separator, the IsDir-derived value tested before the push is true",
		"with follow, symlinked directories are listed among the files (with a trailing separator) and are missing from the directories")
	rf := l.Fn("fzf", "(*Reader).readFiles")
	if rf == nil {
		r.unest("anchors", token.NoPos, nil, "anchor Reader.readFiles", "cannot resolve")
		return
	}
	n := 0
	for _, f := range withClosures(rf) {
		if f == rf {
			continue
		}
		// the push: a call through the Reader.pusher field
		var push *ssa.Call
		eachInstr(f, func(in ssa.Instruction) {
			if call, ok := in.(*ssa.Call); ok && !call.Common().IsInvoke() {
				if fld, _ := loadedField(call.Common().Value); fld != nil && fld.Name() == "pusher" {
					push = call
				}
			}
		})
		if push == nil {
			continue
		}
		// separator appends: string concatenations whose result flows into the pushed value
		var appends []*ssa.BinOp
		pushed := backwardSlice(push.Call.Args[0], func(*ssa.CallCommon) bool { return true }, nil)
		eachInstr(f, func(in ssa.Instruction) {
			if bo, ok := in.(*ssa.BinOp); ok && bo.Op == token.ADD && pushed[bo] {
				if bt, ok := bo.Type().Underlying().(*types.Basic); ok && bt.Kind() == types.String {
					appends = append(appends, bo)
				}
			}
		})
		// the classification values: conditions on the way to the push that derive from DirEntry.IsDir
		pc := pathConds(f)
		isDirVals := map[ssa.Value]bool{}
		for _, dj := range pc.At(push.Block()) {
			for _, lt := range dj {
				for w := range backwardSlice(lt.Atom, nil, nil) {
					if call, ok := w.(*ssa.Call); ok && call.Common().IsInvoke() && call.Common().Method.Name() == "IsDir" {
						isDirVals[lt.Atom] = true
					}
				}
			}
		}
		// keep only the values tested by the listing decision, i.e. by a branch after the append
		for x := range isDirVals {
			after := false
			for _, ap := range appends {
				eachInstr(f, func(in ssa.Instruction) {
					if iff, ok := in.(*ssa.If); ok && iff.Cond == x && !iff.Block().Dominates(ap.Block()) {
						after = true
					}
				})
			}
			if !after {
				delete(isDirVals, x)
			}
		}
		if len(appends) == 0 || len(isDirVals) == 0 {
			r.unest(relName(f)+":separator and classification", f.Pos(), f, "the separator append and the IsDir-derived condition of the push", "cannot find them")
			continue
		}
		for i, ap := range appends {
			for x := range isDirVals {
				n++
				trueAt := func(v ssa.Value) bool {
					if k, ok := v.(*ssa.Const); ok && k.Value != nil && k.Value.String() == "true" {
						return true
					}
					holds, reach := pc.Implies(ap.Block(), func(lits []Lit) bool {
						return hasLit(lits, func(a ssa.Value, val bool) bool { return a == v && val })
					})
					return holds && reach
				}
				ok := true
				if phi, isPhi := x.(*ssa.Phi); isPhi {
					through := 0
					for ei, e := range phi.Edges {
						if !ap.Block().Dominates(phi.Block().Preds[ei]) {
							continue
						}
						through++
						if !trueAt(e) {
							ok = false
						}
					}
					if through == 0 {
						ok = trueAt(x)
					}
				} else {
					ok = trueAt(x)
				}
				r.check(ok, fmt.Sprintf("%s:separator append #%d implies the directory classification", relName(rf), i+1), ap.Pos(), f,
					"an entry that got the separator is classified as a directory", "the separator is appended on a path on which the value tested by the listing decision is false: the entry is marked as a directory but listed as a file")
			}
		}
	}
	r.floor("separator appends checked against the classification", n, 1)
}

// c01r6: the text of a term is the user's query text. On the way from parseTerms' query parameter to the
// `text` field of a term, the characters may only be case-folded, accent-normalised, split and sliced; the
// only rewrite is the removal of the backslash of an escaped space. Any other substitution rewrites characters
// the user typed (D34: `\ ` was implemented by substituting a TAB before splitting and turning every TAB of
// a token back into a space — a TAB typed in the query became a space: the line containing the TAB was dropped
// and a line with a space shown).
func c01r6(c *Ctx, r *Report) {
	l := c.L
	r.rule("C01-R6", "D (census of the transformers on the data path)", "P1",
		"every call on the data path from parseTerms' query parameter to the text stored in a term is one of: the module's own splitter or a library split, strings.ToLower, algo.NormalizeRunes, strings.HasPrefix/HasSuffix (tests), string/rune conversions, or a strings.Replace/ReplaceAll whose `old` operand is a constant that contains a backslash",
		"characters typed in the query are rewritten before matching: a literal TAB becomes a space, so a matching line is dropped and a non-matching one is shown")
	pt := l.Fn("fzf", "parseTerms")
	if pt == nil || len(pt.Params) < 4 {
		r.unest("anchors", token.NoPos, nil, "anchor parseTerms", "cannot resolve")
		return
	}
	str := pt.Params[3]
	// the sinks: values stored into the `text` field of a term literal
	var sinks []ssa.Value
	eachInstr(pt, func(in ssa.Instruction) {
		if st, ok := in.(*ssa.Store); ok {
			if fld, _ := fieldOf(st.Addr); fld != nil && fld.Name() == "text" {
				sinks = append(sinks, st.Val)
			}
		}
	})
	if len(sinks) == 0 {
		r.unest("anchors", token.NoPos, pt, "the store into term.text in parseTerms", "cannot find it")
		return
	}
	onPath := map[ssa.Value]bool{}
	for _, s := range sinks {
		for w := range backwardSlice(s, func(*ssa.CallCommon) bool { return true }, nil) {
			onPath[w] = true
		}
	}
	fromStr := forwardDerived(pt, []ssa.Value{str}, func(*ssa.CallCommon) bool { return true })
	n := 0
	seenCallee := map[string]int{}
	eachInstr(pt, func(in ssa.Instruction) {
		call, ok := in.(*ssa.Call)
		if !ok || !onPath[call] || !fromStr[call] {
			return
		}
		name := calleeName(call.Common())
		n++
		seenCallee[name]++
		key := fmt.Sprintf("%s:%s #%d on the query's path to term.text", relName(pt), strings.TrimPrefix(name, modPath+"/src"), seenCallee[name])
		why := ""
		switch {
		case name == "strings.ToLower", name == modPath+"/src/algo.NormalizeRunes", name == "(*regexp.Regexp).Split", name == "strings.Split", name == "strings.Fields":
		case call.Common().StaticCallee() != nil && call.Common().StaticCallee().Pkg == pt.Pkg:
			// the module's own splitter: must not itself call a replacing function
			callee := call.Common().StaticCallee()
			eachInstr(callee, func(i2 ssa.Instruction) {
				if c2, ok := i2.(*ssa.Call); ok {
					switch calleeName(c2.Common()) {
					case "strings.ReplaceAll", "strings.Replace", "strings.Map", "(*strings.Replacer).Replace", "(*regexp.Regexp).ReplaceAllString":
						why = fmt.Sprintf("%s rewrites the text with %s", callee.Name(), calleeName(c2.Common()))
					}
				}
			})
		case name == "strings.ReplaceAll" || name == "strings.Replace":
			k, ok := call.Call.Args[1].(*ssa.Const)
			if !ok || k.Value == nil || !strings.Contains(k.Value.ExactString(), `\\`) {
				why = "it replaces a sequence that is not an escape (no backslash in it): ordinary characters of the query are rewritten"
			}
		default:
			why = "not one of the transformers a query may pass through"
		}
		r.check(why == "", key, call.Pos(), pt, "a permitted transformer", why)
	})
	r.floor("calls on the path from the query to term.text", n, 3)
}

// c18r9: the list of stored queries is bounded by --history-size wherever it is (re)built: when a query is
// appended and when the file is loaded (D35: NewHistory carried the comment "limit the maximum number of
// lines" but did not: a file longer than the limit was loaded in full and prev-history walked into entries
// that are not among the most recent N).
func c18r9(c *Ctx, r *Report) {
	l := c.L
	r.rule("C18-R9", "E (sibling agreement: every builder of the list applies the cap)", "P1",
		"every function that stores a slice into History.lines compares the length of a value that flows into the stored slice with the size limit (the maxSize parameter or field)",
		"a session started on a file longer than --history-size navigates to entries outside the most recent N")
	fLines := l.Field("fzf", "History", "lines")
	if fLines == nil {
		r.unest("anchors", token.NoPos, nil, "anchor History.lines", "cannot resolve")
		return
	}
	n := 0
	for _, fn := range l.AllFuncs() {
		if fn.Blocks == nil || fn.Pkg != l.pkg("fzf") {
			continue
		}
		var stores []*ssa.Store
		eachInstr(fn, func(in ssa.Instruction) {
			if st, ok := in.(*ssa.Store); ok {
				if fld, _ := fieldOf(st.Addr); fld == fLines {
					stores = append(stores, st)
				}
			}
		})
		if len(stores) == 0 {
			continue
		}
		isLimit := func(v ssa.Value) bool {
			for w := range backwardSlice(v, nil, nil) {
				if p, ok := w.(*ssa.Parameter); ok && p.Name() == "maxSize" {
					return true
				}
				if fld, _ := loadedField(w); fld != nil && fld.Name() == "maxSize" {
					return true
				}
			}
			return false
		}
		for i, st := range stores {
			n++
			flows := backwardSlice(st.Val, nil, nil)
			capped := false
			eachInstr(fn, func(in ssa.Instruction) {
				b, ok := in.(*ssa.BinOp)
				if !ok {
					return
				}
				switch b.Op {
				case token.GTR, token.LSS, token.GEQ, token.LEQ:
				default:
					return
				}
				for _, pr := range [][2]ssa.Value{{b.X, b.Y}, {b.Y, b.X}} {
					call, ok := pr[0].(*ssa.Call)
					if !ok || calleeName(call.Common()) != "builtin.len" || !isLimit(pr[1]) {
						continue
					}
					for w := range backwardSlice(call.Call.Args[0], nil, nil) {
						if flows[w] {
							capped = true
						}
					}
				}
			})
			r.check(capped, fmt.Sprintf("%s:History.lines store #%d is capped", relName(fn), i+1), st.Pos(), fn, "the stored list was compared with the size limit", "the list is stored without comparing its length with the size limit")
		}
	}
	r.floor("stores into History.lines", n, 2)
}

// c14r11: a reload command carries the temporary files of its {f}/{+f} placeholders in a commandSpec. The
// spec is handed from the action (Loop's newCommand) through the search request to the coordinator (Run's
// nextCommand while the old reader is being terminated) and finally to Reader.restart, which removes the
// files when the command has ended. Every place on that chain that can DROP a spec has to remove its files
// (D36: a second reload in one action chain overwrote newCommand; a further reload overwrote nextCommand; on
// quit a pending nextCommand was dropped; and when fzf exits while the reload command runs the process ends
// before Reader.restart gets to its removeFiles).
func c14r11(c *Ctx, r *Report) {
	l := c.L
	r.rule("C14-R11", "B (ownership hand-off: whoever drops a spec releases it)", "P1",
		"(a) every store of a non-nil value into a captured *commandSpec variable is reachable from a removeFiles call on that variable's old tempFiles in the same function; (b) the coordinator's EvtQuit case removes the files of a pending nextCommand; (c) Reader.restart records the running command's files in the Reader and Reader.terminate removes them",
		"files created for {f}/{+f} of a reload command stay in $TMPDIR when the reload is superseded or fzf exits during it")
	remove := l.Fn("fzf", "removeFiles")
	if remove == nil {
		r.unest("anchors", token.NoPos, nil, "anchor removeFiles", "cannot resolve")
		return
	}
	isSpecCell := func(t types.Type) bool {
		p, ok := t.(*types.Pointer)
		if !ok {
			return false
		}
		p2, ok := p.Elem().(*types.Pointer)
		if !ok {
			return false
		}
		n, ok := p2.Elem().(*types.Named)
		return ok && n.Obj().Name() == "commandSpec"
	}
	cellOf := func(f *ssa.Function, v ssa.Value) *ssa.Alloc {
		switch x := v.(type) {
		case *ssa.Alloc:
			return x
		case *ssa.FreeVar:
			return freeVarAlloc(f, x)
		}
		return nil
	}
	// removeFiles calls on the old content of a cell
	releases := func(f *ssa.Function, cell *ssa.Alloc) []*ssa.Call {
		var out []*ssa.Call
		eachInstr(f, func(in ssa.Instruction) {
			call, ok := in.(*ssa.Call)
			if !ok || !callIs(call.Common(), remove) {
				return
			}
			for w := range backwardSlice(call.Call.Args[0], nil, nil) {
				if u, ok := w.(*ssa.UnOp); ok && u.Op == token.MUL && isSpecCell(u.X.Type()) && cellOf(f, u.X) == cell {
					out = append(out, call)
					return
				}
			}
		})
		return out
	}
	nStore := 0
	quitReleased := false
	evtQuit := l.Const("fzf", "EvtQuit")
	for _, fn := range l.AllFuncs() {
		if fn.Blocks == nil || fn.Pkg != l.pkg("fzf") {
			continue
		}
		var pc *PathConds
		k := 0
		eachInstr(fn, func(in ssa.Instruction) {
			st, ok := in.(*ssa.Store)
			if !ok || !isSpecCell(st.Addr.Type()) {
				return
			}
			cell := cellOf(fn, st.Addr)
			if cell == nil {
				return
			}
			if kst, isK := st.Val.(*ssa.Const); isK && kst.IsNil() {
				return
			}
			// the declaration's zero store / first initialisation in the declaring function's entry block
			if fn == cell.Parent() && st.Block() == fn.Blocks[0] {
				return
			}
			nStore++
			k++
			released := false
			for _, rc := range releases(fn, cell) {
				if canReach(rc, st) {
					released = true
				}
			}
			r.check(released, fmt.Sprintf("%s:overwrite #%d of %s releases the old spec", relName(rootFn(fn)), k, cell.Comment), st.Pos(), fn,
				"the files of the spec being replaced are removed first", fmt.Sprintf("%s is overwritten without removing the temporary files of the spec it held", cell.Comment))
		})
		// (b) the quit case
		if evtQuit != nil && rootFn(fn) == l.Fn("fzf", "Run") {
			qv, _ := constInt(evtQuit)
			eachInstr(fn, func(in ssa.Instruction) {
				call, ok := in.(*ssa.Call)
				if !ok || !callIs(call.Common(), remove) {
					return
				}
				onSpec := false
				for w := range backwardSlice(call.Call.Args[0], nil, nil) {
					if u, ok := w.(*ssa.UnOp); ok && u.Op == token.MUL && isSpecCell(u.X.Type()) {
						onSpec = true
					}
				}
				if !onSpec {
					return
				}
				if pc == nil {
					pc = pathConds(fn)
				}
				if ks, ok := eqConstLits(pc, call.Block()); ok && ks[qv] {
					quitReleased = true
				}
			})
		}
	}
	r.floor("overwrites of a captured *commandSpec variable", nStore, 2)
	if run := l.Fn("fzf", "Run"); run != nil {
		r.check(quitReleased, relName(run)+":EvtQuit releases a pending reload command", run.Pos(), run, "the quit case removes the files of nextCommand", "on quit a reload command that was waiting for the old reader to end is dropped together with its temporary files")
	}
	// (c) the reader
	fRT := l.Field("fzf", "Reader", "tempFiles")
	term := l.Fn("fzf", "(*Reader).terminate")
	rst := l.Fn("fzf", "(*Reader).restart")
	if term == nil || rst == nil {
		r.unest("anchors", token.NoPos, nil, "anchors Reader.terminate / Reader.restart", "cannot resolve")
		return
	}
	recorded, removed := false, false
	if fRT != nil {
		eachInstr(rst, func(in ssa.Instruction) {
			if st, ok := in.(*ssa.Store); ok {
				if fld, _ := fieldOf(st.Addr); fld == fRT {
					for w := range backwardSlice(st.Val, nil, nil) {
						if f2, _ := fieldOf(w); f2 != nil && f2.Name() == "tempFiles" && f2 != fRT {
							recorded = true
						}
					}
				}
			}
		})
		eachInstr(term, func(in ssa.Instruction) {
			if call, ok := in.(*ssa.Call); ok && callIs(call.Common(), remove) {
				if fld, _ := loadedField(call.Call.Args[0]); fld == fRT {
					removed = true
				}
			}
		})
	}
	r.check(recorded, relName(rst)+":records the running command's files", rst.Pos(), rst, "Reader.restart stores commandSpec.tempFiles in the Reader", "the Reader does not know the temporary files of the command it runs: nothing can remove them when fzf exits during the reload")
	r.check(removed, relName(term)+":removes the running command's files", term.Pos(), term, "Reader.terminate removes them", "fzf exits while the reload command runs and the process ends before Reader.restart gets to removeFiles")
}

// c20r13: cancelPreview hands its request over with a NON-blocking send on Terminal.killChan, so the request
// is lost whenever no watcher goroutine is parked on the channel — in particular while the previewer is still
// building and starting the command the request is meant for. The request that caused the cancellation is
// still in the previewer's mailbox at that time, so the watcher can and must compensate: before it first
// blocks on killChan it looks into Terminal.previewBox for a pending request (D37: it did not; a cursor move
// during the start of a never-ending preview command left that command running and the preview of the focused
// line never started).
func c20r13(c *Ctx, r *Report) {
	l := c.L
	r.rule("C20-R13", "A (compensation dominates the lossy receive)", "P1",
		"if some send on Terminal.killChan is non-blocking (a select with default), then in every goroutine that receives from Terminal.killChan a call of EventBox.Peek on Terminal.previewBox dominates the first select that receives from it",
		"a superseded preview command keeps running and the preview for the line under the cursor does not start until the next user action")
	fKill := l.Field("fzf", "Terminal", "killChan")
	fBox := l.Field("fzf", "Terminal", "previewBox")
	peek := l.Fn("util", "(*EventBox).Peek")
	if fKill == nil || fBox == nil || peek == nil {
		r.unest("anchors", token.NoPos, nil, "anchors Terminal.killChan / Terminal.previewBox / EventBox.Peek", "cannot resolve")
		return
	}
	isKill := func(v ssa.Value) bool {
		fld, _ := loadedField(v)
		return fld == fKill
	}
	lossy := false
	nLossy := 0
	type recvSite struct {
		fn  *ssa.Function
		sel *ssa.Select
	}
	var recvs []recvSite
	for _, fn := range l.AllFuncs() {
		if fn.Blocks == nil || fn.Pkg != l.pkg("fzf") {
			continue
		}
		eachInstr(fn, func(in ssa.Instruction) {
			sel, ok := in.(*ssa.Select)
			if !ok {
				return
			}
			for _, st := range sel.States {
				if !isKill(st.Chan) {
					continue
				}
				if st.Dir == types.SendOnly {
					if !sel.Blocking {
						lossy = true
						nLossy++
					}
				} else {
					recvs = append(recvs, recvSite{fn, sel})
				}
			}
		})
	}
	r.info("lossy sends", token.NoPos, nil, fmt.Sprintf("%d non-blocking send(s) on Terminal.killChan", nLossy))
	if !lossy {
		r.ok("Terminal.killChan:no lossy send", token.NoPos, nil, "every send on Terminal.killChan blocks until it is received")
		return
	}
	// per receiving function: the first (dominating) receive select
	byFn := map[*ssa.Function][]*ssa.Select{}
	for _, rs := range recvs {
		byFn[rs.fn] = append(byFn[rs.fn], rs.sel)
	}
	var fns []*ssa.Function
	for f := range byFn {
		fns = append(fns, f)
	}
	sort.Slice(fns, func(i, j int) bool { return relName(fns[i]) < relName(fns[j]) })
	for _, f := range fns {
		var peeks []ssa.Instruction
		eachInstr(f, func(in ssa.Instruction) {
			if call, ok := in.(*ssa.Call); ok && callIs(call.Common(), peek) {
				if fld, _ := loadedField(call.Call.Args[0]); fld == fBox {
					peeks = append(peeks, in)
				}
			}
		})
		ok := true
		var at token.Pos
		for _, sel := range byFn[f] {
			// only selects not dominated by another receive select of the same function (the first ones)
			first := true
			for _, other := range byFn[f] {
				if other != sel && dominates(other, sel) {
					first = false
				}
			}
			if !first {
				continue
			}
			dom := false
			for _, p := range peeks {
				if dominates(p, sel) {
					dom = true
				}
			}
			if !dom {
				ok = false
				at = sel.Pos()
			}
		}
		r.check(ok, fmt.Sprintf("%s:pending request consulted before the first receive from killChan", relName(f)), f.Pos(), f,
			"a Peek on Terminal.previewBox dominates the first receive", fmt.Sprintf("the select at %s is the first to receive from killChan and nothing looked for a request that arrived before: its cancellation was sent when nobody listened", l.pos(at)))
	}
	r.floor("goroutines receiving from Terminal.killChan", len(fns), 1)
}

// c16r11: a non-local listener without --listen-unsafe drops the actions for which processExecution() is true:
// the ones that run a command. The list has to cover every action whose handler reaches the executor (D38:
// seven newer transform-* actions, which run their argument through captureLine, were missing: a remote
// client holding the API key could run arbitrary commands although --listen-unsafe was not given).
func c16r11(c *Ctx, r *Report) {
	l := c.L
	r.rule("C16-R11", "E (census: handlers that reach the executor vs. the filter's case list)", "P1",
		"every action type under whose case the action interpreter (a closure of Terminal.Loop) calls a function that reaches Executor.ExecCommand or Executor.Become through static calls is a case of processExecution",
		"an action that executes a shell command passes the filter of a non-local listener: remote command execution without --listen-unsafe")
	pe := l.Fn("fzf", "processExecution")
	loop := l.Fn("fzf", "(*Terminal).Loop")
	if pe == nil || loop == nil {
		r.unest("anchors", token.NoPos, nil, "anchors processExecution / Terminal.Loop", "cannot resolve")
		return
	}
	// functions reaching the executor
	reach := map[*ssa.Function]bool{}
	for _, f := range l.AllFuncs() {
		switch relName(f) {
		case "(*fzf/util.Executor).ExecCommand", "(*fzf/util.Executor).Become":
			reach[f] = true
		}
	}
	if len(reach) == 0 {
		r.unest("anchors", token.NoPos, nil, "anchors Executor.ExecCommand / Executor.Become", "cannot resolve")
		return
	}
	for changed := true; changed; {
		changed = false
		for _, f := range l.AllFuncs() {
			if reach[f] || f.Blocks == nil || f.Pkg != l.pkg("fzf") || rootFn(f) == loop {
				continue
			}
			eachInstr(f, func(in ssa.Instruction) {
				if g := staticCallee(in); g != nil && reach[g] && !reach[f] {
					reach[f] = true
					changed = true
				}
			})
		}
	}
	// the filter's list
	listed := map[int64]bool{}
	pcPE := pathConds(pe)
	eachInstr(pe, func(in ssa.Instruction) {
		ret, ok := in.(*ssa.Return)
		if !ok || len(ret.Results) != 1 {
			return
		}
		if k, ok := ret.Results[0].(*ssa.Const); !ok || k.Value == nil || k.Value.String() != "true" {
			return
		}
		if ks, ok := eqConstLits(pcPE, in.Block()); ok {
			for k := range ks {
				listed[k] = true
			}
		}
	})
	actName := func(k int64) string {
		sc := l.pkg("fzf").Pkg.Scope()
		for _, nm := range sc.Names() {
			if !strings.HasPrefix(nm, "act") {
				continue
			}
			if cst, ok := sc.Lookup(nm).(*types.Const); ok {
				if n, ok := cst.Type().(*types.Named); ok && n.Obj().Name() == "actionType" {
					if v, ok := constInt(cst); ok && v == k {
						return nm
					}
				}
			}
		}
		return fmt.Sprintf("action %d", k)
	}
	execs := map[int64]token.Pos{}
	via := map[int64]string{}
	for _, f := range withClosures(loop) {
		var pc *PathConds
		eachInstr(f, func(in ssa.Instruction) {
			g := staticCallee(in)
			if g == nil || !reach[g] {
				return
			}
			if pc == nil {
				pc = pathConds(f)
			}
			for _, dj := range pc.At(in.Block()) {
				// the action type this disjunct stands for; a disjunct that requires two different types (the case
				// label of a shared body AND the inner test for its sibling) is infeasible
				pos := map[int64]bool{}
				for _, lt := range dj {
					bo, ok := lt.Atom.(*ssa.BinOp)
					if !ok || !(bo.Op == token.EQL && lt.Val || bo.Op == token.NEQ && !lt.Val) {
						continue
					}
					fld, _ := loadedField(bo.X)
					if fld == nil || fld.Name() != "t" {
						continue
					}
					if k, isK := constIntVal(bo.Y); isK {
						pos[k] = true
					}
				}
				if len(pos) != 1 {
					continue
				}
				for k := range pos {
					if _, seen := execs[k]; !seen {
						execs[k] = in.Pos()
						via[k] = g.Name()
					}
				}
			}
		})
	}
	var ks []int64
	for k := range execs {
		ks = append(ks, k)
	}
	sort.Slice(ks, func(i, j int) bool { return ks[i] < ks[j] })
	for _, k := range ks {
		r.check(listed[k], fmt.Sprintf("%s:%s runs a command and is filtered", relName(pe), actName(k)), execs[k], loop,
			"processExecution lists it", fmt.Sprintf("its handler calls %s, which reaches the executor, but processExecution does not list it: a non-local listener accepts it without --listen-unsafe", via[k]))
	}
	r.floor("action types whose handler reaches the executor", len(ks), 15)
}

// c09r10: when --tail trims the input, UpdateList keeps the selected items that are still in the window.
// Whether an entry of the old selection is kept may depend on item indexes (the window's lowest index) only;
// Merger.Length() is the number of MATCHES under the current query, not the number of items, and must not
// bound the window (D39: maxIndex = minIndex + merger.Length(); with a query that matches a few items, a
// selected item that is still listed lost its selection on the next trim).
func c09r10(c *Ctx, r *Report) {
	l := c.L
	r.rule("C09-R10", "A (the filter's conditions do not consult the match count)", "P1",
		"in Terminal.UpdateList, the conditions under which an entry of the old selection is copied into the new selection do not depend on a Merger.Length() result",
		"with --tail and an active query, selected items that are still in the list silently lose their selection: {+} and the accepted output miss them")
	ul := l.Fn("fzf", "(*Terminal).UpdateList")
	mlen := l.Fn("fzf", "(*Merger).Length")
	fSel := l.Field("fzf", "Terminal", "selected")
	if ul == nil || mlen == nil || fSel == nil {
		r.unest("anchors", token.NoPos, nil, "anchors Terminal.UpdateList / Merger.Length / Terminal.selected", "cannot resolve")
		return
	}
	n := 0
	loops := natLoops(ul)
	eachInstr(ul, func(in ssa.Instruction) {
		mu, ok := in.(*ssa.MapUpdate)
		if !ok {
			return
		}
		// the fresh map must reach a store into Terminal.selected
		toSel := false
		if mm, ok := mu.Map.(*ssa.MakeMap); ok && mm.Referrers() != nil {
			for _, ref := range *mm.Referrers() {
				if st, ok := ref.(*ssa.Store); ok {
					if fld, _ := fieldOf(st.Addr); fld == fSel {
						toSel = true
					}
				}
			}
		}
		if !toSel {
			return
		}
		n++
		bad := ""
		// the filter's own conditions: the branches inside the loop that ranges over the old selection
		var lp *natLoop
		for i := range loops {
			if loops[i].body[mu.Block()] && (lp == nil || len(loops[i].body) < len(lp.body)) {
				lp = &loops[i]
			}
		}
		if lp == nil {
			r.unest(fmt.Sprintf("%s:kept selection #%d", relName(ul), n), mu.Pos(), ul, "the copy sits in a loop over the old selection", "no enclosing loop found")
			return
		}
		for b := range lp.body {
			iff, ok := b.Instrs[len(b.Instrs)-1].(*ssa.If)
			if !ok {
				continue
			}
			for w := range backwardSlice(iff.Cond, func(*ssa.CallCommon) bool { return true }, nil) {
				if call, ok := w.(*ssa.Call); ok && callIs(call.Common(), mlen) {
					bad = l.pos(iff.Cond.Pos())
				}
			}
		}
		r.check(bad == "", fmt.Sprintf("%s:kept selection #%d is bounded by item indexes only", relName(ul), n), mu.Pos(), ul,
			"no condition of the filter consults the match count", fmt.Sprintf("the condition at %s depends on Merger.Length(), the number of matches: with a query, items beyond minIndex+matches are dropped from the selection although they were not trimmed", bad))
	})
	r.floor("entries copied into the filtered selection", n, 1)
}
