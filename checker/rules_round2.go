package main

// Rules added after the second round of independent mutants (general clauses, not matches on the mutants).

import (
	"fmt"
	"go/token"
	"go/types"
	"regexp/syntax"
	"strings"

	"golang.org/x/tools/go/ssa"
)

// regexAdmits: can the pattern match (contain) the rune ch somewhere?
func regexAdmits(x *syntax.Regexp, ch rune) bool {
	switch x.Op {
	case syntax.OpLiteral:
		for _, rr := range x.Rune {
			if rr == ch {
				return true
			}
		}
	case syntax.OpCharClass:
		for i := 0; i+1 < len(x.Rune); i += 2 {
			if x.Rune[i] <= ch && ch <= x.Rune[i+1] {
				return true
			}
		}
	case syntax.OpAnyChar, syntax.OpAnyCharNotNL:
		return true
	}
	for _, s := range x.Sub {
		if regexAdmits(s, ch) {
			return true
		}
	}
	return false
}

// globalPattern: the constant pattern a package-level *regexp.Regexp is compiled from.
func globalPattern(l *Loaded, g *ssa.Global) (string, bool) {
	pat, n := "", 0
	for _, f := range l.AllFuncs() {
		eachInstr(f, func(in ssa.Instruction) {
			st, ok := in.(*ssa.Store)
			if !ok || st.Addr != ssa.Value(g) {
				return
			}
			if call, ok := st.Val.(*ssa.Call); ok {
				if s, ok := constString(call.Call.Args[0]); ok {
					pat = s
					n++
				}
			}
		})
	}
	return pat, n == 1
}

// C01-R4: the term tokenizer must not split on the placeholder that stands for an escaped space.
func c01r4(c *Ctx, r *Report) {
	l := c.L
	r.rule("C01-R4", "E (table agreement: placeholder vs. separator set)", "P1",
		"the splitting of the query into terms respects `\\ `: where parseTerms replaces it by a placeholder before splitting, the splitter's separator set (the language of its constant regexp, or of strings.Split's constant) does not contain that placeholder; where the module has a splitter of its own, every term boundary inside its loop is decided on paths that tested the byte against the backslash",
		"`foo\\ bar` is split into two AND-ed terms: escaped spaces change the meaning of the query")
	pt := l.Fn("fzf", "parseTerms")
	if pt == nil {
		r.unest("anchors", token.NoPos, nil, "anchor parseTerms", "cannot resolve")
		return
	}
	placeholder := ""
	var splitCall *ssa.Call
	eachInstr(pt, func(in ssa.Instruction) {
		call, ok := in.(*ssa.Call)
		if !ok {
			return
		}
		switch calleeName(call.Common()) {
		case "strings.ReplaceAll", "strings.Replace":
			if from, ok := constString(call.Call.Args[1]); ok && from == "\\ " {
				placeholder, _ = constString(call.Call.Args[2])
			}
		case "(*regexp.Regexp).Split", "strings.Split", "strings.Fields", "strings.FieldsFunc", "strings.SplitN":
			if splitCall == nil {
				splitCall = call
			}
		}
	})
	if placeholder == "" && splitCall == nil {
		// no placeholder: a splitter of the module's own. It has to look at the escape before it looks at the
		// space: every token boundary inside its loop is decided on paths that have tested the byte against '\\'.
		var splitter *ssa.Function
		eachInstr(pt, func(in ssa.Instruction) {
			call, ok := in.(*ssa.Call)
			if !ok || call.Common().StaticCallee() == nil || call.Common().StaticCallee().Pkg != pt.Pkg {
				return
			}
			if sl, ok := call.Type().Underlying().(*types.Slice); ok {
				if b, ok := sl.Elem().Underlying().(*types.Basic); ok && b.Kind() == types.String {
					for v := range backwardSlice(call.Call.Args[0], nil, nil) {
						if v == ssa.Value(pt.Params[3]) {
							splitter = call.Common().StaticCallee()
						}
					}
				}
			}
		})
		if splitter == nil {
			r.unest("fzf.parseTerms:tokenizer", pt.Pos(), pt, "the call that splits the query into terms", "not found")
			return
		}
		pc := pathConds(splitter)
		loops := natLoops(splitter)
		nb := 0
		eachInstr(splitter, func(in ssa.Instruction) {
			call, ok := in.(*ssa.Call)
			if !ok || calleeName(call.Common()) != "builtin.append" {
				return
			}
			if sl, ok := call.Type().Underlying().(*types.Slice); !ok || !types.Identical(sl.Elem(), types.Typ[types.String]) {
				return
			}
			inLoop := false
			for _, lp := range loops {
				if lp.body[in.Block()] {
					inLoop = true
				}
			}
			if !inLoop {
				return
			}
			nb++
			holds, _ := pc.Implies(in.Block(), func(lits []Lit) bool {
				return hasLit(lits, func(a ssa.Value, v bool) bool {
					b, ok := a.(*ssa.BinOp)
					if !ok {
						return false
					}
					k, isK := constIntVal(b.Y)
					return isK && k == '\\' && (b.Op == token.EQL || b.Op == token.NEQ)
				})
			})
			r.check(holds, fmt.Sprintf("%s:token boundary #%d is decided after the escape test", relName(splitter), nb), in.Pos(), splitter,
				"a space ends a term only where the byte was first tested against the backslash of `\\ `", "a term boundary is reached without testing for the escape: `foo\\ bar` is split into two terms")
		})
		r.floor("token boundaries inside the splitter's loop", nb, 1)
		return
	}
	if placeholder == "" || splitCall == nil {
		r.unest("fzf.parseTerms:tokenizer", pt.Pos(), pt, "escaped-space placeholder and the call that splits the query", "not found")
		return
	}
	ok := false
	why := ""
	switch calleeName(splitCall.Common()) {
	case "(*regexp.Regexp).Split":
		var pat string
		found := false
		for v := range backwardSlice(splitCall.Call.Args[0], nil, nil) {
			if g, isG := v.(*ssa.Global); isG {
				pat, found = globalPattern(l, g)
			}
		}
		if !found {
			why = "separator regexp is not a constant pattern"
			break
		}
		re, err := syntax.Parse(pat, syntax.Perl)
		if err != nil {
			why = err.Error()
			break
		}
		ok = true
		for _, ch := range placeholder {
			if regexAdmits(re, ch) {
				ok = false
				why = fmt.Sprintf("separator pattern %q also matches the placeholder %q", pat, placeholder)
			}
		}
	case "strings.Split", "strings.SplitN":
		sep, isc := constString(splitCall.Call.Args[1])
		ok = isc && !strings.Contains(sep, placeholder) && !strings.Contains(placeholder, sep)
		why = "the constant separator and the placeholder overlap"
	default:
		// strings.Fields splits on every Unicode space
		ok = true
		for _, ch := range placeholder {
			if ch == '\t' || ch == '\n' || ch == '\v' || ch == '\f' || ch == '\r' || ch == ' ' || ch == 0x85 || ch == 0xA0 {
				ok = false
				why = "strings.Fields splits on the placeholder character too"
			}
		}
	}
	r.check(ok, "fzf.parseTerms:separator excludes placeholder", splitCall.Pos(), pt, fmt.Sprintf("terms are split by %s; the placeholder %q for an escaped space is not a separator", calleeName(splitCall.Common()), placeholder), why)
}

// C08-R8: a change of the item count discards the whole merger cache.
func c08r8(c *Ctx, r *Report) {
	l := c.L
	r.rule("C08-R8", "A (must-pass-through)", "P1",
		"in Matcher.Loop, on the edge where the item count differs from the previous one (and the caches were not just cleared), every path to the scan passes `m.mergerCache = make(..)` — the whole map, because every cached merger was built over the shorter snapshot",
		"going back to an earlier query while input is still streaming shows the list cached before the new items arrived")
	mloop := l.Fn("fzf", "(*Matcher).Loop")
	scan := l.Fn("fzf", "(*Matcher).scan")
	countItems := l.Fn("fzf", "CountItems")
	fMC := l.Field("fzf", "Matcher", "mergerCache")
	if mloop == nil || scan == nil || countItems == nil || fMC == nil {
		r.unest("anchors", token.NoPos, nil, "anchors Matcher.Loop / scan / CountItems / Matcher.mergerCache", "cannot resolve")
		return
	}
	n := 0
	eachInstr(mloop, func(in ssa.Instruction) {
		ifi, ok := in.(*ssa.If)
		if !ok {
			return
		}
		atom, neg := normCond(ifi.Cond)
		b, ok := atom.(*ssa.BinOp)
		if !ok || (b.Op != token.EQL && b.Op != token.NEQ) {
			return
		}
		isCount := func(v ssa.Value) bool {
			call, ok := v.(*ssa.Call)
			return ok && call.Common().StaticCallee() == countItems
		}
		if !isCount(b.X) && !isCount(b.Y) {
			return
		}
		n++
		// the "differs" successor
		eqTrue := (b.Op == token.EQL) != neg
		diff := ifi.Block().Succs[1]
		if !eqTrue {
			diff = ifi.Block().Succs[0]
		}
		start := diff.Instrs[0]
		isReset := func(i ssa.Instruction) bool {
			st, ok := i.(*ssa.Store)
			if !ok {
				return false
			}
			fld, _ := fieldOf(st.Addr)
			_, isMake := st.Val.(*ssa.MakeMap)
			return fld == fMC && isMake
		}
		goal := ssa.Instruction(nil)
		if !isReset(start) {
			goal = pathAvoiding(start, func(i ssa.Instruction) bool { return staticCallee(i) == scan || isReturn(i) }, isReset, nil)
			// pathAvoiding starts after `start`; check start itself is not the goal
			if staticCallee(start) == scan {
				goal = start
			}
		}
		r.check(goal == nil, relName(mloop)+":count change resets mergerCache", in.Pos(), mloop, "a changed item count replaces the merger cache by an empty map before the next scan", "only part of the cache (or nothing) is invalidated: mergers built over the old snapshot stay reachable")
	})
	r.floor("item-count comparisons in Matcher.Loop", n, 1)
}

// C04-R7: the scheme's default criteria never replace an explicit --tiebreak.
func c04r7(c *Ctx, r *Report) {
	l := c.L
	r.rule("C04-R7", "A (path conditions)", "P1",
		"ParseOptions overwrites Options.Criteria with the scheme's default list only under len(opts.Criteria) == 0",
		"an explicit --tiebreak is silently discarded when the built-in walker is used (terminal on stdin)")
	po := l.Fn("fzf", "ParseOptions")
	fCrit := l.Field("fzf", "Options", "Criteria")
	if po == nil || fCrit == nil {
		r.unest("anchors", token.NoPos, nil, "anchors ParseOptions / Options.Criteria", "cannot resolve")
		return
	}
	pc := pathConds(po)
	n := 0
	eachInstr(po, func(in ssa.Instruction) {
		st, ok := in.(*ssa.Store)
		if !ok {
			return
		}
		if fld, _ := fieldOf(st.Addr); fld != fCrit {
			return
		}
		n++
		holds := pc.ImpliesDom(in.Block(), func(lits []Lit) bool {
			return hasLit(lits, func(a ssa.Value, v bool) bool {
				return intFact(a, v, 0, true, func(x ssa.Value) bool { return isLenOf(x, func(y ssa.Value) bool { return isLoadOf(y, fCrit) }) })
			})
		})
		r.check(holds, relName(po)+":default criteria only when unset", in.Pos(), po, "Options.Criteria is replaced by the scheme default only when no criteria were given", "an explicit --tiebreak can be overwritten")
	})
	r.floor("stores to Options.Criteria in ParseOptions", n, 1)
}

// cellByComment finds a captured local of fn by the variable name go/ssa records for it.
// (Used only where the variable has no distinguishing use; each use is listed in DESIGN §2.)
func cellOfArg(run *ssa.Function, callee *ssa.Function, argIdx int) ssa.Value {
	var cell ssa.Value
	for _, f := range withClosures(run) {
		eachInstr(f, func(in ssa.Instruction) {
			call, ok := in.(*ssa.Call)
			if !ok || call.Common().StaticCallee() != callee || argIdx >= len(call.Call.Args) {
				return
			}
			if u, ok := call.Call.Args[argIdx].(*ssa.UnOp); ok && u.Op == token.MUL {
				if a, ok := cellRoot(u.X).(*ssa.Alloc); ok {
					cell = a
				}
			}
		})
	}
	return cell
}

// C08-R9: replacing a non-empty deny list discards the pattern cache (patterns hold a copy of the list).
func c08r9(c *Ctx, r *Report) {
	l := c.L
	r.rule("C08-R9", "A (must-pass-through with guard)", "P1",
		"every closure of Run that replaces the exclusion list (`denylist = make(..)`) also replaces patternCache on the paths where the old list was non-empty; the two cells are found by use (the arguments of BuildPattern)",
		"after exclude + reload, cached Pattern objects keep their stale exclusion copy: the item that now has the excluded index never shows for that query")
	run := l.Fn("fzf", "Run")
	bp := l.Fn("fzf", "BuildPattern")
	if run == nil || bp == nil {
		r.unest("anchors", token.NoPos, nil, "anchors Run / BuildPattern", "cannot resolve")
		return
	}
	// BuildPattern(cache, patternCache, ..., denylist): parameter indexes by type
	pcIdx, dlIdx := -1, -1
	for i, p := range bp.Params {
		ts := p.Type().String()
		if strings.HasPrefix(ts, "map[string]*") && strings.HasSuffix(ts, ".Pattern") {
			pcIdx = i
		}
		if ts == "map[int32]struct{}" {
			dlIdx = i
		}
	}
	if pcIdx < 0 || dlIdx < 0 {
		r.unest("fzf.BuildPattern:params", bp.Pos(), bp, "patternCache / denylist parameters of BuildPattern", "not found")
		return
	}
	pcCell := cellOfArg(run, bp, pcIdx)
	// the deny list argument is a copy; the source cell is the map ranged over when building the copy
	var dlCell ssa.Value
	for _, f := range withClosures(run) {
		eachInstr(f, func(in ssa.Instruction) {
			call, ok := in.(*ssa.Call)
			if !ok || call.Common().StaticCallee() != bp {
				return
			}
			eachInstr(f, func(i2 ssa.Instruction) {
				rg, ok := i2.(*ssa.Range)
				if !ok {
					return
				}
				if u, ok := rg.X.(*ssa.UnOp); ok && u.Op == token.MUL && u.Type().String() == "map[int32]struct{}" {
					if a, ok := cellRoot(u.X).(*ssa.Alloc); ok {
						dlCell = a
					}
				}
			})
		})
	}
	if pcCell == nil || dlCell == nil {
		r.unest("fzf.Run:cells", run.Pos(), run, "the captured patternCache and denylist variables", "not found")
		return
	}
	n := 0
	for _, st := range storesToCell(dlCell) {
		if _, isMake := st.Val.(*ssa.MakeMap); !isMake {
			continue
		}
		g := st.Parent()
		if g == run {
			continue // the initialisation
		}
		n++
		entry := g.Blocks[0].Instrs[0]
		isPC := func(i ssa.Instruction) bool {
			s2, ok := i.(*ssa.Store)
			if !ok || cellRoot(s2.Addr) != pcCell {
				return false
			}
			_, isMake := s2.Val.(*ssa.MakeMap)
			return isMake
		}
		// do not follow the edge on which the old list is known to be empty
		edgeOK := func(from, to *ssa.BasicBlock) bool {
			ifi, ok := from.Instrs[len(from.Instrs)-1].(*ssa.If)
			if !ok {
				return true
			}
			atom, neg := normCond(ifi.Cond)
			isLenDL := func(x ssa.Value) bool {
				return isLenOf(x, func(y ssa.Value) bool {
					u, ok := y.(*ssa.UnOp)
					return ok && cellRoot(u.X) == dlCell
				})
			}
			truth := (to == from.Succs[0]) != neg
			if intFact(atom, truth, 0, true, isLenDL) {
				return false // empty list: nothing cached depends on it
			}
			return true
		}
		var goal ssa.Instruction
		if !isPC(entry) {
			goal = feasiblePathAvoiding(entry, func(i ssa.Instruction) bool { return i == ssa.Instruction(st) }, isPC, edgeOK)
			if goal == nil {
				// the reset may also come after the store
				goal = nil
			}
		}
		// accept a reset after the store as well
		if goal != nil {
			after := feasiblePathAvoiding(st, isReturn, isPC, nil)
			if after == nil {
				goal = nil
			}
		}
		r.check(goal == nil, relName(g)+":denylist replaced => patternCache reset", st.Pos(), g, "replacing a non-empty exclusion list also discards the cached patterns", "patterns built with the old exclusion list stay cached")
	}
	r.floor("closures replacing the exclusion list", n, 1)
}

// C08-R10 (shared with C09): the snapshot and the revision that tags it are updated together.
func c08r10(c *Ctx, r *Report) {
	l := c.L
	r.rule("C08-R10", "A (dominance / must-pass-through between paired stores)", "P1",
		"in the coordinator every assignment of the snapshot revision (the revision handed to Matcher.Reset) is dominated by an assignment of the snapshot itself in the same event branch, and every assignment of the snapshot is followed by one of its revision before the next Matcher.Reset",
		"an old item list is re-published under a new revision: the terminal treats it as the reloaded list (selection not cleared / cleared twice, cursor tracking off)")
	run := l.Fn("fzf", "Run")
	reset := l.Fn("fzf", "(*Matcher).Reset")
	if run == nil || reset == nil {
		r.unest("anchors", token.NoPos, nil, "anchors Run / Matcher.Reset", "cannot resolve")
		return
	}
	// Reset(chunks, patternRunes, cancel, final, sort, revision): receiver is Args[0]
	snapCell := cellOfArg(run, reset, 1)
	revCell := cellOfArg(run, reset, 6)
	if snapCell == nil || revCell == nil {
		r.unest("fzf.Run:cells", run.Pos(), run, "captured snapshot / snapshotRevision variables (arguments of Matcher.Reset)", "not found")
		return
	}
	n := 0
	for _, st := range storesToCell(revCell) {
		g := st.Parent()
		if g == run {
			continue
		}
		n++
		dom := false
		for _, s2 := range storesToCell(snapCell) {
			if s2.Parent() == g && dominates(s2, st) {
				// and in the same event branch: no Reset call between them
				between := false
				eachInstr(g, func(i ssa.Instruction) {
					if staticCallee(i) == reset && canReach(s2, i) && canReach(i, st) && !canReach(st, s2) {
						between = true
					}
				})
				if !between {
					dom = true
				}
			}
		}
		r.check(dom, fmt.Sprintf("%s:revision store at %s follows a snapshot store", relName(g), l.pos(st.Pos())), st.Pos(), g, "the snapshot revision is assigned only where the snapshot itself was (re)assigned", "revision advanced without taking the matching snapshot")
	}
	for _, s2 := range storesToCell(snapCell) {
		g := s2.Parent()
		if g == run {
			continue
		}
		n++
		goal := pathAvoiding(s2, func(i ssa.Instruction) bool { return staticCallee(i) == reset }, func(i ssa.Instruction) bool {
			st, ok := i.(*ssa.Store)
			return ok && cellRoot(st.Addr) == revCell
		}, nil)
		r.check(goal == nil, fmt.Sprintf("%s:snapshot store at %s is tagged", relName(g), l.pos(s2.Pos())), s2.Pos(), g, "a new snapshot gets its revision before it is handed to the matcher", "snapshot handed over with a stale revision")
	}
	r.floor("paired snapshot/revision stores in the coordinator", n, 4)
	_ = types.Typ
}

// C09-R5: the two word-motion helpers measure in the same unit (runes, the unit of the cursor).
func c09r5(c *Ctx, r *Report) {
	l := c.L
	r.rule("C09-R5", "E (sibling agreement on units)", "P1",
		"findFirstMatch and findLastMatch both return a rune count: every non-constant return value is len() of a []rune conversion (the cursor Terminal.cx indexes runes)",
		"forward-word / kill-word misplace the cursor (or slice out of range) on non-ASCII queries while backward-word works")
	n := 0
	for _, name := range []string{"findFirstMatch", "findLastMatch"} {
		f := l.Fn("fzf", name)
		if f == nil {
			r.unest("anchor "+name, token.NoPos, nil, "anchor "+name, "cannot resolve")
			continue
		}
		for _, b := range f.Blocks {
			ret, ok := b.Instrs[len(b.Instrs)-1].(*ssa.Return)
			if !ok {
				continue
			}
			v := retResult(ret, 0)
			if _, isc := v.(*ssa.Const); isc {
				continue
			}
			n++
			okU := false
			if call, ok := v.(*ssa.Call); ok && calleeName(call.Common()) == "builtin.len" {
				if sl, ok := call.Call.Args[0].Type().Underlying().(*types.Slice); ok {
					if bt, ok := sl.Elem().Underlying().(*types.Basic); ok && bt.Kind() == types.Int32 {
						okU = true
					}
				}
			}
			r.check(okU, "fzf."+name+":returns a rune count", ret.Pos(), f, name+" returns len([]rune(prefix))", "returns a byte offset (or another unit) while the cursor counts runes")
		}
	}
	r.floor("non-constant returns of the word-motion helpers", n, 2)
}

// C09-R6: pass-through FindIndex translates item ordinals with the list's first ordinal.
func c09r6(c *Ctx, r *Report) {
	l := c.L
	r.rule("C09-R6", "D (provenance)", "P1",
		"in Merger.FindIndex the pass-through index is computed from Merger.minIndex (the ordinal of the first listed item)",
		"after --tail trimmed the head of the list, --track moves the cursor to the wrong item or past the end")
	f := l.Fn("fzf", "(*Merger).FindIndex")
	fMin := l.Field("fzf", "Merger", "minIndex")
	fPass := l.Field("fzf", "Merger", "pass")
	if f == nil || fMin == nil || fPass == nil {
		r.unest("anchors", token.NoPos, nil, "anchors Merger.FindIndex / minIndex / pass", "cannot resolve")
		return
	}
	// the value returned on paths where mg.pass is true
	uses := false
	for _, b := range f.Blocks {
		ret, ok := b.Instrs[len(b.Instrs)-1].(*ssa.Return)
		if !ok {
			continue
		}
		for v := range backwardSlice(retResult(ret, 0), nil, nil) {
			if fld, _ := fieldOf(v); fld == fMin {
				uses = true
			}
		}
	}
	r.check(uses, "fzf.(*Merger).FindIndex:uses minIndex", f.Pos(), f, "the returned index depends on Merger.minIndex", "item ordinals are used as list positions without subtracting the first ordinal")
}

// C10-R4: field selection for output works on the original line.
func c10r4(c *Ctx, r *Report) {
	l := c.L
	r.rule("C10-R4", "D (provenance)", "P1",
		"Item.acceptNth and the {N} placeholder expansion tokenize the result of Item.AsString (the original record), never Item.text (which holds the --with-nth display text)",
		"--accept-nth / {N} pick fields of the transformed display text instead of the input line when --with-nth is used")
	asString := l.Fn("fzf", "(*Item).AsString")
	tokenize := l.Fn("fzf", "Tokenize")
	if asString == nil || tokenize == nil {
		r.unest("anchors", token.NoPos, nil, "anchors Item.AsString / Tokenize", "cannot resolve")
		return
	}
	n := 0
	for _, root := range []*ssa.Function{l.Fn("fzf", "(*Item).acceptNth"), l.Fn("fzf", "replacePlaceholder")} {
		if root == nil {
			r.unest("anchors consumers", token.NoPos, nil, "anchors acceptNth / replacePlaceholder", "cannot resolve")
			continue
		}
		for _, f := range withClosures(root) {
			eachInstr(f, func(in ssa.Instruction) {
				call, ok := in.(*ssa.Call)
				if !ok || call.Common().StaticCallee() != tokenize {
					return
				}
				n++
				fromAS, fromText := false, false
				for v := range backwardSlice(call.Call.Args[0], func(cc *ssa.CallCommon) bool { return cc.StaticCallee() != asString }, nil) {
					if c2, ok := v.(*ssa.Call); ok && c2.Common().StaticCallee() == asString {
						fromAS = true
					}
					if fld, base := fieldOf(v); fld != nil && fld.Name() == "text" {
						if nn, ok := deref(base.Type()).(*types.Named); ok && nn.Obj().Name() == "Item" {
							fromText = true
						}
					}
				}
				r.check(fromAS && !fromText, relName(f)+":tokenizes the original line", in.Pos(), f, "Tokenize is applied to Item.AsString(..)", "tokenizes Item.text (display text) or something else")
			})
		}
	}
	r.floor("Tokenize calls in acceptNth / placeholder expansion", n, 2)
}

// C13-R6: Snapshot never writes through a chunk that older snapshots may share.
func c13r6(c *Ctx, r *Report) {
	l := c.L
	r.rule("C13-R6", "B (writer census inside Snapshot)", "P1",
		"every store into a Chunk (items, count) made by ChunkList.Snapshot goes to a chunk allocated in that call (a private copy); chunks already in the list are never modified in place",
		"an earlier snapshot still being searched sees its items shift or vanish when --tail trims the list")
	snap := l.Fn("fzf", "(*ChunkList).Snapshot")
	chunkT := l.Named("fzf", "Chunk")
	if snap == nil || chunkT == nil {
		r.unest("anchors", token.NoPos, nil, "anchors ChunkList.Snapshot / Chunk", "cannot resolve")
		return
	}
	n := 0
	eachInstr(snap, func(in ssa.Instruction) {
		st, ok := in.(*ssa.Store)
		if !ok {
			return
		}
		// is the address inside a Chunk?
		addr := st.Addr
		inChunk := false
		var base ssa.Value
		for i := 0; i < 6; i++ {
			switch x := addr.(type) {
			case *ssa.FieldAddr:
				if nn, ok := deref(x.X.Type()).(*types.Named); ok && nn.Obj() == chunkT.Obj() {
					inChunk = true
					base = x.X
				}
				addr = x.X
				continue
			case *ssa.IndexAddr:
				addr = x.X
				continue
			}
			break
		}
		if !inChunk {
			// whole-chunk store `*p = chunk`
			if nn, ok := deref(st.Addr.Type()).(*types.Named); ok && nn.Obj() == chunkT.Obj() {
				inChunk, base = true, st.Addr
			}
		}
		if !inChunk {
			return
		}
		n++
		_, isLocal := base.(*ssa.Alloc)
		r.check(isLocal, fmt.Sprintf("%s:chunk store at %s", relName(snap), l.pos(st.Pos())), st.Pos(), snap, "Snapshot writes into a chunk it allocated itself", "writes through a chunk pointer that is (or was) part of the shared list")
	})
	r.floor("chunk stores in Snapshot", n, 3)
}

// C14 additions: queued output is flushed; timeouts agree; group kill uses SIGKILL.
func c14round2(c *Ctx, r *Report) {
	l := c.L
	r.rule("C14-R6", "A (must-pass-through)", "P1",
		"in LightRenderer.Close and Pause every call that queues terminal output (csi / stderr / helpers that reach them) is followed on every path to return by a call that flushes the queue (flush / flushRaw)",
		"the mode-reset bytes (e.g. show cursor) are queued but never written: the terminal keeps the mode after exit")
	queue := l.Fn("tui", "(*LightRenderer).stderrInternal")
	flushRaw := l.Fn("tui", "(*LightRenderer).flushRaw")
	if queue == nil || flushRaw == nil {
		r.unest("anchors", token.NoPos, nil, "anchors stderrInternal / flushRaw", "cannot resolve")
	} else {
		reaches := func(target *ssa.Function) map[*ssa.Function]bool {
			m := map[*ssa.Function]bool{target: true}
			for changed := true; changed; {
				changed = false
				for _, f := range l.AllFuncs() {
					if m[f] || f.Pkg != l.pkg("tui") {
						continue
					}
					eachInstr(f, func(in ssa.Instruction) {
						if g := staticCallee(in); g != nil && m[g] && !m[f] {
							m[f] = true
							changed = true
						}
					})
				}
			}
			return m
		}
		queues := reaches(queue)
		flushes := reaches(flushRaw)
		n := 0
		for _, name := range []string{"(*LightRenderer).Close", "(*LightRenderer).Pause"} {
			f := l.Fn("tui", name)
			if f == nil {
				continue
			}
			eachInstr(f, func(in ssa.Instruction) {
				g := staticCallee(in)
				if g == nil || !queues[g] {
					return
				}
				// a callee that queues and then flushes itself (rmcup/smcup: flush + flushRaw) is fine on its own
				n++
				goal := pathAvoiding(in, isReturn, func(i ssa.Instruction) bool {
					h := staticCallee(i)
					return h != nil && flushes[h]
				}, nil)
				selfFlush := flushes[g] && !queuesAfterFlush(g, queues, flushes)
				if f.Name() == "Pause" && !(goal == nil || selfFlush) {
					// Pause(false) (type-ahead during a slow background command) is not an exit path: reported, not judged
					r.info(fmt.Sprintf("tui.%s:%s not flushed when clear=false", f.Name(), g.Name()), in.Pos(), f, "reported, not judged (outside the property: not an exit path): Pause(false) queues the mode resets without flushing; they are written after Resume(false), which does not re-enable them")
					return
				}
				r.check(goal == nil || selfFlush, fmt.Sprintf("tui.%s:%s flushed", f.Name(), g.Name()), in.Pos(), f, "output queued by "+g.Name()+" is flushed before "+f.Name()+" returns", "queued after the last flush: never written")
			})
		}
		r.floor("queueing calls in Close/Pause", n, 4)
	}

	r.rule("C14-R7", "H (constant agreement) + E", "P1",
		"util.KillCommand signals the negated pid (the process group) with SIGKILL; the bounded wait in Terminal.killPreview is at least the watcher's graceful-cancel delay (both previewCancelWait)",
		"a preview command that traps TERM survives; or the exit path gives up before the watcher's delayed kill has fired and the child (and its {f} temp file) outlive fzf")
	kc := l.Fn("util", "KillCommand")
	if kc == nil {
		r.unest("anchor KillCommand", token.NoPos, nil, "anchor util.KillCommand", "cannot resolve")
	} else {
		okSig, okNeg := false, false
		eachInstr(kc, func(in ssa.Instruction) {
			cc, ok := isCall(in, "syscall.Kill")
			if !ok {
				return
			}
			if k, isc := constIntVal(cc.Args[1]); isc && k == 9 {
				okSig = true
			}
			if u, ok := cc.Args[0].(*ssa.UnOp); ok && u.Op == token.SUB {
				okNeg = true
			}
		})
		r.check(okSig, "util.KillCommand:SIGKILL", kc.Pos(), kc, "the group is killed with SIGKILL (cannot be trapped)", "a catchable signal is sent")
		r.check(okNeg, "util.KillCommand:process group", kc.Pos(), kc, "the signal goes to -pid (the whole process group)", "only the shell is signalled, its children survive")
	}
	kp := l.Fn("fzf", "(*Terminal).killPreview")
	loop := l.Fn("fzf", "(*Terminal).Loop")
	pcw, okc := constOf(l, "fzf", "previewCancelWait")
	if kp == nil || loop == nil || !okc {
		r.unest("anchors killPreview", token.NoPos, nil, "anchors killPreview / Loop / previewCancelWait", "cannot resolve")
	} else {
		exitWait := int64(-1)
		eachInstr(kp, func(in ssa.Instruction) {
			if cc, ok := isCall(in, "time.After"); ok {
				if k, isc := constIntVal(cc.Args[0]); isc {
					exitWait = k
				}
			}
		})
		// the watcher's delayed kill: time.NewTimer(delay) in a closure of Loop that calls util.KillCommand
		maxDelay := int64(-1)
		for _, f := range withClosures(loop) {
			if !containsCallTo(f, kc) {
				continue
			}
			eachInstr(f, func(in ssa.Instruction) {
				cc, ok := isCall(in, "time.NewTimer")
				if !ok {
					return
				}
				for v := range backwardSlice(cc.Args[0], nil, nil) {
					if k, isc := constIntVal(v); isc {
						if _, isConst := v.(*ssa.Const); isConst && k > maxDelay && k <= pcw*10 && inSameSelectAsKill(in) {
							maxDelay = k
						}
					}
				}
			})
		}
		r.check(exitWait >= 0 && maxDelay >= 0 && exitWait >= maxDelay, "fzf.killPreview:wait covers the watcher's delay", kp.Pos(), kp,
			fmt.Sprintf("exit waits up to %d ns for the preview to be gone; the watcher kills a cancelled preview after at most %d ns", exitWait, maxDelay),
			fmt.Sprintf("exit gives up after %d ns but the watcher may kill only after %d ns", exitWait, maxDelay))
	}
}

func queuesAfterFlush(g *ssa.Function, queues, flushes map[*ssa.Function]bool) bool {
	// does g queue something after its last flush?
	bad := false
	eachInstr(g, func(in ssa.Instruction) {
		h := staticCallee(in)
		if h == nil || !queues[h] || flushes[h] {
			return
		}
		if pathAvoiding(in, isReturn, func(i ssa.Instruction) bool {
			k := staticCallee(i)
			return k != nil && flushes[k]
		}, nil) != nil {
			bad = true
		}
	})
	return bad
}

// inSameSelectAsKill: the timer is the one armed for the delayed kill (its block is followed by a select that can call KillCommand).
func inSameSelectAsKill(in ssa.Instruction) bool {
	found := false
	for b := range reachFrom(in.Block()) {
		for _, i := range b.Instrs {
			if cc, ok := isCall(i, modPath+"/src/util.KillCommand"); ok {
				_ = cc
				found = true
			}
		}
	}
	return found
}

// C16 additions.
func c16round2(c *Ctx, r *Report) {
	l := c.L
	r.rule("C16-R7", "A (dominance)", "P1",
		"in the GET handler (*Terminal).dumpStatus every read of Terminal state (field loads other than the mutex, and calls of Terminal methods) is dominated by the successful tryLock",
		"a GET arriving while the UI loop rewrites the selection map crashes fzf with a concurrent map iteration/write")
	dump := l.Fn("fzf", "(*Terminal).dumpStatus")
	tryLock := l.Fn("fzf", "(*Terminal).tryLock")
	term := l.Named("fzf", "Terminal")
	if dump == nil || tryLock == nil || term == nil {
		r.unest("anchors", token.NoPos, nil, "anchors dumpStatus / tryLock / Terminal", "cannot resolve")
	} else {
		var lockIf *ssa.If
		var okBlock *ssa.BasicBlock
		eachInstr(dump, func(in ssa.Instruction) {
			ifi, ok := in.(*ssa.If)
			if !ok {
				return
			}
			atom, neg := normCond(ifi.Cond)
			if call, ok := atom.(*ssa.Call); ok && call.Common().StaticCallee() == tryLock {
				lockIf = ifi
				okBlock = ifi.Block().Succs[0]
				if neg {
					okBlock = ifi.Block().Succs[1]
				}
			}
		})
		if lockIf == nil {
			r.unest("fzf.dumpStatus:tryLock", dump.Pos(), dump, "branch on tryLock()", "not found")
		} else {
			n := 0
			eachInstr(dump, func(in ssa.Instruction) {
				what := ""
				switch x := in.(type) {
				case *ssa.FieldAddr:
					if nn, ok := deref(x.X.Type()).(*types.Named); ok && nn.Obj() == term.Obj() {
						fld, _ := fieldOf(x)
						if fld.Name() != "mutex" {
							what = "Terminal." + fld.Name()
						}
					}
				case *ssa.Call:
					if g := x.Common().StaticCallee(); g != nil && g != tryLock && g.Signature.Recv() != nil && strings.HasSuffix(g.Signature.Recv().Type().String(), ".Terminal") {
						what = g.Name() + "()"
					}
				}
				if what == "" {
					return
				}
				n++
				r.check(edgeDominates(lockIf.Block(), okBlock, in.Block()), "fzf.dumpStatus:"+what+" under lock", in.Pos(), dump, what+" is read after tryLock succeeded", "read before (or without) the lock")
			})
			r.floor("Terminal reads in dumpStatus", n, 8)
		}
	}

	r.rule("C16-R8", "B (value census)", "P1",
		"Options.Unsafe is assigned from the spelling of the option on every occurrence of --listen / --listen-unsafe: its stores are non-constant, or constants of both polarities exist",
		"a --listen-unsafe from an earlier layer sticks after a later plain --listen: remote clients may run commands")
	fUnsafe := l.Field("fzf", "Options", "Unsafe")
	pos := l.Fn("fzf", "parseOptions")
	if fUnsafe == nil || pos == nil {
		r.unest("anchors Unsafe", token.NoPos, nil, "anchors Options.Unsafe / parseOptions", "cannot resolve")
		return
	}
	fAddr := l.Field("fzf", "Options", "ListenAddr")
	n := 0
	eachInstr(pos, func(in ssa.Instruction) {
		st, ok := in.(*ssa.Store)
		if !ok {
			return
		}
		if fld, _ := fieldOf(st.Addr); fld != fAddr {
			return
		}
		n++
		// every path from a (re)definition of the listen address to the next option / return stores Unsafe
		goal := pathAvoiding(st, func(i ssa.Instruction) bool {
			if isReturn(i) {
				return true
			}
			// the loop condition `i < len(allArgs)`: next option
			b, ok := i.(*ssa.BinOp)
			if !ok || b.Op != token.LSS {
				return false
			}
			call, ok := b.Y.(*ssa.Call)
			return ok && calleeName(call.Common()) == "builtin.len"
		}, func(i ssa.Instruction) bool {
			s2, ok := i.(*ssa.Store)
			if !ok {
				return false
			}
			fld, _ := fieldOf(s2.Addr)
			return fld == fUnsafe
		}, nil)
		r.check(goal == nil, fmt.Sprintf("fzf.parseOptions:Unsafe assigned with ListenAddr (%s)", l.pos(st.Pos())), st.Pos(), pos, "every occurrence of a --listen* option (re)assigns Options.Unsafe together with Options.ListenAddr", "the flag can only be switched on: a later --listen does not revoke --listen-unsafe")
	})
	r.floor("assignments of Options.ListenAddr in parseOptions", n, 2)
}

// C17-R9: package-level state written by an option helper is rewritten on every successful path.
func c17r9(c *Ctx, r *Report) {
	l := c.L
	r.rule("C17-R9", "A (must-pass-through)", "P1",
		"a function reachable from parseOptions that assigns a package-level variable of package fzf assigns it on every path to a successful return (so a later occurrence of the option fully overrides an earlier one)",
		"`--style full:double --style minimal` keeps the border shape of the overridden preset (last-one-wins broken through hidden global state)")
	pos := l.Fn("fzf", "parseOptions")
	if pos == nil {
		r.unest("anchors", token.NoPos, nil, "anchor parseOptions", "cannot resolve")
		return
	}
	fzfPkg := l.pkg("fzf")
	scope := map[*ssa.Function]bool{}
	var visit func(f *ssa.Function)
	visit = func(f *ssa.Function) {
		if f == nil || scope[f] || f.Blocks == nil || f.Pkg != fzfPkg {
			return
		}
		scope[f] = true
		for _, a := range f.AnonFuncs {
			visit(a)
		}
		eachInstr(f, func(in ssa.Instruction) {
			if ci, ok := in.(ssa.CallInstruction); ok {
				if fs, ok := calleesOf(ci.Common()); ok {
					for _, g := range fs {
						visit(g)
					}
				}
			}
		})
	}
	visit(pos)
	n := 0
	for f := range scope {
		if f == pos || f.Parent() != nil {
			continue // judged for helper functions, whose exits are well defined
		}
		globals := map[*ssa.Global]bool{}
		eachInstr(f, func(in ssa.Instruction) {
			if st, ok := in.(*ssa.Store); ok {
				if g, ok := st.Addr.(*ssa.Global); ok && g.Pkg == fzfPkg {
					globals[g] = true
				}
			}
		})
		for g := range globals {
			gg := g
			n++
			entry := f.Blocks[0].Instrs[0]
			isStore := func(i ssa.Instruction) bool {
				st, ok := i.(*ssa.Store)
				return ok && st.Addr == ssa.Value(gg)
			}
			okRet := func(i ssa.Instruction) bool {
				ret, ok := i.(*ssa.Return)
				if !ok {
					return false
				}
				// successful return: last result is a nil error (or there is no error result)
				if len(ret.Results) == 0 {
					return true
				}
				last := retResult(ret, len(ret.Results)-1)
				if !isErrorType(last.Type()) {
					return true
				}
				cn, isc := last.(*ssa.Const)
				return isc && cn.IsNil()
			}
			var goal ssa.Instruction
			if !isStore(entry) {
				goal = pathAvoiding(entry, okRet, isStore, nil)
			}
			r.check(goal == nil, fmt.Sprintf("%s:global %s reassigned on every successful path", relName(f), g.Name()), f.Pos(), f, fmt.Sprintf("%s is (re)assigned whenever %s succeeds", g.Name(), f.Name()), "a successful call can leave the value of an earlier call in place")
		}
	}
	r.floor("package-level variables written by option helpers", n, 1)
}

// C20 additions.
func c20round2(c *Ctx, r *Report) {
	l := c.L
	r.rule("C20-R7", "B (channel capacity vs. send/receive shape)", "P1",
		"a channel local to the previewer goroutine on which the previewer itself performs a plain (non-select) send while its receivers only receive inside select arms (and can leave without receiving) is buffered",
		"after the watcher has killed a preview the previewer blocks forever on that send: no later preview ever runs")
	loop := l.Fn("fzf", "(*Terminal).Loop")
	if loop == nil {
		r.unest("anchors", token.NoPos, nil, "anchor Terminal.Loop", "cannot resolve")
		return
	}
	n := 0
	for _, prev := range withClosures(loop) {
		if prev.Parent() != loop {
			continue
		}
		eachInstr(prev, func(in ssa.Instruction) {
			snd, ok := in.(*ssa.Send)
			if !ok {
				return
			}
			cell, ok := cellRoot(addrOfChan(snd.Chan)).(*ssa.Alloc)
			if !ok || cell.Parent() != prev {
				return
			}
			// receivers: only select arms in nested goroutines?
			plainRecv := false
			for _, g := range withClosures(prev) {
				eachInstr(g, func(i2 ssa.Instruction) {
					if u, ok := i2.(*ssa.UnOp); ok && u.Op == token.ARROW && cellRoot(addrOfChan(u.X)) == ssa.Value(cell) {
						plainRecv = true
					}
				})
			}
			if plainRecv {
				return
			}
			n++
			buffered := false
			for _, st := range storesToCell(cell) {
				if mc, ok := st.Val.(*ssa.MakeChan); ok {
					if k, isc := constIntVal(mc.Size); isc && k >= 1 {
						buffered = true
					}
				}
			}
			r.check(buffered, fmt.Sprintf("%s:channel %s buffered", relName(prev), cell.Comment), snd.Pos(), prev, "`"+cell.Comment+"` (plain send, select-only receivers) has capacity >= 1", "unbuffered: the send blocks forever once the receiver has left its select")
		})
	}
	r.floor("plain sends of the previewer on select-only channels", n, 1)

	r.rule("C20-R8", "A (guard purity)", "P1",
		"Terminal.UpdateList bumps Terminal.version whenever the list revision changed: the increment inside the revision-change branch is not under any further condition",
		"after a reload (items renumbered from 0) the preview keeps showing the line that is gone unless something else happens to bump the version")
	ul := l.Fn("fzf", "(*Terminal).UpdateList")
	fVer := l.Field("fzf", "Terminal", "version")
	fRev := l.Field("fzf", "Terminal", "revision")
	if ul == nil || fVer == nil || fRev == nil {
		r.unest("anchors UpdateList", token.NoPos, nil, "anchors UpdateList / Terminal.version / revision", "cannot resolve")
		return
	}
	pc := pathConds(ul)
	m := 0
	eachInstr(ul, func(in ssa.Instruction) {
		st, ok := in.(*ssa.Store)
		if !ok {
			return
		}
		if fld, _ := fieldOf(st.Addr); fld != fVer {
			return
		}
		m++
		pure := onlyGuards(pc, st.Block(), func(a ssa.Value) bool {
			// allowed: the comparison of the stored revision with the merger's
			b, ok := a.(*ssa.BinOp)
			if !ok {
				return false
			}
			return isLoadOf(b.X, fRev) || isLoadOf(b.Y, fRev)
		})
		r.check(pure, "fzf.UpdateList:version bump on revision change", st.Pos(), ul, "version++ is conditional only on the revision having changed", "the bump is skipped under an additional condition")
	})
	r.floor("version bumps in UpdateList", m, 1)
}

// C06 additions: restart discipline.
func c06round2(c *Ctx, r *Report) {
	l := c.L
	r.rule("C06-R4", "A (must-pass-through) + B", "P1",
		"the coordinator's restart closure — the one that calls ChunkList.Clear — on every path also resets the running ordinal to 0, re-creates the header list and bumps the major revision",
		"after reload-sync the first records of the new stream are treated as header lines again (or not), indices shift")
	run := l.Fn("fzf", "Run")
	clear := l.Fn("fzf", "(*ChunkList).Clear")
	bumpMajor := l.Fn("fzf", "(*revision).bumpMajor")
	newCL := l.Fn("fzf", "NewChunkList")
	if run == nil || clear == nil || bumpMajor == nil || newCL == nil {
		r.unest("anchors", token.NoPos, nil, "anchors Run / ChunkList.Clear / bumpMajor / NewChunkList", "cannot resolve")
		return
	}
	// ordinal and header cells: found by use inside the item builders
	var ordinal, header ssa.Value
	eachInstr(run, func(in ssa.Instruction) {
		call, ok := in.(*ssa.Call)
		if !ok || call.Common().StaticCallee() != newCL {
			return
		}
		fs, _ := resolveFuncs(call.Call.Args[1])
		for _, b := range fs {
			eachInstr(b, func(i ssa.Instruction) {
				st, ok := i.(*ssa.Store)
				if !ok {
					return
				}
				if fld, _ := fieldOf(st.Addr); fld != nil && fld.Name() == "Index" {
					if u, ok := st.Val.(*ssa.UnOp); ok {
						ordinal = cellRoot(u.X)
					}
				}
				// header = append(header, ...)
				if call, ok := st.Val.(*ssa.Call); ok && calleeName(call.Common()) == "builtin.append" {
					if a, ok := cellRoot(st.Addr).(*ssa.Alloc); ok && a.Parent() == run && strings.HasPrefix(a.Type().String(), "*[]string") {
						header = a
					}
				}
			})
		}
	})
	if ordinal == nil || header == nil {
		r.unest("fzf.Run:stream state", run.Pos(), run, "the captured ordinal and header variables (found through the item builders)", "not found")
		return
	}
	var restart *ssa.Function
	for _, f := range withClosures(run) {
		if f.Parent() == run && containsCallTo(f, clear) {
			restart = f
		}
	}
	if restart == nil {
		r.unest("fzf.Run:restart", run.Pos(), run, "the closure that clears the chunk list", "not found")
		return
	}
	entry := restart.Blocks[0].Instrs[0]
	for _, need := range []struct {
		name string
		is   func(ssa.Instruction) bool
	}{
		{"ordinal = 0", func(i ssa.Instruction) bool {
			st, ok := i.(*ssa.Store)
			return ok && cellRoot(st.Addr) == ordinal && isConstInt(st.Val, 0)
		}},
		{"header = fresh list", func(i ssa.Instruction) bool {
			st, ok := i.(*ssa.Store)
			if !ok || cellRoot(st.Addr) != header {
				return false
			}
			_, isMake := st.Val.(*ssa.MakeSlice)
			return isMake
		}},
		{"ChunkList.Clear()", func(i ssa.Instruction) bool { return staticCallee(i) == clear }},
		{"revision.bumpMajor()", func(i ssa.Instruction) bool { return staticCallee(i) == bumpMajor }},
	} {
		var goal ssa.Instruction
		if !need.is(entry) {
			goal = pathAvoiding(entry, isReturn, need.is, nil)
		}
		r.check(goal == nil, relName(restart)+":"+need.name, restart.Pos(), restart, "every path of restart passes "+need.name, "a restart can keep part of the previous stream's state")
	}

	r.rule("C06-R5", "A (path conditions)", "P1",
		"restart is called only when the previous reader has finished: under `reading == false` or while handling EvtReadFin",
		"records still buffered by the killed reader are pushed after the list was cleared: old-stream records sit in the new list with indices 0..")
	// the `reading` cell: the bool cell restart stores true into
	var reading ssa.Value
	eachInstr(restart, func(in ssa.Instruction) {
		if st, ok := in.(*ssa.Store); ok {
			if cb, isc := constBool(st.Val); isc && cb {
				if a, ok := cellRoot(st.Addr).(*ssa.Alloc); ok && a.Parent() == run {
					reading = a
				}
			}
		}
	})
	finV, okf := constInt(l.Const("fzf", "EvtReadFin"))
	if reading == nil || !okf {
		r.unest("fzf.Run:reading flag", run.Pos(), run, "the captured `reading` flag (set to true by restart) / EvtReadFin", "not found")
		return
	}
	n := 0
	for _, f := range withClosures(run) {
		var pc *PathConds
		eachInstr(f, func(in ssa.Instruction) {
			ci, ok := in.(ssa.CallInstruction)
			if !ok {
				return
			}
			fs, ok2 := calleesOf(ci.Common())
			if !ok2 || len(fs) != 1 || fs[0] != restart {
				return
			}
			n++
			if pc == nil {
				pc = pathConds(f)
			}
			holds := pc.ImpliesDom(in.Block(), func(lits []Lit) bool {
				return hasLit(lits, func(a ssa.Value, v bool) bool {
					if u, ok := a.(*ssa.UnOp); ok && u.Op == token.MUL && cellRoot(u.X) == reading && !v {
						return true
					}
					_, op, k, ok := cmpInt(a)
					return ok && k == finV && ((op == token.EQL && v) || (op == token.NEQ && !v))
				})
			})
			r.check(holds, fmt.Sprintf("%s:restart call at %s", relName(f), l.pos(in.Pos())), in.Pos(), f, "restart runs only after the previous reader finished (reading == false or EvtReadFin)", "restart can run while the old reader is still pushing records")
		})
	}
	r.floor("calls of restart", n, 2)
}

// C12 additions.
func c12round2(c *Ctx, r *Report) {
	l := c.L
	r.rule("C12-R4", "E (regexp/syntax shape of a constant pattern)", "P1",
		"the pattern that admits an environment variable NAME into the re-launch script is anchored at both ends and admits identifier characters only",
		"a variable whose name merely starts like an identifier (`A;touch F;B`) is written into the script and executed")
	rpx := l.Fn("fzf", "runProxy")
	if rpx == nil {
		r.unest("anchors", token.NoPos, nil, "anchor runProxy", "cannot resolve")
	} else {
		n := 0
		eachInstr(rpx, func(in ssa.Instruction) {
			cc, ok := isCall(in, "(*regexp.Regexp).MatchString")
			if !ok {
				return
			}
			// the receiver: a MustCompile(const) call or a package-level regexp
			pat, found := "", false
			for v := range backwardSlice(cc.Args[0], nil, nil) {
				switch x := v.(type) {
				case *ssa.Call:
					nm := calleeName(x.Common())
					if nm == "regexp.MustCompile" || nm == "regexp.Compile" {
						if s, ok := constString(x.Call.Args[0]); ok {
							pat, found = s, true
						}
					}
				case *ssa.Global:
					if s, ok := globalPattern(l, x); ok {
						pat, found = s, true
					}
				}
			}
			n++
			if !found {
				r.unest("fzf.runProxy:name pattern", in.Pos(), rpx, "constant pattern of the environment-name filter", "not a constant")
				return
			}
			re, err := syntax.Parse(pat, syntax.Perl)
			if err != nil {
				r.unest("fzf.runProxy:name pattern", in.Pos(), rpx, "pattern parses", err.Error())
				return
			}
			re = re.Simplify()
			anchored := false
			if re.Op == syntax.OpConcat && len(re.Sub) >= 2 {
				first, last := re.Sub[0], re.Sub[len(re.Sub)-1]
				anchored = (first.Op == syntax.OpBeginText || first.Op == syntax.OpBeginLine && false) && (last.Op == syntax.OpEndText)
			}
			clean := true
			for _, ch := range " \t\n;$`'\"\\|&()<>*?[]{}!#~=%.-+,:/" {
				if regexAdmits(re, ch) {
					clean = false
				}
			}
			r.check(anchored && clean, "fzf.runProxy:name pattern", in.Pos(), rpx, fmt.Sprintf("environment names are filtered by the full-match identifier pattern %q", pat), fmt.Sprintf("pattern %q is not anchored at both ends or admits shell metacharacters", pat))
		})
		r.floor("environment-name filters in runProxy", n, 1)
	}

	r.rule("C12-R5", "B (writer census over the call graph)", "P1",
		"no function reachable from replacePlaceholder stores to a package-level variable: the expansion runs concurrently in the previewer goroutine and in the event loop and must be re-entrant",
		"words of two concurrent expansions mix: an item meant for the preview lands in an execute command line (or vice versa)")
	rp := l.Fn("fzf", "replacePlaceholder")
	if rp == nil {
		r.unest("anchors rp", token.NoPos, nil, "anchor replacePlaceholder", "cannot resolve")
		return
	}
	reach := map[*ssa.Function]bool{}
	var visit func(f *ssa.Function)
	visit = func(f *ssa.Function) {
		if f == nil || reach[f] || f.Blocks == nil || f.Pkg == nil || !isModulePkg(f.Pkg.Pkg) {
			return
		}
		reach[f] = true
		for _, a := range f.AnonFuncs {
			visit(a)
		}
		eachInstr(f, func(in ssa.Instruction) {
			if ci, ok := in.(ssa.CallInstruction); ok {
				if fs, ok := calleesOf(ci.Common()); ok {
					for _, g := range fs {
						visit(g)
					}
				}
			}
		})
	}
	visit(rp)
	nf, bad := 0, 0
	for f := range reach {
		nf++
		r.analysed(f)
		eachInstr(f, func(in ssa.Instruction) {
			st, ok := in.(*ssa.Store)
			if !ok {
				return
			}
			root := st.Addr
			for i := 0; i < 6; i++ {
				switch x := root.(type) {
				case *ssa.FieldAddr:
					root = x.X
					continue
				case *ssa.IndexAddr:
					root = x.X
					if u, ok := root.(*ssa.UnOp); ok && u.Op == token.MUL {
						root = u.X
					}
					continue
				}
				break
			}
			if g, ok := root.(*ssa.Global); ok && g.Pkg != nil && isModulePkg(g.Pkg.Pkg) {
				bad++
				r.bad(relName(f)+":store to package-level "+g.Name(), st.Pos(), f, "write to package-level variable "+g.Name()+" during placeholder expansion", "not re-entrant: the previewer and the event loop expand templates concurrently")
			}
		})
	}
	if bad == 0 {
		r.ok("fzf.replacePlaceholder:re-entrant", rp.Pos(), rp, fmt.Sprintf("%d functions reachable from replacePlaceholder write no package-level state", nf))
	}
	r.floor("functions reachable from replacePlaceholder", nf, 8)
}

// C17-R10: an option value is assigned or rejected, never silently ignored.
func c17r10(c *Ctx, r *Report) {
	l := c.L
	r.rule("C17-R10", "A (path conditions + must-pass-through)", "P1",
		"in parseOptions, a store of a parsed option value into a field of opts is not skipped silently: if the store sits under a condition on the parsed value itself, the other edge of that condition leads to an error return (validation), not back to the option loop",
		"`--opt ''` (or another value of a particular shape) keeps the value from an earlier layer instead of overriding it: last-one-wins broken without any message")
	pos := l.Fn("fzf", "parseOptions")
	if pos == nil {
		r.unest("anchors", token.NoPos, nil, "anchor parseOptions", "cannot resolve")
		return
	}
	var optsParam *ssa.Parameter
	for _, p := range pos.Params {
		if strings.HasSuffix(p.Type().String(), ".Options") {
			optsParam = p
		}
	}
	pc := pathConds(pos)
	isLoopCond := func(i ssa.Instruction) bool {
		b, ok := i.(*ssa.BinOp)
		if !ok || b.Op != token.LSS {
			return false
		}
		call, ok := b.Y.(*ssa.Call)
		return ok && calleeName(call.Common()) == "builtin.len"
	}
	n, judged := 0, 0
	eachInstr(pos, func(in ssa.Instruction) {
		st, ok := in.(*ssa.Store)
		if !ok {
			return
		}
		fa, ok := st.Addr.(*ssa.FieldAddr)
		if !ok {
			return
		}
		// opts.<field>
		root := fa.X
		if u, ok := root.(*ssa.UnOp); ok && u.Op == token.MUL {
			isOpts := false
			for _, s0 := range storesToCell(cellRoot(u.X)) {
				if s0.Val == ssa.Value(optsParam) {
					isOpts = true
				}
			}
			if !isOpts {
				return
			}
		} else if root != ssa.Value(optsParam) {
			return
		}
		// the value derives from a call result in this function (parsed argument)
		vs := backwardSlice(st.Val, func(*ssa.CallCommon) bool { return true }, nil)
		var calls []ssa.Value
		for v := range vs {
			call, ok := v.(*ssa.Call)
			if !ok {
				continue
			}
			// the calls that fetch the option's argument: closures of parseOptions (nextString, nextInt, ...)
			fs, _ := calleesOf(call.Common())
			for _, g := range fs {
				if g.Parent() != nil && rootFn(g) == pos {
					calls = append(calls, v)
				}
			}
		}
		if len(calls) == 0 {
			return
		}
		n++
		ds := pc.At(st.Block())
		if len(ds) == 0 {
			return
		}
		// common literals
		for _, lt := range ds[0] {
			common := true
			for _, d := range ds[1:] {
				has := false
				for _, l2 := range d {
					if l2.Atom == lt.Atom && l2.Val == lt.Val {
						has = true
					}
				}
				if !has {
					common = false
				}
			}
			if !common {
				continue
			}
			// value-dependent? the atom shares a call result with the stored value (other than error tests / string compares of arg)
			dep := false
			if b, ok := lt.Atom.(*ssa.BinOp); ok {
				if cn, isc := b.Y.(*ssa.Const); isc && cn.IsNil() && isErrorType(b.X.Type()) {
					continue // err != nil handling
				}
			}
			for v := range backwardSlice(lt.Atom, func(*ssa.CallCommon) bool { return true }, nil) {
				for _, cv := range calls {
					if v == cv {
						dep = true
					}
				}
			}
			if !dep {
				continue
			}
			// find the If on this atom that dominates the store, and its other edge
			var ifi *ssa.If
			var other *ssa.BasicBlock
			for dblk := st.Block(); dblk != nil; dblk = dblk.Idom() {
				if x, ok := dblk.Instrs[len(dblk.Instrs)-1].(*ssa.If); ok {
					a, neg := normCond(x.Cond)
					if a == lt.Atom {
						ifi = x
						taken := dblk.Succs[0]
						if lt.Val == neg {
							taken = dblk.Succs[1]
						}
						other = dblk.Succs[0]
						if other == taken {
							other = dblk.Succs[1]
						}
					}
				}
			}
			if ifi == nil || other == nil || len(other.Instrs) == 0 {
				continue
			}
			judged++
			// from the other edge: can we get back to the option loop (or a nil-error return) without an error return and without the store?
			start := other.Instrs[0]
			isErrRet := func(i ssa.Instruction) bool {
				ret, ok := i.(*ssa.Return)
				if !ok {
					return false
				}
				cn, isc := retResult(ret, 0).(*ssa.Const)
				return !(isc && cn.IsNil())
			}
			isStoreSame := func(i ssa.Instruction) bool {
				s2, ok := i.(*ssa.Store)
				if !ok {
					return false
				}
				f2, ok := s2.Addr.(*ssa.FieldAddr)
				return ok && f2.Field == fa.Field && deref(f2.X.Type()) == deref(fa.X.Type())
			}
			silent := isLoopCond(start) || (!isErrRet(start) && !isStoreSame(start) && pathAvoiding(start, func(i ssa.Instruction) bool {
				if isLoopCond(i) {
					return true
				}
				ret, ok := i.(*ssa.Return)
				if !ok {
					return false
				}
				cn, isc := retResult(ret, 0).(*ssa.Const)
				return isc && cn.IsNil()
			}, func(i ssa.Instruction) bool { return isErrRet(i) || isStoreSame(i) }, nil) != nil)
			fld, _ := fieldOf(fa)
			r.check(!silent, fmt.Sprintf("fzf.parseOptions:Options.%s assigned or rejected (%s)", fld.Name(), l.pos(st.Pos())), st.Pos(), pos,
				"a condition on the parsed value either rejects it with an error or another branch assigns the field", "for some values the option is silently ignored and the previous value stays")
		}
	})
	r.floor("stores of parsed option values into opts", n, 50)
	r.note("C17-R10: %d stores of parsed values, %d sit under a condition on the parsed value and were judged", n, judged)
}
