package main

import (
	"encoding/json"
	"fmt"
	"go/token"
	"os"
	"sort"
	"strings"

	"golang.org/x/tools/go/ssa"
)

type Status string

const (
	OK      Status = "discharged"
	BAD     Status = "violated"
	UNEST   Status = "not-established"
	INFO    Status = "info" // reported, never judged
	KNOWN   Status = "known-finding"
	minSamp        = 40
)

// Obligation is one decided instance of a rule.
type Obligation struct {
	Rule   string `json:"rule"`
	Key    string `json:"key"` // stable identity: rule:function:construct (never a line number)
	Site   string `json:"site"`
	Func   string `json:"func,omitempty"`
	What   string `json:"what"`
	Status Status `json:"status"`
	Reason string `json:"reason,omitempty"`
	Config string `json:"config,omitempty"`
}

type RuleInfo struct {
	ID       string `json:"id"`
	Engine   string `json:"engine"`
	Priority string `json:"priority"`
	Text     string `json:"text"`
	Breaks   string `json:"breaks"`
}

type Report struct {
	Prop       string
	L          *Loaded
	Obls       []Obligation
	Rules      []RuleInfo
	Exemptions []string
	Notes      []string
	funcs      map[string]bool
	curRule    string
	Alts       []*Loaded
}

func newReport(prop string, l *Loaded) *Report {
	return &Report{Prop: prop, L: l, funcs: map[string]bool{}}
}

func (r *Report) rule(id, engine, prio, text, breaks string) {
	r.curRule = id
	r.Rules = append(r.Rules, RuleInfo{id, engine, prio, text, breaks})
}

func (r *Report) analysed(fns ...*ssa.Function) {
	for _, f := range fns {
		if f != nil {
			r.funcs[f.String()] = true
		}
	}
}

func (r *Report) add(st Status, key string, pos token.Pos, fn *ssa.Function, what, reason string) {
	o := Obligation{Rule: r.curRule, Key: r.curRule + ":" + key, Site: r.L.pos(pos), What: what, Status: st, Reason: reason, Config: r.L.Config}
	if fn != nil {
		o.Func = fn.String()
		r.funcs[o.Func] = true
		if !pos.IsValid() {
			pos = fn.Pos()
		}
		// positions belong to the file set of the load the function came from
		if fn.Prog != nil && fn.Prog.Fset != r.L.Fset {
			for _, alt := range r.Alts {
				if alt.Fset == fn.Prog.Fset {
					o.Site = alt.pos(pos)
					o.Config = alt.Config
				}
			}
		} else {
			o.Site = r.L.pos(pos)
		}
	}
	r.Obls = append(r.Obls, o)
}

func (r *Report) ok(key string, pos token.Pos, fn *ssa.Function, what string) {
	r.add(OK, key, pos, fn, what, "")
}
func (r *Report) bad(key string, pos token.Pos, fn *ssa.Function, what, reason string) {
	r.add(BAD, key, pos, fn, what, reason)
}
func (r *Report) unest(key string, pos token.Pos, fn *ssa.Function, what, reason string) {
	r.add(UNEST, key, pos, fn, what, reason)
}
func (r *Report) info(key string, pos token.Pos, fn *ssa.Function, what string) {
	r.add(INFO, key, pos, fn, what, "")
}

// check records ok/bad depending on cond.
func (r *Report) check(cond bool, key string, pos token.Pos, fn *ssa.Function, what, reasonIfBad string) bool {
	if cond {
		r.ok(key, pos, fn, what)
	} else {
		r.bad(key, pos, fn, what, reasonIfBad)
	}
	return cond
}

// floor: vacuity guard — a rule that found fewer instances than were confirmed by reading is not established.
func (r *Report) floor(name string, got, min int) {
	if got < min {
		r.unest("floor:"+name, token.NoPos, nil, fmt.Sprintf("vacuity floor %s: expected at least %d instances", name, min),
			fmt.Sprintf("only %d found — the anchor shapes this rule relies on are gone", got))
	} else {
		r.ok("floor:"+name, token.NoPos, nil, fmt.Sprintf("vacuity floor %s: %d instances (>= %d confirmed by reading)", name, got, min))
	}
}

func (r *Report) exempt(sym, reason string) {
	r.Exemptions = append(r.Exemptions, sym+": "+reason)
}
func (r *Report) note(format string, a ...any) { r.Notes = append(r.Notes, fmt.Sprintf(format, a...)) }

// ---- known findings -------------------------------------------------------------------------

type KnownFinding struct {
	Property string `json:"property"`
	Rule     string `json:"rule"`
	Key      string `json:"key"`
	Status   string `json:"status"` // "known" | "fixed"
	Commit   string `json:"commit,omitempty"`
	What     string `json:"what"`
}

func loadKnown(path string) ([]KnownFinding, error) {
	b, err := os.ReadFile(path)
	if err != nil {
		if os.IsNotExist(err) {
			return nil, nil
		}
		return nil, err
	}
	var k struct {
		Findings []KnownFinding `json:"findings"`
	}
	if err := json.Unmarshal(b, &k); err != nil {
		return nil, err
	}
	return k.Findings, nil
}

// ---- evidence -------------------------------------------------------------------------------

type evidence struct {
	PropertyID  string         `json:"property_id"`
	Tier        string         `json:"tier"`
	Seed        int            `json:"seed"`
	Level       string         `json:"level"`
	Coverage    map[string]any `json:"coverage"`
	Assumptions []string       `json:"assumptions"`
	WallS       float64        `json:"wall_s"`
	Violations  int            `json:"violations"`
}

func sortObls(o []Obligation) {
	sort.SliceStable(o, func(i, j int) bool {
		fi, li := splitSite(o[i].Site)
		fj, lj := splitSite(o[j].Site)
		if fi != fj {
			return fi < fj
		}
		if li != lj {
			return li < lj
		}
		if o[i].Rule != o[j].Rule {
			return o[i].Rule < o[j].Rule
		}
		return o[i].Key < o[j].Key
	})
}

func splitSite(s string) (string, int) {
	i := strings.LastIndex(s, ":")
	if i < 0 {
		return s, 0
	}
	n := 0
	fmt.Sscanf(s[i+1:], "%d", &n)
	return s[:i], n
}
