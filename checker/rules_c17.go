package main

import (
	"fmt"
	"go/ast"
	"go/token"
	"go/types"
	"regexp/syntax"
	"sort"
	"strings"

	"golang.org/x/tools/go/ssa"
)

func init() {
	register(&propDef{
		id:  "C17",
		run: runC17,
		explanation: "Structural clauses of command-line handling: (R1) error discipline in everything reachable from ParseOptions inside package fzf: no error result is dropped implicitly or assigned and never looked at; (R2) layering: options file, then $FZF_DEFAULT_OPTS, then argv, all through the same parseOptions with one shared occurrence counter; " +
			"(R3) the action-name tables agree: every name isExecuteAction recognises is in the language of the masking regexp; (R4) main turns a parse error into exit status 2; (R5, thorough) regexp.MustCompile is only given constants or text built from regexp.QuoteMeta results; (R6) the occurrence index recorded for --tmux/--height is the global one; (R7) the action-argument mask is assembled only from pieces whose byte length equals the bytes consumed (offset-preserving).",
		notDecided: "totality (no index out of range) of the offset-based splitter over all strings, verbatim preservation of action arguments for every delimiter form, last-one-wins for every option",
	})
}

func isErrorType(t types.Type) bool {
	n, ok := t.(*types.Named)
	return ok && n.Obj().Pkg() == nil && n.Obj().Name() == "error"
}

// regexLanguage enumerates the finite language of a regexp (literals, alternation, concatenation, ?).
// ok=false when the expression is not finite or exceeds the bound.
func regexLanguage(re *syntax.Regexp, bound int) ([]string, bool) {
	switch re.Op {
	case syntax.OpEmptyMatch:
		return []string{""}, true
	case syntax.OpLiteral:
		return []string{strings.ToLower(string(re.Rune))}, true
	case syntax.OpCapture:
		return regexLanguage(re.Sub[0], bound)
	case syntax.OpQuest:
		l, ok := regexLanguage(re.Sub[0], bound)
		if !ok {
			return nil, false
		}
		return append([]string{""}, l...), true
	case syntax.OpAlternate:
		var out []string
		for _, s := range re.Sub {
			l, ok := regexLanguage(s, bound)
			if !ok {
				return nil, false
			}
			out = append(out, l...)
		}
		return out, len(out) <= bound
	case syntax.OpConcat:
		out := []string{""}
		for _, s := range re.Sub {
			l, ok := regexLanguage(s, bound)
			if !ok {
				return nil, false
			}
			var next []string
			for _, a := range out {
				for _, b := range l {
					next = append(next, a+b)
				}
			}
			if len(next) > bound {
				return nil, false
			}
			out = next
		}
		return out, true
	case syntax.OpCharClass:
		// small classes only (e.g. [:+])
		var out []string
		for i := 0; i+1 < len(re.Rune); i += 2 {
			for c := re.Rune[i]; c <= re.Rune[i+1]; c++ {
				out = append(out, strings.ToLower(string(c)))
				if len(out) > 64 {
					return nil, false
				}
			}
		}
		return out, true
	}
	return nil, false
}

func runC17(c *Ctx, r *Report) {
	defer round8(c, r, "C17")
	l := c.L
	defer c17r11(c, r)
	defer c17r12(c, r)
	defer c17r13(c, r)
	defer c17r14(c, r)
	defer c17r15(c, r)
	defer c17r16(c, r)
	defer c17r17(c, r)
	defer c17r18(c, r)
	defer c17r19(c, r)
	po := l.Fn("fzf", "ParseOptions")
	pos := l.Fn("fzf", "parseOptions")
	if po == nil || pos == nil {
		r.rule("C17-R1", "G", "P1", "anchors", "")
		r.unest("anchors", token.NoPos, nil, "anchors ParseOptions / parseOptions", "cannot resolve")
		return
	}
	// scope: functions of package fzf reachable from ParseOptions through static calls and local closures
	fzfPkg := l.pkg("fzf")
	scope := map[*ssa.Function]bool{}
	var visit func(f *ssa.Function)
	visit = func(f *ssa.Function) {
		if f == nil || scope[f] || f.Blocks == nil || f.Pkg != fzfPkg {
			return
		}
		scope[f] = true
		for _, a := range f.AnonFuncs {
			visit(a)
		}
		eachInstr(f, func(in ssa.Instruction) {
			if ci, ok := in.(ssa.CallInstruction); ok {
				if fs, ok := calleesOf(ci.Common()); ok {
					for _, g := range fs {
						visit(g)
					}
				}
			}
		})
	}
	visit(po)

	// ---------------- R1 ----------------
	r.rule("C17-R1", "G (error discipline over SSA use-def + typed AST)", "P1",
		"in every function of package fzf reachable from ParseOptions, each call whose last result is an error has that result used (tested, returned, wrapped, passed on); an explicit `_` is listed, an implicit drop or an assigned-but-never-read error is a violation",
		"a malformed option value is silently accepted (or its error overwritten) instead of being reported with exit status 2")
	pkgInfo := l.ByPath[pkgAlias["fzf"]]
	nCalls, nExplicit := 0, 0
	var scoped []*ssa.Function
	for f := range scope {
		scoped = append(scoped, f)
	}
	sort.Slice(scoped, func(i, j int) bool { return scoped[i].String() < scoped[j].String() })
	for _, f := range scoped {
		eachInstr(f, func(in ssa.Instruction) {
			call, ok := in.(*ssa.Call)
			if !ok {
				return
			}
			sig := call.Common().Signature()
			nres := sig.Results().Len()
			if nres == 0 || !isErrorType(sig.Results().At(nres-1).Type()) {
				return
			}
			if infallibleWriter(calleeName(call.Common())) {
				return // documented never to fail / terminal output: not part of option parsing
			}
			nCalls++
			var errVal ssa.Value
			if nres == 1 {
				errVal = call
			} else {
				for _, ref := range *call.Referrers() {
					if ex, ok := ref.(*ssa.Extract); ok && ex.Index == nres-1 {
						errVal = ex
					}
				}
			}
			used := errVal != nil && errVal.Referrers() != nil && len(*errVal.Referrers()) > 0
			if used {
				// a store into a local cell only counts if the cell is read afterwards somewhere
				onlyStores := true
				for _, ref := range *errVal.Referrers() {
					st, isStore := ref.(*ssa.Store)
					if !isStore {
						onlyStores = false
						continue
					}
					cell := cellRoot(st.Addr)
					if _, isAlloc := cell.(*ssa.Alloc); !isAlloc || len(loadsOfCell(cell)) > 0 {
						onlyStores = false
					}
				}
				if onlyStores {
					used = false
				}
			}
			name := calleeName(call.Common())
			if name == "" {
				name = "closure"
			}
			key := fmt.Sprintf("%s:error of %s", relName(f), shortCallee(name))
			if used {
				r.ok(key, in.Pos(), f, "error result of "+shortCallee(name)+" is used")
				return
			}
			// explicit blank?
			if explicitBlank(pkgInfo.Syntax, l.Fset, call.Pos()) {
				nExplicit++
				r.info(key+" (explicit _)", in.Pos(), f, "error of "+shortCallee(name)+" explicitly discarded with `_` (listed, not judged)")
				return
			}
			r.bad(key, in.Pos(), f, "error result of "+shortCallee(name), "dropped: never tested, returned or passed on")
		})
	}
	r.floor("error-returning calls in the option parsers", nCalls, 150)
	r.floor("functions in scope (reachable from ParseOptions in package fzf)", len(scope), 40)
	r.note("explicit `_` discards of an error in scope: %d (listed as info)", nExplicit)
	r.exempt("fmt.Print*/Fprint*, bytes.Buffer, strings.Builder writes", "documented never to return an error (or plain terminal output); not errors produced while parsing options")

	// ---------------- R2 ----------------
	r.rule("C17-R2", "A (CFG order) + D (provenance)", "P1",
		"ParseOptions calls parseOptions for the options file, then for $FZF_DEFAULT_OPTS, then for argv (the call whose words are the `args` parameter is reachable from the other two and reaches neither); all calls share the same occurrence counter",
		"environment options override the command line")
	type pcall struct {
		in   *ssa.Call
		kind string
	}
	var pcs []pcall
	eachInstr(po, func(in ssa.Instruction) {
		call, ok := in.(*ssa.Call)
		if !ok || call.Common().StaticCallee() != pos {
			return
		}
		kind := "?"
		for v := range backwardSlice(call.Call.Args[2], func(*ssa.CallCommon) bool { return true }, nil) {
			if p, ok := v.(*ssa.Parameter); ok && p.Name() == "args" {
				kind = "argv"
			}
			if c2, ok := v.(*ssa.Call); ok {
				switch calleeName(c2.Common()) {
				case "os.ReadFile":
					if kind == "?" || kind == "env" {
						kind = "file"
					}
				case "os.Getenv":
					if s, ok := constString(c2.Call.Args[0]); ok && s == "FZF_DEFAULT_OPTS" && kind == "?" {
						kind = "env"
					}
				}
			}
		}
		pcs = append(pcs, pcall{call, kind})
	})
	r.floor("parseOptions calls in ParseOptions", len(pcs), 3)
	byKind := map[string]*ssa.Call{}
	for _, p := range pcs {
		byKind[p.kind] = p.in
	}
	if byKind["argv"] == nil || byKind["env"] == nil || byKind["file"] == nil {
		r.unest(relName(po)+":layers", token.NoPos, po, "three layers file/env/argv", fmt.Sprintf("recognised: %v", keysOfCalls(byKind)))
	} else {
		a, e, f := byKind["argv"], byKind["env"], byKind["file"]
		r.check(canReach(e, a) && !canReach(a, e), relName(po)+":env before argv", a.Pos(), po, "$FZF_DEFAULT_OPTS is parsed before argv", "argv is parsed first: the environment wins")
		r.check(canReach(f, a) && !canReach(a, f), relName(po)+":file before argv", a.Pos(), po, "the options file is parsed before argv", "argv is parsed before the options file")
		r.check(canReach(f, e) && !canReach(e, f), relName(po)+":file before env", e.Pos(), po, "the options file is parsed before $FZF_DEFAULT_OPTS", "order of file and environment swapped")
		same := a.Call.Args[0] == e.Call.Args[0] && e.Call.Args[0] == f.Call.Args[0]
		r.check(same, relName(po)+":shared index", a.Pos(), po, "all layers advance the same occurrence counter", "separate counters: cross-layer ordering (--tmux vs --height) breaks")
	}

	// ---------------- R3 ----------------
	r.rule("C17-R3", "E (regexp/syntax language vs switch cases)", "P1",
		"every action name with an argument that isExecuteAction recognises belongs to the language of executeRegexp (the masking pattern)",
		"the argument of that action is not masked: commas, plus signs and colons inside it split the binding")
	isExec := l.Fn("fzf", "isExecuteAction")
	g := l.Global("fzf", "executeRegexp")
	if isExec == nil || g == nil {
		r.unest("anchors", token.NoPos, nil, "anchors isExecuteAction / executeRegexp", "cannot resolve")
	} else {
		pat := ""
		for _, f := range l.AllFuncs() {
			eachInstr(f, func(in ssa.Instruction) {
				st, ok := in.(*ssa.Store)
				if !ok || st.Addr != ssa.Value(g) {
					return
				}
				if call, ok := st.Val.(*ssa.Call); ok {
					if s, ok := constString(call.Call.Args[0]); ok {
						pat = s
					}
				}
			})
		}
		re, err := syntax.Parse(pat, syntax.Perl)
		var lang map[string]bool
		if err == nil {
			var cap1 *syntax.Regexp
			var walk func(x *syntax.Regexp)
			walk = func(x *syntax.Regexp) {
				if x.Op == syntax.OpCapture && x.Cap == 1 {
					cap1 = x
				}
				for _, s := range x.Sub {
					walk(s)
				}
			}
			walk(re)
			if cap1 != nil {
				if ws, ok := regexLanguage(cap1, 5000); ok {
					lang = map[string]bool{}
					for _, w := range ws {
						lang[w] = true
					}
				}
			}
		}
		if lang == nil {
			r.unest("executeRegexp language", token.NoPos, nil, "finite language of the first capture group of executeRegexp", "pattern not constant / not finite")
		} else {
			names := map[string]bool{}
			eachInstr(isExec, func(in ssa.Instruction) {
				b, ok := in.(*ssa.BinOp)
				if !ok || b.Op != token.EQL {
					return
				}
				if s, ok := constString(b.Y); ok {
					names[s] = true
				}
			})
			var ns []string
			for n := range names {
				ns = append(ns, n)
			}
			sort.Strings(ns)
			for _, n := range ns {
				r.check(lang[strings.ToLower(n)], "name "+n, isExec.Pos(), isExec, "`"+n+"` is in the language of the masking regexp", "recognised by isExecuteAction but never masked")
			}
			r.floor("argument-taking action names", len(ns), 41)
			extra := 0
			for w := range lang {
				if !names[w] {
					extra++
					r.info("regexp-only name "+w, isExec.Pos(), isExec, "`"+w+"` is masked but has no case in isExecuteAction (benign: falls back to the plain-name table)")
				}
			}
		}
	}

	// ---------------- R4 ----------------
	r.rule("C17-R4", "A (path conditions)", "P1",
		"in main.main a non-nil error from ParseOptions leads to exit(ExitError, err)",
		"a rejected command line exits with status 0/1 or continues")
	mainFn := l.Fn("main", "main")
	exitMain := l.Fn("main", "exit")
	if mainFn == nil || exitMain == nil {
		r.unest("anchors main", token.NoPos, nil, "anchors main.main / main.exit", "cannot resolve")
	} else {
		pc := pathConds(mainFn)
		found := false
		exitErr, _ := constInt(l.Const("fzf", "ExitError"))
		eachInstr(mainFn, func(in ssa.Instruction) {
			call, ok := in.(*ssa.Call)
			if !ok || call.Common().StaticCallee() != exitMain {
				return
			}
			k, isc := constIntVal(call.Call.Args[0])
			if !isc || k != exitErr {
				return
			}
			holds, _ := pc.Implies(in.Block(), func(lits []Lit) bool {
				return hasLit(lits, func(a ssa.Value, v bool) bool {
					b, ok := a.(*ssa.BinOp)
					if !ok {
						return false
					}
					ex, ok := b.X.(*ssa.Extract)
					if !ok || ex.Index != 1 {
						return false
					}
					c2, ok := ex.Tuple.(*ssa.Call)
					if !ok || c2.Common().StaticCallee() != po {
						return false
					}
					return (b.Op == token.NEQ && v) || (b.Op == token.EQL && !v)
				})
			})
			if holds {
				found = true
				// every path from here must not continue into Run: the call is followed by return
				r.ok("main.main:parse error -> exit 2", in.Pos(), mainFn, "err != nil from ParseOptions reaches exit(ExitError, err)")
			}
		})
		if !found {
			r.bad("main.main:parse error -> exit 2", mainFn.Pos(), mainFn, "err != nil from ParseOptions reaches exit(ExitError, err)", "no such call on the error edge")
		}
		// and the error edge must not fall through to Run
		run := l.Fn("fzf", "Run")
		eachInstr(mainFn, func(in ssa.Instruction) {
			ifi, ok := in.(*ssa.If)
			if !ok {
				return
			}
			atom, neg := normCond(ifi.Cond)
			b, ok := atom.(*ssa.BinOp)
			if !ok {
				return
			}
			ex, ok := b.X.(*ssa.Extract)
			if !ok || ex.Index != 1 {
				return
			}
			if c2, ok := ex.Tuple.(*ssa.Call); !ok || c2.Common().StaticCallee() != po {
				return
			}
			errEdge := ifi.Block().Succs[0]
			if (b.Op == token.NEQ) == neg {
				errEdge = ifi.Block().Succs[1]
			}
			reachesRun := false
			for bb := range reachFrom(ifi.Block()) {
				_ = bb
			}
			seen := map[*ssa.BasicBlock]bool{errEdge: true}
			work := []*ssa.BasicBlock{errEdge}
			for len(work) > 0 {
				x := work[len(work)-1]
				work = work[:len(work)-1]
				for _, i2 := range x.Instrs {
					if staticCallee(i2) == run {
						reachesRun = true
					}
				}
				for _, s := range x.Succs {
					if !seen[s] {
						seen[s] = true
						work = append(work, s)
					}
				}
			}
			r.check(!reachesRun, "main.main:error edge does not run fzf", in.Pos(), mainFn, "the parse-error edge cannot reach fzf.Run", "fzf starts despite a rejected command line")
		})
	}

	// ---------------- R6 ----------------
	r.rule("C17-R6", "D (provenance)", "P1",
		"in parseOptions every value stored into an `index` field (heightSpec.index / tmuxOptions.index, directly or through the helper's parameter) derives from the shared occurrence counter *index",
		"--tmux on the command line loses against --height from $FZF_DEFAULT_OPTS (Run compares the two indices)")
	idxParam := pos.Params[0]
	nIdx := 0
	for _, f := range withClosures(pos) {
		eachInstr(f, func(in ssa.Instruction) {
			call, ok := in.(*ssa.Call)
			if !ok {
				return
			}
			cal := call.Common().StaticCallee()
			if cal == nil || cal.Pkg != fzfPkg {
				return
			}
			// does the callee store one of its int parameters into a field named index?
			for pi, p := range cal.Params {
				if !storesParamIntoIndexField(cal, p) {
					continue
				}
				nIdx++
				fromCounter := false
				for v := range backwardSlice(call.Call.Args[pi], nil, nil) {
					if u, ok := v.(*ssa.UnOp); ok && u.Op == token.MUL {
						if u.X == ssa.Value(idxParam) || cellRoot(u.X) == ssa.Value(idxParam) {
							fromCounter = true
						}
					}
				}
				r.check(fromCounter, fmt.Sprintf("%s:index arg of %s", relName(f), cal.Name()), in.Pos(), f, "occurrence index passed to "+cal.Name()+" includes the shared counter", "a layer-local position is recorded: ordering across file/env/argv is lost")
			}
		})
	}
	r.floor("call sites recording an option's occurrence index", nIdx, 3)

	// ---------------- R7 ----------------
	r.rule("C17-R7", "D (shape census)", "P1",
		"in maskActionContents every piece appended to the mask is the remaining input, a prefix slice of it, or strings.Repeat of a one-byte constant with a count that is a length/offset of the remaining input",
		"the mask gets shorter/longer than the original (e.g. per-rune blanking of multi-byte text): the offset-based splitter cuts the original at the wrong bytes")
	mask := l.Fn("fzf", "maskActionContents")
	if mask == nil {
		r.unest("anchors", token.NoPos, nil, "anchor maskActionContents", "cannot resolve")
	} else {
		actionParam := mask.Params[0]
		isInput := func(v ssa.Value) bool {
			// the running `action` variable: parameter or phi/slice chain rooted in it
			for x := range backwardSlice(v, nil, func(y ssa.Value) bool {
				_, isCall := y.(*ssa.Call)
				return isCall
			}) {
				if x == ssa.Value(actionParam) {
					return true
				}
			}
			return false
		}
		n := 0
		eachInstr(mask, func(in ssa.Instruction) {
			b, ok := in.(*ssa.BinOp)
			if !ok || b.Op != token.ADD {
				return
			}
			if bt, ok := b.Type().Underlying().(*types.Basic); !ok || bt.Kind() != types.String {
				return
			}
			// masked + piece : left operand is the running mask (phi/const "")
			piece := b.Y
			n++
			okPiece := false
			why := ""
			switch x := piece.(type) {
			case *ssa.Slice:
				okPiece = isInput(x.X) && (x.Low == nil || x.High == nil)
				why = "a slice that is neither a prefix nor the rest of the remaining input"
			case *ssa.Phi, *ssa.Parameter:
				okPiece = isInput(piece)
				why = "not the remaining input"
			case *ssa.Call:
				if calleeName(x.Common()) == "strings.Repeat" {
					s, isc := constString(x.Call.Args[0])
					cntOK, runeCount := false, false
					for v := range backwardSlice(x.Call.Args[1], nil, nil) {
						if c2, ok := v.(*ssa.Call); ok {
							nm := calleeName(c2.Common())
							if nm == "builtin.len" || strings.HasSuffix(nm, "FindStringIndex") {
								cntOK = true
							}
							// a count of characters is not a count of bytes
							if nm == "builtin.len" {
								if sl, ok := c2.Call.Args[0].Type().Underlying().(*types.Slice); ok {
									if bt, ok := sl.Elem().Underlying().(*types.Basic); ok && bt.Kind() == types.Int32 {
										runeCount = true
									}
								}
							}
							if strings.HasPrefix(nm, "unicode/utf8.RuneCount") {
								runeCount = true
							}
						}
					}
					okPiece = isc && len(s) == 1 && cntOK && !runeCount
					why = "Repeat of a multi-byte string, or with a count that is not a byte length/offset of the input (e.g. a character count)"
				} else if cal := x.Common().StaticCallee(); cal != nil && cal.Blocks != nil && isModulePkg(cal.Pkg.Pkg) && len(cal.Params) == 1 && isInput(x.Call.Args[0]) {
					// a local helper: accepted when each of its returns is Repeat(<1 byte>, len(param))
					all := true
					for _, bb := range cal.Blocks {
						ret, ok := bb.Instrs[len(bb.Instrs)-1].(*ssa.Return)
						if !ok {
							continue
						}
						rc, ok := ret.Results[0].(*ssa.Call)
						if !ok || calleeName(rc.Common()) != "strings.Repeat" {
							all = false
							continue
						}
						s, isc := constString(rc.Call.Args[0])
						lc, isLen := rc.Call.Args[1].(*ssa.Call)
						if !isc || len(s) != 1 || !isLen || calleeName(lc.Common()) != "builtin.len" || lc.Call.Args[0] != ssa.Value(cal.Params[0]) {
							all = false
						}
					}
					okPiece = all
					why = "helper " + cal.Name() + " does not provably return a string of its argument's byte length"
				} else {
					why = "result of " + calleeName(x.Common()) + " has no provable byte length"
				}
			default:
				why = "piece of unknown length"
			}
			r.check(okPiece, fmt.Sprintf("%s:mask piece #%d", relName(mask), n), in.Pos(), mask, "appended piece preserves byte offsets", why)
		})
		r.floor("pieces appended to the mask", n, 4)
	}

	// ---------------- R8 ----------------
	r.rule("C17-R8", "A (must-pass-through) + B (cross-closure state census)", "P1",
		"a local of parseOptions that one option handler (closure) sets from its argument and another handler reads is also stored, on every path of the setter, into a field reachable from opts — parseOptions runs once per layer (file, environment, argv) and its locals do not survive",
		"an option given in $FZF_DEFAULT_OPTS is silently lost when the related option comes from the command line (--history-size in the environment with --history on the command line: file never capped)")
	c17r8(c, r, pos)
	c17r9(c, r)
	c17r10(c, r)

	if c.thorough() {
		// ---------------- R5 ----------------
		r.rule("C17-R5", "D (provenance)", "P2",
			"every regexp.MustCompile in package fzf gets a constant pattern or one built by fmt.Sprintf from a constant format and regexp.QuoteMeta results",
			"a user-supplied delimiter character panics the parser instead of yielding an error")
		n := 0
		for _, f := range l.AllFuncs() {
			if f.Pkg != fzfPkg {
				continue
			}
			eachInstr(f, func(in ssa.Instruction) {
				cc, ok := isCall(in, "regexp.MustCompile")
				if !ok {
					return
				}
				n++
				if _, isConst := constString(cc.Args[0]); isConst {
					r.ok(fmt.Sprintf("%s:MustCompile const #%d", relName(f), n), in.Pos(), f, "constant pattern")
					return
				}
				okDyn := false
				if call, ok := cc.Args[0].(*ssa.Call); ok && calleeName(call.Common()) == "fmt.Sprintf" {
					if _, isc := constString(call.Call.Args[0]); isc {
						okDyn = true
						// every variadic element must be a QuoteMeta result
						for v := range backwardSlice(call.Call.Args[1], nil, func(y ssa.Value) bool {
							c2, ok := y.(*ssa.Call)
							return ok && calleeName(c2.Common()) == "regexp.QuoteMeta"
						}) {
							switch x := v.(type) {
							case *ssa.Parameter:
								okDyn = false
							case *ssa.Call:
								if calleeName(x.Common()) != "regexp.QuoteMeta" {
									okDyn = false
								}
							}
						}
					}
				}
				r.check(okDyn, fmt.Sprintf("%s:MustCompile dynamic #%d", relName(f), n), in.Pos(), f, "dynamic pattern is Sprintf(const, QuoteMeta(..)...)", "pattern contains unsanitised dynamic text: MustCompile can panic")
			})
		}
		r.floor("regexp.MustCompile sites", n, 10)
	}
}

func infallibleWriter(name string) bool {
	for _, p := range []string{"fmt.Print", "fmt.Fprint", "(*bytes.Buffer).", "(*strings.Builder)."} {
		if strings.HasPrefix(name, p) {
			return true
		}
	}
	return false
}

func storesParamIntoIndexField(f *ssa.Function, p *ssa.Parameter) bool {
	return storesParamIntoIndexFieldD(f, p, 0)
}

func storesParamIntoIndexFieldD(f *ssa.Function, p *ssa.Parameter, depth int) bool {
	if bt, ok := p.Type().Underlying().(*types.Basic); !ok || bt.Kind() != types.Int {
		return false
	}
	found := false
	if depth < 3 {
		eachInstr(f, func(in ssa.Instruction) {
			call, ok := in.(*ssa.Call)
			if !ok {
				return
			}
			cal := call.Common().StaticCallee()
			if cal == nil || cal.Blocks == nil || cal.Pkg != f.Pkg {
				return
			}
			for i, a := range call.Call.Args {
				if a == ssa.Value(p) && i < len(cal.Params) && storesParamIntoIndexFieldD(cal, cal.Params[i], depth+1) {
					found = true
				}
			}
		})
	}
	eachInstr(f, func(in ssa.Instruction) {
		st, ok := in.(*ssa.Store)
		if !ok || st.Val != ssa.Value(p) {
			return
		}
		if fld, _ := fieldOf(st.Addr); fld != nil && fld.Name() == "index" {
			found = true
		}
	})
	return found
}

func keysOfCalls(m map[string]*ssa.Call) []string {
	var k []string
	for x := range m {
		k = append(k, x)
	}
	sort.Strings(k)
	return k
}

func shortCallee(n string) string {
	n = strings.ReplaceAll(n, modPath+"/src/", "")
	n = strings.ReplaceAll(n, modPath+"/src.", "")
	return n
}

// explicitBlank: the call at pos is the RHS of an assignment whose last LHS is `_`, or of `_ = call`.
func explicitBlank(files []*ast.File, fset *token.FileSet, pos token.Pos) bool {
	for _, file := range files {
		if pos < file.Pos() || pos > file.End() {
			continue
		}
		res := false
		ast.Inspect(file, func(n ast.Node) bool {
			as, ok := n.(*ast.AssignStmt)
			if !ok {
				return true
			}
			if len(as.Rhs) != 1 {
				return true
			}
			call, ok := as.Rhs[0].(*ast.CallExpr)
			if !ok || call.Lparen != pos {
				return true
			}
			if id, ok := as.Lhs[len(as.Lhs)-1].(*ast.Ident); ok && id.Name == "_" {
				res = true
			}
			return false
		})
		return res
	}
	return false
}

func c17r8(c *Ctx, r *Report, pos *ssa.Function) {
	// the cell holding the *Options parameter
	var optsParam *ssa.Parameter
	for _, p := range pos.Params {
		if strings.HasSuffix(p.Type().String(), ".Options") {
			optsParam = p
		}
	}
	if optsParam == nil {
		r.unest("anchors opts", token.NoPos, pos, "the *Options parameter of parseOptions", "not found")
		return
	}
	rootedAtOpts := func(addr ssa.Value) bool {
		v := addr
		for i := 0; i < 12; i++ {
			switch x := v.(type) {
			case *ssa.FieldAddr:
				v = x.X
			case *ssa.IndexAddr:
				v = x.X
			case *ssa.UnOp:
				if x.Op != token.MUL {
					return false
				}
				// load of the opts cell, or load of a pointer field of opts
				if cell := cellRoot(x.X); cell != nil {
					for _, st := range storesToCell(cell) {
						if st.Val == ssa.Value(optsParam) {
							return true
						}
					}
				}
				v = x.X
			case *ssa.Parameter:
				return x == optsParam
			default:
				return false
			}
		}
		return false
	}
	n := 0
	fns := withClosures(pos)
	for _, g := range fns {
		if g == pos || len(g.Params) == 0 {
			continue
		}
		eachInstr(g, func(in ssa.Instruction) {
			st, ok := in.(*ssa.Store)
			if !ok {
				return
			}
			cell, ok := cellRoot(st.Addr).(*ssa.Alloc)
			if !ok || cell.Parent() != pos || cellRoot(st.Addr) != ssa.Value(cell) {
				return
			}
			if _, isField := st.Addr.(*ssa.FieldAddr); isField {
				return
			}
			// value derived from one of g's parameters
			var from *ssa.Parameter
			for v := range backwardSlice(st.Val, nil, nil) {
				if p, ok := v.(*ssa.Parameter); ok && p.Parent() == g {
					from = p
				}
			}
			if from == nil {
				return
			}
			// read elsewhere (another closure or the root)?
			readElsewhere := false
			for _, ld := range loadsOfCell(cell) {
				if ld.Parent() != g {
					readElsewhere = true
				}
			}
			if !readElsewhere {
				return
			}
			n++
			isPersist := func(i ssa.Instruction) bool {
				s2, ok := i.(*ssa.Store)
				if !ok || !rootedAtOpts(s2.Addr) {
					return false
				}
				if _, isF := s2.Addr.(*ssa.FieldAddr); !isF {
					return false
				}
				for v := range backwardSlice(s2.Val, nil, nil) {
					if v == ssa.Value(from) {
						return true
					}
				}
				return false
			}
			goal := pathAvoiding(st, isReturn, isPersist, nil)
			r.check(goal == nil, fmt.Sprintf("%s:persist `%s`", relName(g), cell.Comment), st.Pos(), g,
				fmt.Sprintf("handler stores its argument into the local `%s` (read by other handlers) and, on every path, into a field of opts", cell.Comment),
				"the value lives only in a local of this parseOptions pass (or is saved to opts only conditionally): it is lost for the next option layer")
		})
	}
	r.floor("cross-handler locals of parseOptions set from an option argument", n, 1)
}
