package main

import (
	"fmt"
	"go/token"
	"go/types"
	"sort"

	"golang.org/x/tools/go/ssa"
)

func init() {
	register(&propDef{
		id:  "C11",
		run: runC11,
		explanation: "Structural clauses of --ansi stripping and colouring (NOT the equivalence of the hand-written scanner with the documented regular expression): " +
			"(R1) extractColor tiles its input — with (start,end) the range reported by nextAnsiEscapeSequence for the unread remainder, the text written to the output is exactly str[prev:start] for consecutive ranges plus the tail str[prev:], the sequence handed to interpretCode is exactly str[start:end], and the read position advances to end: no byte between sequences is dropped, duplicated or re-read, and input without a sequence is returned as is; " +
			"(R2) colour spans are measured in characters of the stripped text: the running offset grows by RuneCountInString of exactly the pieces that are written; " +
			"(R3) the SGR attribute table is consistent: codes 1,2,3,4,5,7,9 each set one distinct attribute bit, 22 clears those of 1 and 2, and 2x clears exactly the bit that x sets (x in 3,4,5,7,9), 0 clears everything; " +
			"(R4) the SGR colour table is consistent: 30–37/40–47 map to colours 0–7 of fg/bg, 90–97/100–107 to 8–15, 39/49 reset fg/bg, 38/48 select fg/bg for the extended forms.",
		notDecided: "that nextAnsiEscapeSequence reports exactly the matches of the documented regular expression on every byte string (language equivalence); the 256-colour / 24-bit arithmetic; OSC-8 parsing; state carry-over values; span well-formedness for arbitrary bytes",
	})
}

func runC11(c *Ctx, r *Report) {
	defer round8(c, r, "C11")
	l := c.L
	defer c11r14(c, r)
	defer c11r15(c, r)
	defer c11r16(c, r)
	defer c11r17(c, r)
	defer c07r11(c, r) // --accept-nth cuts the fields on the text without the escape sequences
	ec := l.Fn("fzf", "extractColor")
	next := l.Fn("fzf", "nextAnsiEscapeSequence")
	interp := l.Fn("fzf", "interpretCode")
	r.rule("C11-R1", "F/A (index chaining over SSA phis)", "P1",
		"in extractColor: the scanner is called on str[idx:]; start' = start+idx and idx' = idx+end; the piece written before a sequence is str[prevIdx:start'], the sequence interpreted is str[start':idx'], both idx and prevIdx continue at idx' (or 0 initially); after the loop str[prevIdx:] is written, and str itself is returned when nothing was found",
		"a sequence swallows the text that follows it, text is duplicated, or plain text is altered")
	if ec == nil || next == nil || interp == nil {
		r.unest("anchors", token.NoPos, nil, "anchors extractColor / nextAnsiEscapeSequence / interpretCode", "cannot resolve")
		return
	}
	str := ec.Params[0]
	var scan *ssa.Call
	eachInstr(ec, func(in ssa.Instruction) {
		if call, ok := in.(*ssa.Call); ok && call.Common().StaticCallee() == next {
			scan = call
		}
	})
	if scan == nil {
		r.unest("fzf.extractColor:scanner call", ec.Pos(), ec, "call of nextAnsiEscapeSequence", "not found")
		return
	}
	arg, ok := scan.Call.Args[0].(*ssa.Slice)
	var idxPhi *ssa.Phi
	if ok && arg.X == ssa.Value(str) && arg.High == nil {
		idxPhi, _ = arg.Low.(*ssa.Phi)
	}
	r.check(idxPhi != nil, "fzf.extractColor:scanner sees the unread remainder", scan.Pos(), ec, "the scanner is called on str[idx:] with idx loop-carried", "scanner input is not the remainder of the string")
	if idxPhi == nil {
		return
	}
	var startRel, endRel ssa.Value
	for _, ref := range *scan.Referrers() {
		if ex, ok := ref.(*ssa.Extract); ok {
			if ex.Index == 0 {
				startRel = ex
			} else if ex.Index == 1 {
				endRel = ex
			}
		}
	}
	isSum := func(v ssa.Value, a, b ssa.Value) bool {
		bo, ok := v.(*ssa.BinOp)
		return ok && bo.Op == token.ADD && ((bo.X == a && bo.Y == b) || (bo.X == b && bo.Y == a))
	}
	var startAbs, idxNew ssa.Value
	eachInstr(ec, func(in ssa.Instruction) {
		if v, ok := in.(ssa.Value); ok {
			if isSum(v, startRel, idxPhi) {
				startAbs = v
			}
			if isSum(v, endRel, idxPhi) {
				idxNew = v
			}
		}
	})
	r.check(startAbs != nil && idxNew != nil, "fzf.extractColor:absolute range", scan.Pos(), ec, "start' = start + idx and idx' = idx + end are computed from the scanner's relative range", "the relative range is not translated by idx")
	if startAbs == nil || idxNew == nil {
		return
	}
	// idx phi edges
	for i, e := range idxPhi.Edges {
		r.check(isConstInt(e, 0) || e == idxNew, fmt.Sprintf("fzf.extractColor:idx edge %d", i), idxPhi.Pos(), ec, "the read position continues at 0 / idx+end", "the read position skips or re-reads bytes")
	}
	// the sequence
	nSeq := 0
	eachInstr(ec, func(in ssa.Instruction) {
		call, ok := in.(*ssa.Call)
		if !ok || call.Common().StaticCallee() != interp {
			return
		}
		nSeq++
		sl, ok := call.Call.Args[0].(*ssa.Slice)
		r.check(ok && sl.X == ssa.Value(str) && sl.Low == startAbs && sl.High == idxNew, "fzf.extractColor:sequence = str[start':idx']", in.Pos(), ec, "interpretCode receives exactly the reported range", "the interpreted range differs from the reported one")
	})
	r.floor("interpretCode calls in extractColor", nSeq, 1)
	// written pieces
	var prevPhi *ssa.Phi
	nW := 0
	var pieces []ssa.Value
	eachInstr(ec, func(in ssa.Instruction) {
		cc, ok := isCall(in, "(*strings.Builder).WriteString")
		if !ok {
			return
		}
		nW++
		sl, ok := cc.Args[1].(*ssa.Slice)
		okPiece := false
		if ok && sl.X == ssa.Value(str) {
			if p, isPhi := sl.Low.(*ssa.Phi); isPhi {
				if sl.High == startAbs || sl.High == nil {
					okPiece = true
					if prevPhi == nil {
						prevPhi = p
					} else if prevPhi != p {
						// the tail uses the phi at the loop exit, which merges the same variable: accept if it derives from prevPhi
						der := false
						for v := range backwardSlice(p, nil, nil) {
							if v == ssa.Value(prevPhi) {
								der = true
							}
						}
						for v := range backwardSlice(prevPhi, nil, nil) {
							if v == ssa.Value(p) {
								der = true
							}
						}
						okPiece = der
					}
					pieces = append(pieces, sl)
				}
			}
		}
		r.check(okPiece, fmt.Sprintf("fzf.extractColor:written piece #%d", nW), in.Pos(), ec, "the output receives str[prevIdx:start'] (or the tail str[prevIdx:])", "something else than the text between two sequences is written")
	})
	r.floor("writes to the stripped output", nW, 2)
	if prevPhi != nil {
		for i, e := range prevPhi.Edges {
			okE := isConstInt(e, 0) || e == idxNew
			if p, ok := e.(*ssa.Phi); ok {
				okE = true
				for _, e2 := range p.Edges {
					if !(isConstInt(e2, 0) || e2 == idxNew || e2 == ssa.Value(p) || e2 == ssa.Value(prevPhi)) {
						okE = false
					}
				}
			}
			r.check(okE, fmt.Sprintf("fzf.extractColor:prevIdx edge %d", i), prevPhi.Pos(), ec, "the start of the next text piece is the end of the last sequence (or 0)", "text after a sequence is skipped or repeated")
		}
	}
	// unchanged input when nothing was found: a return of the parameter itself
	retStr := false
	for _, b := range ec.Blocks {
		if ret, ok := b.Instrs[len(b.Instrs)-1].(*ssa.Return); ok {
			for v := range backwardSlice(retResult(ret, 0), nil, nil) {
				if v == ssa.Value(str) {
					retStr = true
				}
			}
		}
	}
	r.check(retStr, "fzf.extractColor:plain text returned as is", ec.Pos(), ec, "a path returns the input string itself (no sequence found)", "plain text always goes through the rebuild path")

	// ---------------- R2 ----------------
	r.rule("C11-R2", "D (provenance)", "P1",
		"every offset stored into an ansiOffset derives from the running rune count, which grows only by utf8.RuneCountInString of a written piece",
		"colours are attached to the wrong characters for multi-byte text")
	nOff := 0
	eachInstr(ec, func(in ssa.Instruction) {
		st, ok := in.(*ssa.Store)
		if !ok {
			return
		}
		// stores into [2]int32 offset elements
		ia, ok := st.Addr.(*ssa.IndexAddr)
		if !ok {
			return
		}
		if fld, _ := fieldOf(ia.X); fld == nil || fld.Name() != "offset" {
			return
		}
		if _, isc := st.Val.(*ssa.Const); isc {
			return
		}
		nOff++
		okOff := true
		sawCount := false
		for v := range backwardSlice(st.Val, func(*ssa.CallCommon) bool { return true }, nil) {
			if call, ok := v.(*ssa.Call); ok {
				nm := calleeName(call.Common())
				if nm == "unicode/utf8.RuneCountInString" {
					sawCount = true
					// the argument is a written piece, or a phi of written pieces and the
					// whole input (the no-sequence case, where the input is the output)
					var isP func(v ssa.Value, depth int) bool
					isP = func(v ssa.Value, depth int) bool {
						if v == ssa.Value(str) && depth > 0 {
							return true
						}
						for _, p := range pieces {
							if v == p {
								return true
							}
						}
						if phi, ok := v.(*ssa.Phi); ok && depth < 4 {
							for _, e := range phi.Edges {
								if !isP(e, depth+1) {
									return false
								}
							}
							return true
						}
						return false
					}
					isPiece := isP(call.Call.Args[0], 0)
					if !isPiece {
						okOff = false
					}
				} else if nm == "builtin.len" {
					okOff = false // a byte length would be the wrong unit
				}
			}
		}
		r.check(okOff && sawCount, fmt.Sprintf("fzf.extractColor:offset store #%d", nOff), st.Pos(), ec, "span offset = number of characters written so far", "offset counts bytes or text that was not written")
	})
	r.floor("offset stores in extractColor", nOff, 2)

	// ---------------- R3 / R4 ----------------
	c11tables(c, r, interp)
	c11scanner(c, r)
	c11wiring(c, r)
	c11ownership(c, r)
	c11resets(c, r)
	c11separators(c, r)
	c11compare(c, r)
}

func c11tables(c *Ctx, r *Report, interp *ssa.Function) {
	l := c.L
	parse := l.Fn("fzf", "parseAnsiCode")
	fAttr := l.Field("fzf", "ansiState", "attr")
	fFg := l.Field("fzf", "ansiState", "fg")
	fBg := l.Field("fzf", "ansiState", "bg")
	r.rule("C11-R3", "E (table consistency from constants)", "P1",
		"interpretCode: SGR 1,2,3,4,5,7,9 OR one distinct bit into attr; 22 clears the bits of 1 and 2; 23,24,25,27,29 clear exactly the bit set by 3,4,5,7,9; 0 stores attr = 0",
		"an attribute switched off by its reset code stays on (or another one goes off)")
	if parse == nil || fAttr == nil || fFg == nil || fBg == nil {
		r.unest("anchors", token.NoPos, nil, "anchors parseAnsiCode / ansiState.{attr,fg,bg}", "cannot resolve")
		return
	}
	isNum := func(v ssa.Value) bool {
		ex, ok := v.(*ssa.Extract)
		if !ok || ex.Index != 0 {
			return false
		}
		call, ok := ex.Tuple.(*ssa.Call)
		return ok && call.Common().StaticCallee() == parse
	}
	pc := pathConds(interp)
	eqAt := func(b *ssa.BasicBlock, isNum func(ssa.Value) bool) (int64, bool) {
		code, found := int64(-1), false
		for d := b; d != nil && !found; d = d.Idom() {
			ds := pc.At(d)
			if len(ds) == 0 {
				continue
			}
			// a literal num == K true common to all disjuncts
			for _, lt := range ds[0] {
				x, op, k, ok := cmpInt(lt.Atom)
				if !ok || !isNum(x) || op != token.EQL || !lt.Val {
					continue
				}
				common := true
				for _, d2 := range ds[1:] {
					has := false
					for _, l2 := range d2 {
						if l2.Atom == lt.Atom && l2.Val {
							has = true
						}
					}
					if !has {
						common = false
					}
				}
				if common {
					code, found = k, true
				}
			}
		}
		return code, found
	}
	codeAt := func(b *ssa.BasicBlock) (int64, bool) { return eqAt(b, isNum) }
	set := map[int64]int64{}
	clr := map[int64]int64{}
	zero := map[int64]bool{}
	eachInstr(interp, func(in ssa.Instruction) {
		st, ok := in.(*ssa.Store)
		if !ok {
			return
		}
		if fld, _ := fieldOf(st.Addr); fld != fAttr {
			return
		}
		k, ok := codeAt(st.Block())
		if !ok {
			return
		}
		if isConstInt(st.Val, 0) {
			zero[k] = true
			return
		}
		b, ok := st.Val.(*ssa.BinOp)
		if !ok {
			return
		}
		m, isc := constIntVal(b.Y)
		if !isc {
			return
		}
		switch b.Op {
		case token.OR:
			set[k] |= m
		case token.AND_NOT:
			clr[k] |= m
		}
	})
	oneBit := func(m int64) bool { return m > 0 && m&(m-1) == 0 }
	seen := map[int64]int64{}
	for _, k := range []int64{1, 2, 3, 4, 5, 7, 9} {
		m := set[k]
		dup := false
		for k2, m2 := range seen {
			if m2 == m && k2 != k {
				dup = true
			}
		}
		seen[k] = m
		r.check(oneBit(m) && !dup, fmt.Sprintf("fzf.interpretCode:SGR %d sets one distinct attribute", k), interp.Pos(), interp, fmt.Sprintf("SGR %d sets attribute bit %#x", k, m), fmt.Sprintf("sets %#x (missing, several bits, or shared with another code)", m))
	}
	r.check(clr[22] == set[1]|set[2] && clr[22] != 0, "fzf.interpretCode:SGR 22 clears bold and dim", interp.Pos(), interp, fmt.Sprintf("SGR 22 clears %#x = bits of 1 and 2", clr[22]), fmt.Sprintf("clears %#x, sets are %#x|%#x", clr[22], set[1], set[2]))
	for _, k := range []int64{3, 4, 5, 7, 9} {
		r.check(clr[20+k] == set[k] && set[k] != 0, fmt.Sprintf("fzf.interpretCode:SGR %d undoes SGR %d", 20+k, k), interp.Pos(), interp, fmt.Sprintf("SGR %d clears exactly bit %#x set by SGR %d", 20+k, set[k], k), fmt.Sprintf("clears %#x but SGR %d sets %#x", clr[20+k], k, set[k]))
	}
	r.check(zero[0], "fzf.interpretCode:SGR 0 clears attributes", interp.Pos(), interp, "SGR 0 stores attr = 0", "reset does not clear the attributes")

	r.rule("C11-R4", "E (table consistency from constants)", "P1",
		"interpretCode: under lo <= num <= lo+7 the colour stored is num-lo for lo in {30,40} and num-lo+8 for lo in {90,100}; 30/90 go to fg, 40/100 to bg; 39/49 store -1 into fg/bg; the target of the extended forms is fg under 38 and bg under 48",
		"a basic colour is shown as another one, or a foreground code colours the background")
	type rng struct {
		lo, hi int64
		field  *types.Var
		off    int64
		at     token.Pos
	}
	var found []rng
	eachInstr(interp, func(in ssa.Instruction) {
		st, ok := in.(*ssa.Store)
		if !ok {
			return
		}
		fld, _ := fieldOf(st.Addr)
		if fld != fFg && fld != fBg {
			return
		}
		// value: Convert(num - C [+ 8])
		v := stripConv(st.Val)
		off := int64(0)
		if b, ok := v.(*ssa.BinOp); ok && b.Op == token.ADD {
			if k, isc := constIntVal(b.Y); isc {
				off = k
				v = b.X
			}
		}
		b, ok := v.(*ssa.BinOp)
		if !ok || b.Op != token.SUB || !isNum(b.X) {
			return
		}
		sub, isc := constIntVal(b.Y)
		if !isc {
			return
		}
		// bounds from the path condition
		lo, hi := int64(-1), int64(-1)
		for d := st.Block(); d != nil && (lo < 0 || hi < 0); d = d.Idom() {
			for _, dj := range pc.At(d) {
				for _, lt := range dj {
					x, op, k, ok := cmpInt(lt.Atom)
					if !ok || !isNum(x) {
						continue
					}
					if op == token.GEQ && lt.Val {
						lo = k
					}
					if op == token.LEQ && lt.Val {
						hi = k
					}
				}
				break
			}
		}
		found = append(found, rng{lo, hi, fld, off - sub, st.Pos()})
	})
	sort.Slice(found, func(i, j int) bool { return found[i].lo < found[j].lo })
	want := map[int64]struct {
		f   *types.Var
		off int64
	}{30: {fFg, -30}, 40: {fBg, -40}, 90: {fFg, -90 + 8}, 100: {fBg, -100 + 8}}
	seenLo := map[int64]bool{}
	for _, f := range found {
		w, ok := want[f.lo]
		seenLo[f.lo] = true
		r.check(ok && f.hi == f.lo+7 && f.field == w.f && f.off == w.off, fmt.Sprintf("fzf.interpretCode:colour range %d..%d", f.lo, f.hi), f.at, interp,
			fmt.Sprintf("SGR %d..%d -> %s = num%+d", f.lo, f.hi, f.field.Name(), f.off), "range, target or offset differs from the SGR colour table")
	}
	for lo := range want {
		if !seenLo[lo] {
			r.bad(fmt.Sprintf("fzf.interpretCode:colour range %d", lo), interp.Pos(), interp, fmt.Sprintf("SGR %d..%d handled", lo, lo+7), "range not found")
		}
	}
	// 39/49 and 38/48
	def := map[int64]*types.Var{}
	eachInstr(interp, func(in ssa.Instruction) {
		st, ok := in.(*ssa.Store)
		if !ok || !isConstInt(st.Val, -1) {
			return
		}
		fld, _ := fieldOf(st.Addr)
		if k, ok := codeAt(st.Block()); ok && (fld == fFg || fld == fBg) {
			def[k] = fld
		}
	})
	r.check(def[39] == fFg && def[49] == fBg, "fzf.interpretCode:SGR 39/49", interp.Pos(), interp, "SGR 39 resets fg and 49 resets bg to the default", "default-colour codes reset the wrong field")
	ext := map[int64]*types.Var{}
	eachInstr(interp, func(in ssa.Instruction) {
		phi, ok := in.(*ssa.Phi)
		if !ok {
			return
		}
		for i, e := range phi.Edges {
			fld, _ := fieldOf(e)
			if fld != fFg && fld != fBg {
				continue
			}
			if k, ok := codeAt(phi.Block().Preds[i]); ok {
				ext[k] = fld
			}
		}
	})
	r.check(ext[38] == fFg && ext[48] == fBg, "fzf.interpretCode:SGR 38/48 targets", interp.Pos(), interp, "the extended colour forms write fg after 38 and bg after 48", "38/48 select the wrong target")

	// ---------------- R5: extended colour automaton ----------------
	r.rule("C11-R5", "E (finite automaton extracted from the SSA phi of state256)", "P1",
		"interpretCode: after 38/48 the parser expects 5 (then one parameter stored as the colour, back to state 0) or 2 (then three parameters combined as 1<<24 | r<<16 | g<<8 | b in this order, back to state 0); any other parameter returns to state 0",
		"256-colour or 24-bit sequences yield another colour, or the parameters after them are misread as SGR codes")
	var stPhi *ssa.Phi
	eachInstr(interp, func(in ssa.Instruction) {
		phi, ok := in.(*ssa.Phi)
		if !ok || len(phi.Edges) <= 4 || phi.Referrers() == nil {
			return
		}
		if bt, ok := phi.Type().Underlying().(*types.Basic); !ok || bt.Info()&types.IsInteger == 0 {
			return
		}
		// the parser state is the loop-carried integer that is switched on
		n := 0
		for _, ref := range *phi.Referrers() {
			if b, ok := ref.(*ssa.BinOp); ok && b.Op == token.EQL && b.X == ssa.Value(phi) {
				if _, isc := constIntVal(b.Y); isc {
					n++
				}
			}
		}
		if n >= 3 {
			stPhi = phi
		}
	})
	if stPhi == nil {
		r.unest("fzf.interpretCode:state256", interp.Pos(), interp, "loop-carried parser state", "not found")
		return
	}
	isSt := func(v ssa.Value) bool { return v == ssa.Value(stPhi) }
	type tk struct{ s, n int64 }
	trans := map[tk]int64{}
	for i, e := range stPhi.Edges {
		p := stPhi.Block().Preds[i]
		st, ok := eqAt(p, isSt)
		if !ok {
			continue
		}
		n, okn := codeAt(p)
		if !okn {
			n = -1
		}
		var nx int64
		if k, isc := constIntVal(e); isc {
			nx = k
		} else if b, ok := e.(*ssa.BinOp); ok && b.Op == token.ADD && b.X == ssa.Value(stPhi) {
			k, _ := constIntVal(b.Y)
			nx = st + k
		} else if e == ssa.Value(stPhi) {
			nx = st
		} else {
			continue
		}
		trans[tk{st, n}] = nx
	}
	type stInfo struct {
		shift   int64
		orPrev  bool
		hasFlag bool
		ok      bool
		at      token.Pos
	}
	stores := map[int64]stInfo{}
	eachInstr(interp, func(in ssa.Instruction) {
		st, ok := in.(*ssa.Store)
		if !ok {
			return
		}
		if _, isPhi := st.Addr.(*ssa.Phi); !isPhi {
			return
		}
		s, ok := eqAt(st.Block(), isSt)
		if !ok {
			return
		}
		inf := stInfo{ok: true, at: st.Pos()}
		var walk func(v ssa.Value, d int)
		sawNum := false
		walk = func(v ssa.Value, d int) {
			if d > 8 {
				return
			}
			switch x := v.(type) {
			case *ssa.Convert:
				walk(x.X, d+1)
			case *ssa.ChangeType:
				walk(x.X, d+1)
			case *ssa.BinOp:
				switch x.Op {
				case token.OR:
					walk(x.X, d+1)
					walk(x.Y, d+1)
				case token.SHL:
					if isNum(x.X) {
						sawNum = true
						inf.shift, _ = constIntVal(x.Y)
					}
				default:
					inf.ok = false
				}
			case *ssa.UnOp:
				if x.Op == token.MUL && x.X == st.Addr {
					inf.orPrev = true
				} else {
					inf.ok = false
				}
			case *ssa.Const:
				if k, isc := constIntVal(x); isc && k == 1<<24 {
					inf.hasFlag = true
				} else if isc && k != 0 {
					inf.ok = false
				}
			default:
				if isNum(v) {
					sawNum = true
				} else {
					inf.ok = false
				}
			}
		}
		walk(st.Val, 0)
		if !sawNum {
			return // the trailing *ptr = -1
		}
		stores[s] = inf
	})
	e1, ok1 := trans[tk{0, 38}]
	e2, ok2 := trans[tk{0, 48}]
	r.check(ok1 && ok2 && e1 == e2 && e1 != 0, "fzf.interpretCode:38/48 enter the extended state", interp.Pos(), interp, fmt.Sprintf("38 and 48 move to state %d", e1), "38/48 do not enter one common extended-colour state")
	if !(ok1 && ok2) {
		return
	}
	a, okA := trans[tk{e1, 5}]
	b, okB := trans[tk{e1, 2}]
	d, okD := trans[tk{e1, -1}]
	r.check(okA && okB && a != b && a != 0 && b != 0 && a != e1 && b != e1, "fzf.interpretCode:selector 5 / 2", interp.Pos(), interp, fmt.Sprintf("5 selects state %d (256 colours), 2 selects state %d (24 bit)", a, b), "the 5 / 2 selectors are not distinguished")
	r.check(okD && d == 0, "fzf.interpretCode:other selector leaves the extended state", interp.Pos(), interp, "any other selector returns to state 0", "an unknown selector leaves the parser in the extended state")
	if !(okA && okB) {
		return
	}
	sa := stores[a]
	r.check(sa.ok && sa.shift == 0 && !sa.orPrev && !sa.hasFlag && trans[tk{a, -1}] == 0, "fzf.interpretCode:256-colour parameter", sa.at, interp, "38;5;n stores n and returns to state 0", "the 256-colour parameter is stored differently or the parser does not return to state 0")
	wantShift := []int64{16, 8, 0}
	cur := b
	for i, sh := range wantShift {
		si, has := stores[cur]
		nx, hasNx := trans[tk{cur, -1}]
		okS := has && si.ok && si.shift == sh && si.hasFlag == (i == 0) && si.orPrev == (i > 0) && hasNx
		if i == 2 {
			okS = okS && nx == 0
		} else {
			okS = okS && nx != 0 && nx != cur
		}
		r.check(okS, fmt.Sprintf("fzf.interpretCode:24-bit component %d", i), si.at, interp, fmt.Sprintf("component %d is shifted by %d and combined in order", i, sh), fmt.Sprintf("component %d: shift %d, keeps previous %v, flag %v, next state %d", i, si.shift, si.orPrev, si.hasFlag, nx))
		cur = nx
	}
}

// c11wiring: R7 — the per-line wiring of extractColor.
func c11wiring(c *Ctx, r *Report) {
	l := c.L
	ec := l.Fn("fzf", "extractColor")
	run := l.Fn("fzf", "Run")
	r.rule("C11-R7", "D (result use) + P (state carry)", "P1",
		"(a) every --ansi line processor in Run returns the text extractColor produced (result #0) and, when colours are kept, its spans (result #1); (b) wherever extractColor is given a state that lives in a variable across lines (closure cell or loop-carried value), the state it returns (result #2) is what that variable holds for the next line",
		"lines are stored with their escape sequences, colours of another line are attached, or the colour state is not carried to the next line")
	if ec == nil || run == nil {
		r.unest("anchors", token.NoPos, nil, "anchors extractColor / Run", "cannot resolve")
		return
	}
	nProc, nCarry := 0, 0
	for _, fn := range c.L.AllFuncs() {
		eachInstr(fn, func(in ssa.Instruction) {
			call, ok := in.(*ssa.Call)
			if !ok || call.Common().StaticCallee() != ec {
				return
			}
			ext := map[int]ssa.Value{}
			if call.Referrers() != nil {
				for _, ref := range *call.Referrers() {
					if ex, ok := ref.(*ssa.Extract); ok {
						ext[ex.Index] = ex
					}
				}
			}
			// (a) line processors: closures of Run returning (Chars, *[]ansiOffset)
			if fn.Parent() == run && fn.Signature.Results().Len() == 2 {
				nProc++
				for _, b := range fn.Blocks {
					ret, ok := b.Instrs[len(b.Instrs)-1].(*ssa.Return)
					if !ok {
						continue
					}
					fromText := false
					for v := range backwardSlice(retResult(ret, 0), func(*ssa.CallCommon) bool { return true }, nil) {
						if ext[0] != nil && v == ext[0] {
							fromText = true
						}
					}
					r.check(fromText, shortFn(fn)+":text = stripped text", ret.Pos(), fn, "the line's text is result #0 of extractColor", "the line's text does not come from the stripped result")
					col := retResult(ret, 1)
					_, isNil := col.(*ssa.Const)
					r.check(isNil || (ext[1] != nil && col == ext[1]), shortFn(fn)+":colours = spans", ret.Pos(), fn, "the line's colours are result #1 of the same call (or none)", "the colours do not come from the same call")
				}
			}
			// (b) carry
			st := call.Call.Args[1]
			if _, isNil := st.(*ssa.Const); isNil {
				return
			}
			key := fmt.Sprintf("%s:state carry @%s", shortFn(fn), st.Name())
			switch x := st.(type) {
			case *ssa.UnOp:
				if x.Op != token.MUL {
					return
				}
				cell := cellRoot(x.X)
				if cell == nil {
					return
				}
				// only variables, not fields of longer-lived objects
				if _, isAlloc := cell.(*ssa.Alloc); !isAlloc {
					if _, isFV := x.X.(*ssa.FreeVar); !isFV {
						return
					}
				}
				nCarry++
				okC := false
				for _, s := range storesToCell(cell) {
					if ext[2] != nil && s.Val == ext[2] {
						okC = true
					}
				}
				r.check(okC, key, call.Pos(), fn, "the returned state is stored back into the variable the state was read from", "the returned state is dropped: the next line starts from a stale state")
			case *ssa.Phi:
				nCarry++
				okC := false
				var walk func(p *ssa.Phi, d int)
				walk = func(p *ssa.Phi, d int) {
					for _, e := range p.Edges {
						if ext[2] != nil && e == ext[2] {
							okC = true
						}
						if q, ok := e.(*ssa.Phi); ok && d < 3 && q != x {
							walk(q, d+1)
						}
					}
				}
				walk(x, 0)
				r.check(okC, key, call.Pos(), fn, "the returned state is the loop-carried state of the next iteration", "the returned state is dropped: the next line starts from a stale state")
			}
		})
	}
	// (c) a state rendered back to text in front of a piece is the state BEFORE that piece was scanned
	toStr := l.Fn("fzf", "(*ansiState).ToString")
	nPre := 0
	if toStr != nil {
		for _, fn := range c.L.AllFuncs() {
			var ecCalls []*ssa.Call
			eachInstr(fn, func(in ssa.Instruction) {
				if call, ok := in.(*ssa.Call); ok && call.Common().StaticCallee() == ec {
					ecCalls = append(ecCalls, call)
				}
			})
			if len(ecCalls) == 0 {
				continue
			}
			eachInstr(fn, func(in ssa.Instruction) {
				call, ok := in.(*ssa.Call)
				if !ok || !callIs(call.Common(), toStr) {
					return
				}
				nPre++
				recv := callArgs(call.Common())[0]
				okPre := false
				for _, e := range ecCalls {
					if e.Call.Args[1] == recv {
						okPre = true
					}
				}
				r.check(okPre, shortFn(fn)+":re-emitted state is the state before the piece", call.Pos(), fn, "the state written in front of a token is the one extractColor was given for that token", "the token is prefixed with the state after it (or an unrelated one): colours leak backwards")
			})
		}
	}
	r.floor("re-emitted states (ansiState.ToString next to extractColor)", nPre, 1)
	r.floor("--ansi line processors in Run", nProc, 2)
	r.floor("extractColor call sites with a carried state", nCarry, 3)
}

// c11ownership: R8 (the caller's state object is never written) and R9 (skip sentinel agreement).
func c11ownership(c *Ctx, r *Report) {
	l := c.L
	tState := l.Named("fzf", "ansiState")
	r.rule("C11-R8", "A (ownership: writes through a parameter)", "P1",
		"no function of package fzf stores through a pointer derived from an *ansiState parameter: the state handed in for the previous text stays what it was, the new state is a new object",
		"the state a caller kept for the previous line/token changes under it: colours of earlier text are rewritten")
	if tState == nil {
		r.unest("anchors", token.NoPos, nil, "type ansiState", "cannot resolve")
		return
	}
	isStatePtr := func(t types.Type) bool {
		p, ok := t.Underlying().(*types.Pointer)
		return ok && types.Identical(p.Elem(), tState)
	}
	nFn, nSt := 0, 0
	for _, fn := range l.AllFuncs() {
		if fn.Pkg == nil || fn.Pkg != l.pkg("fzf") {
			continue
		}
		var ps []*ssa.Parameter
		for _, p := range fn.Params {
			if isStatePtr(p.Type()) {
				ps = append(ps, p)
			}
		}
		if len(ps) == 0 {
			continue
		}
		nFn++
		eachInstr(fn, func(in ssa.Instruction) {
			st, ok := in.(*ssa.Store)
			if !ok {
				return
			}
			// root of the address through field/index selection and phis
			seen := map[ssa.Value]bool{}
			var roots []ssa.Value
			var walk func(v ssa.Value)
			walk = func(v ssa.Value) {
				if seen[v] {
					return
				}
				seen[v] = true
				switch x := v.(type) {
				case *ssa.FieldAddr:
					walk(x.X)
				case *ssa.IndexAddr:
					walk(x.X)
				case *ssa.Phi:
					for _, e := range x.Edges {
						walk(e)
					}
				default:
					roots = append(roots, v)
				}
			}
			walk(st.Addr)
			nSt++
			for _, root := range roots {
				for _, p := range ps {
					if root == ssa.Value(p) {
						r.bad(fmt.Sprintf("%s:store through %s", shortFn(fn), p.Name()), st.Pos(), fn, "state parameters are read-only", "writes the caller's state object in place")
						return
					}
				}
			}
		})
		r.ok(fmt.Sprintf("%s:state parameters read-only", shortFn(fn)), fn.Pos(), fn, "no store through an *ansiState parameter")
	}
	r.floor("functions taking an *ansiState", nFn, 3)

	r.rule("C11-R9", "E (writer/reader agreement on a sentinel)", "P1",
		"the value parseAnsiCode returns for an empty or non-numeric parameter is the value interpretCode skips: every constant first result of parseAnsiCode equals the constant interpretCode compares the parameter with before interpreting it, and a computed result is returned only where at least one character was available",
		"empty parameters (ESC[;m, 38:2::r:g:b) are interpreted as codes: attributes reset or colour components shifted")
	parse := l.Fn("fzf", "parseAnsiCode")
	interp := l.Fn("fzf", "interpretCode")
	if parse == nil || interp == nil {
		r.unest("anchors", token.NoPos, nil, "anchors parseAnsiCode / interpretCode", "cannot resolve")
		return
	}
	var skip *int64
	var skipAt token.Pos
	guardsCount := map[ssa.Value]bool{}
	{
		cdc := cdCache{}
		eachInstr(interp, func(in ssa.Instruction) {
			bo, ok := in.(*ssa.BinOp)
			if !ok || bo.Op != token.ADD || !isConstInt(bo.Y, 1) {
				return
			}
			if phi, ok := bo.X.(*ssa.Phi); ok && phi.Comment == "count" {
				for cond := range cdc.of(in) {
					guardsCount[cond] = true
				}
			}
		})
	}
	eachInstr(interp, func(in ssa.Instruction) {
		b, ok := in.(*ssa.BinOp)
		if !ok || (b.Op != token.NEQ && b.Op != token.EQL) {
			return
		}
		ex, ok := b.X.(*ssa.Extract)
		if !ok || ex.Index != 0 {
			return
		}
		call, ok := ex.Tuple.(*ssa.Call)
		if !ok || call.Common().StaticCallee() != parse {
			return
		}
		// the comparison that guards the whole interpretation: it sits in the call's block, or it is one of
		// the conditions the counting of the parameter (count++) is control dependent on (the call and the
		// test may be separate statements)
		if b.Block() != call.Block() && !guardsCount[ssa.Value(b)] {
			return
		}
		if k, isc := constIntVal(b.Y); isc && skip == nil {
			skip, skipAt = &k, b.Pos()
		}
	})
	if skip == nil {
		r.unest("fzf.interpretCode:skip test", interp.Pos(), interp, "comparison of the parsed parameter with the skip sentinel", "not found")
		return
	}
	r.ok("fzf.interpretCode:skip test", skipAt, interp, fmt.Sprintf("interpretCode skips parameters equal to %d", *skip))
	pc := pathConds(parse)
	nRet := 0
	for _, b := range parse.Blocks {
		ret, ok := b.Instrs[len(b.Instrs)-1].(*ssa.Return)
		if !ok {
			continue
		}
		nRet++
		res := retResult(ret, 0)
		if k, isc := constIntVal(res); isc {
			r.check(k == *skip, fmt.Sprintf("fzf.parseAnsiCode:constant result %d", k), ret.Pos(), parse, fmt.Sprintf("returns the skip sentinel %d", *skip), fmt.Sprintf("returns %d, which interpretCode interprets as a code", k))
			continue
		}
		// computed result: only with len(s) > 0
		okLen := false
		for d := b; d != nil && !okLen; d = d.Idom() {
			for _, dj := range pc.At(d) {
				for _, lt := range dj {
					x, op, k, ok := cmpInt(lt.Atom)
					if !ok {
						continue
					}
					if call, isCall := x.(*ssa.Call); isCall && calleeName(call.Common()) == "builtin.len" {
						if (op == token.GTR && k == 0 && lt.Val) || (op == token.EQL && k == 0 && !lt.Val) || (op == token.NEQ && k == 0 && lt.Val) || (op == token.GEQ && k == 1 && lt.Val) {
							okLen = true
						}
					}
				}
			}
		}
		r.check(okLen, "fzf.parseAnsiCode:computed result", ret.Pos(), parse, "a computed code is returned only for a non-empty parameter", "a computed code is returned for an empty parameter")
	}
	r.floor("returns of parseAnsiCode", nRet, 3)
}

// c11resets: R10 — one state object, and sibling reset sites agree.
func c11resets(c *Ctx, r *Report) {
	l := c.L
	r.rule("C11-R10", "B (return census) + sibling agreement", "P1",
		"interpretCode returns, at every return, the one local state that was initialised from the previous state (so every field a sequence does not mention is carried over); all sites that reset the attributes (ESC[m, an empty parameter list, SGR 0) overwrite the same set of fields with the same constants",
		"one spelling of a reset also drops (or keeps) the hyperlink / line background while the others do not; state not mentioned by a sequence is lost")
	interp := l.Fn("fzf", "interpretCode")
	tState := l.Named("fzf", "ansiState")
	fAttr := l.Field("fzf", "ansiState", "attr")
	if interp == nil || tState == nil || fAttr == nil {
		r.unest("anchors", token.NoPos, nil, "anchors interpretCode / ansiState", "cannot resolve")
		return
	}
	// the local initialised from prevState: an Alloc of ansiState that receives a store whose value is built from loads of prevState's fields
	prev := interp.Params[1]
	var local *ssa.Alloc
	eachInstr(interp, func(in ssa.Instruction) {
		st, ok := in.(*ssa.Store)
		if !ok {
			return
		}
		base := addrRoot(st.Addr)
		a, ok := base.(*ssa.Alloc)
		if !ok || !types.Identical(deref(a.Type()), tState) {
			return
		}
		for v := range backwardSlice(st.Val, nil, nil) {
			if v == ssa.Value(prev) {
				local = a
			}
		}
	})
	if local == nil {
		r.unest("fzf.interpretCode:state", interp.Pos(), interp, "local state initialised from prevState", "not found")
		return
	}
	nRet := 0
	for _, b := range interp.Blocks {
		ret, ok := b.Instrs[len(b.Instrs)-1].(*ssa.Return)
		if !ok {
			continue
		}
		nRet++
		res := retResult(ret, 0)
		u, ok := res.(*ssa.UnOp)
		r.check(ok && u.Op == token.MUL && u.X == ssa.Value(local), "fzf.interpretCode:returns the carried state", ret.Pos(), interp, "returns the local state derived from prevState", "returns another object: fields the sequence did not mention are not carried over")
	}
	r.floor("returns of interpretCode", nRet, 3)
	// reset sites: blocks that store the constant 0 into state.attr
	type site struct {
		at   token.Pos
		sets map[string]string
	}
	var sites []site
	pcI := pathConds(interp)
	for _, b := range interp.Blocks {
		sets := map[string]string{}
		isReset := false
		for _, in := range b.Instrs {
			st, ok := in.(*ssa.Store)
			if !ok {
				continue
			}
			fa, ok := st.Addr.(*ssa.FieldAddr)
			if !ok || fa.X != ssa.Value(local) {
				continue
			}
			fld := tState.Underlying().(*types.Struct).Field(fa.Field)
			if cst, ok := st.Val.(*ssa.Const); ok {
				sets[fld.Name()] = cst.String()
				if fld == fAttr && isConstInt(cst, 0) {
					isReset = true
				}
			}
		}
		if isReset {
			// the initialisation under `prevState == nil` is not a reset of a carried state
			init := true
			ds := pcI.At(b)
			for _, dj := range ds {
				if !hasLit(dj, func(a ssa.Value, v bool) bool {
					bo, ok := a.(*ssa.BinOp)
					if !ok || !(bo.X == ssa.Value(prev) || bo.Y == ssa.Value(prev)) {
						return false
					}
					return (bo.Op == token.EQL && v) || (bo.Op == token.NEQ && !v) // prevState == nil holds
				}) {
					init = false
				}
			}
			if len(ds) == 0 {
				init = false
			}
			if !init {
				sites = append(sites, site{b.Instrs[0].Pos(), sets})
			}
		}
	}
	r.floor("attribute reset sites in interpretCode", len(sites), 3)
	if len(sites) > 0 {
		ref := fmt.Sprint(sites[0].sets)
		for i, s := range sites {
			at := s.at
			if !at.IsValid() {
				at = interp.Pos()
			}
			r.check(fmt.Sprint(s.sets) == ref, fmt.Sprintf("fzf.interpretCode:reset site %d agrees", i), at, interp, "resets "+fmt.Sprint(s.sets), "resets "+fmt.Sprint(s.sets)+" but the first site resets "+ref)
		}
	}
}

// c11separators: R11 — both SGR parameter separators are searched for before a parameter is split off.
func c11separators(c *Ctx, r *Report) {
	l := c.L
	r.rule("C11-R11", "P (must-pass-through) + E (separator class)", "P1",
		"parseAnsiCode cuts the next parameter at a separator of the class [;:] (the class the scanner admits inside a CSI sequence): on every path to the cut, the remaining text has been searched for each of the separator bytes the function knows",
		"in a sequence that uses both separators (ESC[38:5:100;4m) the cut is made at a later `;` although a `:` comes first: the colour is dropped or misread")
	parse := l.Fn("fzf", "parseAnsiCode")
	if parse == nil {
		r.unest("anchors", token.NoPos, nil, "anchor parseAnsiCode", "cannot resolve")
		return
	}
	// separator searches: strings.IndexByte(_, const) / IndexAny / IndexRune
	type search struct {
		sep string
		in  ssa.Instruction
	}
	var searches []search
	seps := map[string]bool{}
	eachInstr(parse, func(in ssa.Instruction) {
		cc, ok := isCall(in, "strings.IndexByte", "strings.IndexRune", "strings.IndexAny")
		if !ok {
			return
		}
		a := callArgs(cc)[1]
		if k, isc := constIntVal(a); isc {
			s := string(rune(k))
			searches = append(searches, search{s, in})
			seps[s] = true
		} else if s, isc := constString(a); isc {
			for _, ch := range s {
				searches = append(searches, search{string(ch), in})
				seps[string(ch)] = true
			}
		}
	})
	r.floor("separator searches in parseAnsiCode", len(searches), 2)
	// the cut: slices of the parameter s whose bound derives from a search result
	s0 := parse.Params[0]
	var cuts []ssa.Instruction
	eachInstr(parse, func(in ssa.Instruction) {
		sl, ok := in.(*ssa.Slice)
		if !ok {
			return
		}
		isParam := false
		for v := range backwardSlice(sl.X, nil, nil) {
			if v == ssa.Value(s0) {
				isParam = true
			}
		}
		if !isParam {
			return
		}
		// a prefix that is only the haystack of another separator search is not the cut
		if sl.Referrers() != nil && len(*sl.Referrers()) > 0 {
			onlyHaystack := true
			for _, ref := range *sl.Referrers() {
				isS := false
				for _, se := range searches {
					if se.in == ref {
						isS = true
					}
				}
				if !isS {
					onlyHaystack = false
				}
			}
			if onlyHaystack {
				return
			}
		}
		for _, bnd := range []ssa.Value{sl.Low, sl.High} {
			if bnd == nil {
				continue
			}
			for v := range backwardSlice(bnd, nil, nil) {
				if call, ok := v.(*ssa.Call); ok {
					for _, se := range searches {
						if se.in == ssa.Instruction(call) {
							cuts = append(cuts, in)
							return
						}
					}
				}
			}
		}
	})
	r.floor("cuts of the parameter string", len(cuts), 1)
	var sepList []string
	for s := range seps {
		sepList = append(sepList, s)
	}
	sort.Strings(sepList)
	entry := parse.Blocks[0].Instrs[0]
	for _, sep := range sepList {
		isSearch := func(in ssa.Instruction) bool {
			for _, se := range searches {
				if se.in == in && se.sep == sep {
					return true
				}
			}
			return false
		}
		isCut := func(in ssa.Instruction) bool {
			for _, c := range cuts {
				if c == in {
					return true
				}
			}
			return false
		}
		var bad ssa.Instruction
		if !isSearch(entry) { // pathAvoiding starts after `entry`
			bad = pathAvoiding(entry, isCut, isSearch, nil)
		}
		key := fmt.Sprintf("fzf.parseAnsiCode:cut after searching %q", sep)
		if bad != nil {
			r.bad(key, bad.Pos(), parse, fmt.Sprintf("every path to the cut has searched for %q", sep), fmt.Sprintf("a path reaches the cut at %s without having looked for %q: an earlier %q is ignored when another separator occurs later", l.pos(bad.Pos()), sep, sep))
		} else {
			r.ok(key, parse.Pos(), parse, fmt.Sprintf("every path to the cut has searched for %q", sep))
		}
	}
}

// c11compare: R12 — the state comparator and the "has any effect" test look at every field.
func c11compare(c *Ctx, r *Report) {
	l := c.L
	r.rule("C11-R12", "E (comparator completeness over the struct's fields)", "P1",
		"ansiState.equals compares every field of ansiState between its two operands, and ansiState.colored tests every field: a new span is opened (and the carried state updated) whenever any component of the state changes",
		"a change that only touches the forgotten component (line background, hyperlink) opens no span and is not carried over")
	tState := l.Named("fzf", "ansiState")
	eq := l.Fn("fzf", "(*ansiState).equals")
	col := l.Fn("fzf", "(*ansiState).colored")
	if tState == nil || eq == nil || col == nil {
		r.unest("anchors", token.NoPos, nil, "anchors ansiState / equals / colored", "cannot resolve")
		return
	}
	st := tState.Underlying().(*types.Struct)
	// equals: comparisons s.F == t.F
	cmp := map[string]bool{}
	eachInstr(eq, func(in ssa.Instruction) {
		b, ok := in.(*ssa.BinOp)
		if !ok || (b.Op != token.EQL && b.Op != token.NEQ) {
			return
		}
		f1, b1 := loadOfField(b.X)
		f2, b2 := loadOfField(b.Y)
		if f1 != nil && f1 == f2 && b1 != b2 {
			cmp[f1.Name()] = true
		}
	})
	tested := map[string]bool{}
	eachInstr(col, func(in ssa.Instruction) {
		b, ok := in.(*ssa.BinOp)
		if !ok {
			return
		}
		if f, _ := loadOfField(b.X); f != nil {
			tested[f.Name()] = true
		}
		if f, _ := loadOfField(b.Y); f != nil {
			tested[f.Name()] = true
		}
	})
	for i := 0; i < st.NumFields(); i++ {
		f := st.Field(i).Name()
		r.check(cmp[f], "fzf.ansiState.equals:compares "+f, eq.Pos(), eq, "s."+f+" is compared with t."+f, "the comparator ignores "+f)
		r.check(tested[f], "fzf.ansiState.colored:tests "+f, col.Pos(), col, "colored() looks at "+f, "colored() ignores "+f)
	}
	r.floor("fields of ansiState", st.NumFields(), 5)

	r.rule("C11-R13", "A (no shortcut around the scanner)", "P1",
		"no call of extractColor is guarded by a byte/substring search of the text it is about to scan (IndexByte, Contains, ...): which bytes start a sequence is the scanner's business (ESC, BS, SO, SI), a caller-side pre-test that knows fewer of them leaves the others in the text",
		"lines with backspace overstrikes or shift-in/out but no ESC keep their control characters in the printed / searchable text")
	ec := l.Fn("fzf", "extractColor")
	if ec == nil {
		r.unest("anchors", token.NoPos, nil, "anchor extractColor", "cannot resolve")
		return
	}
	searchNames := map[string]bool{"bytes.IndexByte": true, "bytes.Contains": true, "bytes.ContainsRune": true, "bytes.ContainsAny": true, "bytes.IndexAny": true, "bytes.Index": true, "bytes.IndexRune": true,
		"strings.IndexByte": true, "strings.Contains": true, "strings.ContainsRune": true, "strings.ContainsAny": true, "strings.IndexAny": true, "strings.Index": true, "strings.IndexRune": true}
	n := 0
	for _, fn := range l.AllFuncs() {
		if fn.Pkg != l.pkg("fzf") {
			continue
		}
		var pc *PathConds
		eachInstr(fn, func(in ssa.Instruction) {
			call, ok := in.(*ssa.Call)
			if !ok || call.Common().StaticCallee() != ec {
				return
			}
			n++
			if pc == nil {
				pc = pathConds(fn)
			}
			// data the text argument is made of
			textSrc := backwardSlice(call.Call.Args[0], func(*ssa.CallCommon) bool { return true }, nil)
			var bad ssa.Value
			for d := in.Block(); d != nil; d = d.Idom() {
				for _, dj := range pc.At(d) {
					for _, lt := range dj {
						for v := range backwardSlice(lt.Atom, func(*ssa.CallCommon) bool { return true }, nil) {
							c2, ok := v.(*ssa.Call)
							if !ok || !searchNames[calleeName(c2.Common())] {
								continue
							}
							for w := range backwardSlice(c2.Call.Args[0], func(*ssa.CallCommon) bool { return true }, nil) {
								if _, isConst := w.(*ssa.Const); !isConst && textSrc[w] {
									if _, isParam := w.(*ssa.Parameter); isParam || true {
										bad = c2
									}
								}
							}
						}
					}
				}
			}
			key := fmt.Sprintf("%s:extractColor #%d is not behind a caller-side search", relName(fn), n)
			if bad != nil {
				r.bad(key, call.Pos(), fn, "the scanner sees every line", "the call is reached only after "+describe(bad)+" at "+l.pos(bad.Pos())+": lines without that byte are not scanned")
			} else {
				r.ok(key, call.Pos(), fn, "no search of the text decides whether the scanner runs")
			}
		})
	}
	r.floor("call sites of extractColor", n, 6)
}
