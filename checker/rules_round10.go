package main

import (
	"fmt"
	"go/ast"
	"go/constant"
	"go/token"
	"go/types"
	"os"
	"path/filepath"
	"regexp"
	"regexp/syntax"
	"sort"
	"strings"

	"golang.org/x/tools/go/ssa"
)

// Round 10: rules written for the round-10 mutants that arrived undetected (the rules for the defects of
// round 10, D76..D83, are in rules_round9.go).

// fzfFuncDecl returns the syntax of a top-level function (or method, "Recv.name") of package fzf.
func fzfFuncDecl(l *Loaded, pkg, name string) *ast.FuncDecl {
	pp := l.ByPath[pkgAlias[pkg]]
	if pp == nil {
		return nil
	}
	recv := ""
	if i := strings.Index(name, "."); i >= 0 {
		recv, name = name[:i], name[i+1:]
	}
	for _, file := range pp.Syntax {
		for _, decl := range file.Decls {
			fd, ok := decl.(*ast.FuncDecl)
			if !ok || fd.Name.Name != name || fd.Body == nil {
				continue
			}
			if recv == "" && fd.Recv == nil {
				return fd
			}
			if recv != "" && fd.Recv != nil && len(fd.Recv.List) == 1 {
				t := fd.Recv.List[0].Type
				if st, ok := t.(*ast.StarExpr); ok {
					t = st.X
				}
				if id, ok := t.(*ast.Ident); ok && id.Name == recv {
					return fd
				}
			}
		}
	}
	return nil
}

// c01r15: an extended query keeps a trailing blank that is escaped ("foo\ " searches for "foo "): BuildPattern
// removes leading blanks with TrimLeft and trailing ones in a loop that stops in front of `\ ` (round-10 mutant
// C01c10 replaced both by strings.Trim: the query `foo\ ` lost its blank and then its backslash matched nothing).
func c01r15(c *Ctx, r *Report) {
	l := c.L
	r.rule("C01-R15", "D (the escaped trailing blank survives)", "P1",
		"in BuildPattern, nothing derived from the query runes is passed to strings.Trim / TrimRight / TrimSpace / TrimSuffix, and every slice expression that shortens the query string from the right is control dependent on a strings.HasSuffix test with the escaped blank `\\ `",
		"an extended query that ends in an escaped blank is cut to a dangling backslash: `foo\\ ` no longer finds the lines containing \"foo \"")
	fn := l.Fn("fzf", "BuildPattern")
	if fn == nil || len(fn.Params) < 1 {
		r.unest("anchors", token.NoPos, nil, "anchor BuildPattern", "cannot resolve")
		return
	}
	var runes ssa.Value
	for _, p := range fn.Params {
		if p.Name() == "runes" {
			runes = p
		}
	}
	if runes == nil {
		r.unest("anchors", token.NoPos, fn, "parameter runes of BuildPattern", "cannot resolve")
		return
	}
	derived := forwardDerived(fn, []ssa.Value{runes}, func(cc *ssa.CallCommon) bool { return strings.HasPrefix(calleeName(cc), "strings.") })
	cc := cdCache{}
	trims, cuts := 0, 0
	eachInstr(fn, func(in ssa.Instruction) {
		switch x := in.(type) {
		case *ssa.Call:
			name := calleeName(x.Common())
			switch name {
			case "strings.Trim", "strings.TrimRight", "strings.TrimSpace", "strings.TrimSuffix", "strings.TrimRightFunc", "strings.TrimFunc":
				if len(x.Call.Args) > 0 && derived[x.Call.Args[0]] {
					trims++
					r.bad(fmt.Sprintf("%s:%s on the query", relName(fn), name), x.Pos(), fn, "the query is not trimmed from the right without regard to the escape",
						name+" removes the blank of a trailing `\\ ` as well")
				}
			}
		case *ssa.Slice:
			// s[:len(s)-k] of a string derived from the query
			if !derived[x.X] || x.High == nil {
				return
			}
			if _, isStr := x.X.Type().Underlying().(*types.Basic); !isStr {
				return
			}
			bo, ok := x.High.(*ssa.BinOp)
			if !ok || bo.Op != token.SUB {
				return
			}
			cuts++
			guarded := false
			for cond := range cc.of(x) {
				for v := range backwardSlice(cond, nil, nil) {
					call, ok := v.(*ssa.Call)
					if !ok || calleeName(call.Common()) != "strings.HasSuffix" || len(call.Call.Args) != 2 {
						continue
					}
					if s, ok := constString(call.Call.Args[1]); ok && s == "\\ " {
						guarded = true
					}
				}
			}
			r.check(guarded, fmt.Sprintf("%s:right cut #%d of the query string", relName(fn), cuts), x.Pos(), fn,
				"the cut happens only when the string does not end in an escaped blank", "the string is shortened from the right with no test for the escaped blank `\\ `")
		}
	})
	if trims == 0 {
		r.ok(relName(fn)+":no right trim of the query", fn.Pos(), fn, "no strings.Trim/TrimRight/TrimSpace/TrimSuffix on the query in BuildPattern")
	}
	r.floor("right cuts of the query string in BuildPattern", cuts, 1)
}

// manSchemeTiebreaks reads the --scheme section of the man page: scheme name -> the tiebreak list it is
// documented to set ("This also sets --tiebreak=pathname,length").
func manSchemeTiebreaks(repo string) (map[string][]string, string, error) {
	data, err := os.ReadFile(filepath.Join(repo, "man", "man1", "fzf.1"))
	if err != nil {
		return nil, "", err
	}
	text := string(data)
	start := strings.Index(text, `.BI "\-\-scheme="`)
	if start < 0 {
		return nil, "", fmt.Errorf("no --scheme section in man/man1/fzf.1")
	}
	sec := text[start:]
	if end := strings.Index(sec[1:], "\n.TP"); end >= 0 {
		sec = sec[:end+1]
	}
	res := map[string][]string{}
	reName := regexp.MustCompile(`(?m)^\.B (\w+)\s*$`)
	reTie := regexp.MustCompile(`\\-\\-tiebreak=([a-z,]+)`)
	idx := reName.FindAllStringSubmatchIndex(sec, -1)
	for i, m := range idx {
		name := sec[m[2]:m[3]]
		end := len(sec)
		if i+1 < len(idx) {
			end = idx[i+1][0]
		}
		body := strings.ReplaceAll(sec[m[1]:end], "\n", " ")
		if tm := reTie.FindStringSubmatch(body); tm != nil {
			res[name] = strings.Split(tm[1], ",")
		} else {
			res[name] = nil
		}
	}
	// documented default of --tiebreak
	def := ""
	if i := strings.Index(text, `.BI "\-\-tiebreak="`); i >= 0 {
		s := text[i:]
		if e := strings.Index(s[1:], "\n.SS"); e >= 0 {
			s = s[:e+1]
		}
		if m := regexp.MustCompile(`Default is \\fB([a-z,]+)\\fR`).FindStringSubmatch(s); m != nil {
			def = m[1]
		}
	}
	return res, def, nil
}

// c04r17: --scheme=NAME sets the tie-break criteria the manual documents for NAME, in the documented order
// (round-10 mutant C04c10 returned {byScore, byLength, byPathname} for "path": equal scores were ranked by
// length first and the file-name criterion only broke the remaining ties).
func c04r17(c *Ctx, r *Report) {
	l := c.L
	r.rule("C04-R17", "E (parseScheme <-> man page)", "P1",
		"for every scheme named in the --scheme section of man/man1/fzf.1, the criteria list parseScheme returns for that name is byScore followed by the constants by<Name> of the --tiebreak list the section documents (index is the implicit last criterion), in that order; a scheme documented without a list gets the documented --tiebreak default",
		"--scheme=path (the default on a terminal) ranks equal scores by another order of criteria than documented")
	fd := fzfFuncDecl(l, "fzf", "parseScheme")
	if fd == nil {
		r.unest("anchors", token.NoPos, nil, "syntax of parseScheme", "cannot resolve")
		return
	}
	doc, def, err := manSchemeTiebreaks(c.Repo)
	if err != nil {
		r.unest("anchors", token.NoPos, nil, "the --scheme section of the man page", err.Error())
		return
	}
	got := map[string][]string{}
	pos := map[string]token.Pos{}
	ast.Inspect(fd.Body, func(nd ast.Node) bool {
		cc, ok := nd.(*ast.CaseClause)
		if !ok {
			return true
		}
		for _, e := range cc.List {
			lit, ok := e.(*ast.BasicLit)
			if !ok || lit.Kind != token.STRING {
				continue
			}
			name := strings.Trim(lit.Value, "\"`")
			for _, st := range cc.Body {
				ret, ok := st.(*ast.ReturnStmt)
				if !ok || len(ret.Results) < 2 {
					continue
				}
				cl, ok := ret.Results[1].(*ast.CompositeLit)
				if id, isId := ret.Results[1].(*ast.Ident); !ok && isId {
					// a local variable defined in the clause by a composite literal
					for _, st2 := range cc.Body {
						as, isAs := st2.(*ast.AssignStmt)
						if !isAs || len(as.Lhs) != 1 || len(as.Rhs) != 1 {
							continue
						}
						if l, isL := as.Lhs[0].(*ast.Ident); isL && l.Name == id.Name {
							cl, ok = as.Rhs[0].(*ast.CompositeLit)
						}
					}
				}
				if !ok {
					continue
				}
				var ids []string
				for _, el := range cl.Elts {
					if id, ok := el.(*ast.Ident); ok {
						ids = append(ids, id.Name)
					} else {
						ids = append(ids, "?")
					}
				}
				got[name] = ids
				pos[name] = ret.Pos()
			}
		}
		return true
	})
	fn := l.Fn("fzf", "parseScheme")
	names := make([]string, 0, len(doc))
	for n := range doc {
		names = append(names, n)
	}
	sort.Strings(names)
	n := 0
	for _, name := range names {
		list := doc[name]
		if list == nil && def != "" {
			list = strings.Split(def, ",")
		}
		want := []string{"byScore"}
		for _, t := range list {
			if t == "index" {
				continue
			}
			want = append(want, "by"+strings.ToUpper(t[:1])+t[1:])
		}
		g, found := got[name]
		key := "fzf.parseScheme:criteria of scheme " + name
		if !found {
			r.bad(key, fd.Pos(), fn, "the documented scheme has a case in parseScheme", "no case clause returns a criteria list for the documented scheme \""+name+"\"")
			continue
		}
		n++
		r.check(strings.Join(g, ",") == strings.Join(want, ","), key, pos[name], fn,
			"the criteria are "+strings.Join(want, ", ")+" as documented",
			"parseScheme returns "+strings.Join(g, ", ")+" but the manual documents "+strings.Join(want, ", "))
	}
	r.floor("documented schemes compared with parseScheme", n, 3)
}

// c06r14: the matcher cuts the chunk list into slices, in input order, and searches them concurrently. The
// partial result of slice i has to end up at position i of the lists handed to NewMerger — with --no-sort the
// merger concatenates them (round-10 mutant C06a10 appended the partial results in the order the workers
// finished: unsorted output came out with whole blocks of lines swapped).
func c06r14(c *Ctx, r *Report) {
	l := c.L
	r.rule("C06-R14", "D (slot of a partial result = ordinal of its slice)", "P1",
		"in Matcher.scan, the lists handed to NewMerger are a slice made with one slot per chunk slice, and every store into it puts the `matches` of a received partialResult at the position given by the `index` of the same partialResult",
		"partial results are merged in completion order: with --no-sort (and for equal ranks) lines come out in an order that is not the input order")
	fn := l.Fn("fzf", "(*Matcher).scan")
	nm := l.Fn("fzf", "NewMerger")
	fIdx := l.Field("fzf", "partialResult", "index")
	fM := l.Field("fzf", "partialResult", "matches")
	if fn == nil || nm == nil || fIdx == nil || fM == nil {
		r.unest("anchors", token.NoPos, nil, "anchors Matcher.scan / NewMerger / partialResult.index / matches", "cannot resolve")
		return
	}
	n, stores := 0, 0
	eachInstr(fn, func(in ssa.Instruction) {
		call, ok := in.(*ssa.Call)
		if !ok || call.Common().StaticCallee() != nm || len(call.Call.Args) < 2 {
			return
		}
		// the final call (the one fed by the workers) is the one whose lists are not a constant nil
		lists := stripConv(call.Call.Args[1])
		if k, ok := lists.(*ssa.Const); ok && k.Value == nil {
			return
		}
		n++
		_, isMake := lists.(*ssa.MakeSlice)
		r.check(isMake, fmt.Sprintf("%s:lists of NewMerger call #%d", relName(fn), n), call.Pos(), fn,
			"the lists are a slice with one slot per chunk slice", "the lists handed to NewMerger are "+describe(lists)+", not a slice made with one slot per chunk slice: the position of a partial result is not tied to its slice")
		eachInstr(fn, func(in2 ssa.Instruction) {
			st, ok := in2.(*ssa.Store)
			if !ok {
				return
			}
			ia, ok := st.Addr.(*ssa.IndexAddr)
			if !ok || stripConv(ia.X) != lists {
				return
			}
			stores++
			fi, ri := loadedField(ia.Index)
			fv, rv := loadedField(st.Val)
			good := fi == fIdx && fv == fM && ri != nil && ri == rv
			r.check(good, fmt.Sprintf("%s:store #%d into the lists", relName(fn), stores), st.Pos(), fn,
				"slot = index of the partial result stored", "the slot is "+describe(ia.Index)+" and the value "+describe(st.Val)+": not the matches of a partial result at its own index")
		})
	})
	r.floor("NewMerger calls fed by the workers in Matcher.scan", n, 1)
	r.floor("stores into the lists", stores, 1)
}

// c06r15: EventBox.WaitFor looks at the pending events without consuming them: the events it is not waiting
// for are for the caller's main loop (round-10 mutant C06b10 cleared the box inside WaitFor "to avoid
// spinning": in --filter mode EvtReadNew/EvtHeader that arrived before EvtReadFin were lost).
func c06r15(c *Ctx, r *Report) {
	l := c.L
	r.rule("C06-R15", "B (WaitFor is read-only on the box)", "P1",
		"EventBox.WaitFor and its callback neither call Events.Clear nor delete from / store into the events map",
		"events posted while a goroutine waits for another one are dropped: the reader's notifications (new lines, header) are lost")
	fn := l.Fn("util", "(*EventBox).WaitFor")
	clr := l.Fn("util", "(*Events).Clear")
	if fn == nil || clr == nil {
		r.unest("anchors", token.NoPos, nil, "anchors EventBox.WaitFor / Events.Clear", "cannot resolve")
		return
	}
	bad := 0
	for _, f := range withClosures(fn) {
		eachInstr(f, func(in ssa.Instruction) {
			switch x := in.(type) {
			case *ssa.Call:
				if x.Common().StaticCallee() == clr {
					bad++
					r.bad(relName(fn)+":Events.Clear", x.Pos(), f, "WaitFor leaves the pending events alone", "the callback of WaitFor clears the event box: events meant for the main loop are lost")
				}
				if b, ok := x.Call.Value.(*ssa.Builtin); ok && b.Name() == "delete" {
					bad++
					r.bad(relName(fn)+":delete", x.Pos(), f, "WaitFor leaves the pending events alone", "the callback of WaitFor deletes pending events")
				}
			case *ssa.MapUpdate:
				bad++
				r.bad(relName(fn)+":map update", x.Pos(), f, "WaitFor leaves the pending events alone", "the callback of WaitFor changes the pending events")
			}
		})
	}
	if bad == 0 {
		r.ok(relName(fn)+":read-only", fn.Pos(), fn, "WaitFor and its callback do not modify the pending events")
	}
	// positive control: the consumers that do clear the box
	n := 0
	for _, f := range l.funcs {
		eachInstr(f, func(in ssa.Instruction) {
			if staticCallee(in) == clr {
				n++
			}
		})
	}
	r.floor("calls of Events.Clear in the program (control: the callee resolves)", n, 2)
}

// optsFieldsOfClause: the Options fields a case clause of parseOptions assigns (opts.F = ..., opts.F.G = ...,
// &opts.F passed to a helper).
func optsFieldsOfClause(cc *ast.CaseClause) map[string]bool {
	res := map[string]bool{}
	var root func(e ast.Expr) string
	root = func(e ast.Expr) string {
		switch x := e.(type) {
		case *ast.SelectorExpr:
			if id, ok := x.X.(*ast.Ident); ok && id.Name == "opts" {
				return x.Sel.Name
			}
			return root(x.X)
		case *ast.IndexExpr:
			return root(x.X)
		case *ast.StarExpr:
			return root(x.X)
		case *ast.ParenExpr:
			return root(x.X)
		}
		return ""
	}
	for _, st := range cc.Body {
		ast.Inspect(st, func(nd ast.Node) bool {
			switch x := nd.(type) {
			case *ast.AssignStmt:
				for _, lhs := range x.Lhs {
					if f := root(lhs); f != "" {
						res[f] = true
					}
				}
			case *ast.IncDecStmt:
				if f := root(x.X); f != "" {
					res[f] = true
				}
			case *ast.UnaryExpr:
				if x.Op == token.AND {
					if f := root(x.X); f != "" {
						res[f] = true
					}
				}
			}
			return true
		})
	}
	return res
}

// c06r16: `--no-X` undoes `--X`: the two case clauses of parseOptions assign a common Options field (round-10
// mutant C06c10 made --no-tail reset opts.Tac: `--tail 5 --no-tail` kept only five lines and `--tac --no-tail`
// lost the reversal).
func c06r16(c *Ctx, r *Report) {
	l := c.L
	r.rule("C06-R16", "E (sibling clauses: --X and --no-X)", "P1",
		"in parseOptions, whenever a case clause for \"--no-X\" assigns fields of Options and a sibling clause for \"--X\" does too, the two sets of assigned fields have a field in common",
		"a negated option resets another option than the one it names: --no-tail leaves the tail limit in force (and drops --tac)")
	fd := fzfFuncDecl(l, "fzf", "parseOptions")
	fn := l.Fn("fzf", "parseOptions")
	if fd == nil {
		r.unest("anchors", token.NoPos, nil, "syntax of parseOptions", "cannot resolve")
		return
	}
	clauses := map[string]*ast.CaseClause{}
	ast.Inspect(fd.Body, func(nd ast.Node) bool {
		cc, ok := nd.(*ast.CaseClause)
		if !ok {
			return true
		}
		for _, e := range cc.List {
			if lit, ok := e.(*ast.BasicLit); ok && lit.Kind == token.STRING {
				name := strings.Trim(lit.Value, "\"`")
				if strings.HasPrefix(name, "--") {
					if _, dup := clauses[name]; !dup {
						clauses[name] = cc
					}
				}
			}
		}
		return true
	})
	var names []string
	for n := range clauses {
		names = append(names, n)
	}
	sort.Strings(names)
	n := 0
	for _, name := range names {
		if !strings.HasPrefix(name, "--no-") {
			continue
		}
		pos, ok := clauses["--"+name[5:]]
		if !ok || pos == clauses[name] {
			continue
		}
		a, b := optsFieldsOfClause(clauses[name]), optsFieldsOfClause(pos)
		if len(a) == 0 || len(b) == 0 {
			continue
		}
		n++
		common := false
		for f := range a {
			if b[f] {
				common = true
			}
		}
		keys := func(m map[string]bool) string {
			var s []string
			for k := range m {
				s = append(s, k)
			}
			sort.Strings(s)
			return strings.Join(s, ",")
		}
		r.check(common, "fzf.parseOptions:"+name+" resets what --"+name[5:]+" sets", clauses[name].Pos(), fn,
			"both clauses assign opts."+keys(a), name+" assigns opts."+keys(a)+" but --"+name[5:]+" assigns opts."+keys(b)+": the negation does not touch what the option set")
	}
	r.floor("--no-X / --X clause pairs in parseOptions", n, 30)
}

// c09r20: History.override records the text shown for a past entry whatever the text is (round-10 mutant
// C09a10 skipped the store when the text equalled the line in the file: an entry edited and then edited back
// kept showing the first edit).
func c09r20(c *Ctx, r *Report) {
	l := c.L
	r.rule("C09-R20", "D (what is recorded does not depend on the text)", "P1",
		"in History.override, the conditions under which the text is stored into History.lines / History.modified are computed from the cursor and the number of lines only, never from the text",
		"an edit of a recalled history entry is not recorded when it restores the original text: going back to the entry shows the earlier edit")
	fn := l.Fn("fzf", "(*History).override")
	if fn == nil || len(fn.Params) < 2 {
		r.unest("anchors", token.NoPos, nil, "anchor History.override", "cannot resolve")
		return
	}
	str := fn.Params[1]
	cc := cdCache{}
	n := 0
	eachInstr(fn, func(in ssa.Instruction) {
		var val ssa.Value
		switch x := in.(type) {
		case *ssa.Store:
			val = x.Val
		case *ssa.MapUpdate:
			val = x.Value
		default:
			return
		}
		if val != ssa.Value(str) {
			return
		}
		n++
		dep := false
		for cond := range cc.of(in) {
			if backwardSlice(cond, func(*ssa.CallCommon) bool { return true }, nil)[str] {
				dep = true
			}
		}
		r.check(!dep, fmt.Sprintf("%s:store #%d of the text", relName(fn), n), in.Pos(), fn,
			"stored under conditions on the cursor only", "whether the text is recorded depends on the text itself")
	})
	r.floor("stores of the text in History.override", n, 2)
}

// c09r21: the merger of an empty query (PassMerger) translates a position into an item through the index of
// the first item of the first chunk; that index is non-zero after --tail has dropped chunks, whether the first
// chunk is full or not (round-10 mutant C09b10 took it only for a partial first chunk: with --tail and exactly
// full chunks the cursor designated another line than the one accepted).
func c09r21(c *Ctx, r *Report) {
	l := c.L
	r.rule("C09-R21", "D (minIndex whenever a chunk exists)", "P1",
		"in PassMerger, the index of the first item is read under no other condition than the chunk list being non-empty",
		"with --tail, an unfiltered list whose first chunk is full maps positions to the wrong items: the line under the cursor is not the line that is accepted or previewed")
	fn := l.Fn("fzf", "PassMerger")
	idx := l.Fn("fzf", "(*Item).Index")
	fMin := l.Field("fzf", "Merger", "minIndex")
	if fn == nil || idx == nil || fMin == nil {
		r.unest("anchors", token.NoPos, nil, "anchors PassMerger / Item.Index / Merger.minIndex", "cannot resolve")
		return
	}
	cc := cdCache{}
	n := 0
	eachInstr(fn, func(in ssa.Instruction) {
		st, ok := in.(*ssa.Store)
		if !ok {
			return
		}
		if f, _ := fieldOf(st.Addr); f != fMin {
			return
		}
		for v := range backwardSlice(st.Val, nil, nil) {
			call, ok := v.(*ssa.Call)
			if !ok || call.Common().StaticCallee() != idx {
				continue
			}
			n++
			good := true
			why := ""
			for cond := range cc.of(call) {
				b, ok := cond.(*ssa.BinOp)
				isLen := false
				if ok {
					if lc, ok := b.X.(*ssa.Call); ok {
						if bi, ok := lc.Call.Value.(*ssa.Builtin); ok && bi.Name() == "len" {
							isLen = true
						}
					}
				}
				if !isLen || !isConstInt(b.Y, 0) {
					good = false
					why = describe(cond)
				}
			}
			r.check(good, fmt.Sprintf("%s:minIndex read #%d", relName(fn), n), call.Pos(), fn,
				"read whenever the list has a chunk", "the index of the first item is read only under "+why+": a list that starts at a non-zero index is treated as starting at 0")
		}
	})
	r.floor("reads of the first item's index for Merger.minIndex", n, 1)
}

// c09r22: with --no-input the query cannot be edited: after every action the input is put back and the cursor
// is placed at its end (round-10 mutant C09c10 kept the cursor where the discarded edit had left it).
func c09r22(c *Ctx, r *Report) {
	l := c.L
	r.rule("C09-R22", "D (cursor at the end of the restored input)", "P1",
		"wherever Terminal.input is assigned under the condition Terminal.inputless, the same block assigns Terminal.cx the length of the input",
		"with --no-input, an action that moved the cursor leaves it inside the query: the next change-query/put edits the query at a position the user cannot see or change")
	fIn := l.Field("fzf", "Terminal", "input")
	fCx := l.Field("fzf", "Terminal", "cx")
	fLess := l.Field("fzf", "Terminal", "inputless")
	if fIn == nil || fCx == nil || fLess == nil {
		r.unest("anchors", token.NoPos, nil, "anchors Terminal.input / cx / inputless", "cannot resolve")
		return
	}
	cc := cdCache{}
	n := 0
	for _, fn := range l.funcs {
		if fn.Pkg == nil || fn.Pkg.Pkg.Path() != pkgAlias["fzf"] {
			continue
		}
		for _, b := range fn.Blocks {
			var stIn *ssa.Store
			for _, in := range b.Instrs {
				if st, ok := in.(*ssa.Store); ok {
					if f, _ := fieldOf(st.Addr); f == fIn {
						stIn = st
					}
				}
			}
			if stIn == nil {
				continue
			}
			under := false
			for cond := range cc.of(stIn) {
				if f, _ := loadedField(cond); f == fLess {
					under = true
				}
			}
			if !under {
				continue
			}
			n++
			good := false
			var at token.Pos = stIn.Pos()
			for _, in := range b.Instrs {
				st, ok := in.(*ssa.Store)
				if !ok {
					continue
				}
				if f, _ := fieldOf(st.Addr); f != fCx {
					continue
				}
				at = st.Pos()
				if call, ok := stripConv(st.Val).(*ssa.Call); ok {
					if bi, ok := call.Call.Value.(*ssa.Builtin); ok && bi.Name() == "len" {
						arg := call.Call.Args[0]
						if f, _ := loadedField(arg); f == fIn || arg == stIn.Val {
							good = true
						}
					}
				}
			}
			r.check(good, fmt.Sprintf("%s:cursor after the input is restored (#%d)", relName(fn), n), at, fn,
				"cx = len(input)", "the input is put back under --no-input but the cursor is not set to its length")
		}
	}
	r.floor("restores of the input under --no-input", n, 1)
}

// c10r13: what fzf prints for an accepted item is produced by the closure that knows --accept-nth, for the
// current item and for every selected one alike (round-10 mutant C10b10 printed the selected items of a
// multi-selection with Item.AsString: --accept-nth was honoured only without TAB selections).
func c10r13(c *Ctx, r *Report) {
	l := c.L
	r.rule("C10-R13", "D (every printed item goes through the accept-nth transform)", "P1",
		"in Terminal.output, every argument of Terminal.printer that is computed from an item is the result of a call of the local closure one of whose definitions calls Item.acceptNth; Item.AsString is not called directly",
		"--accept-nth is ignored for some of the printed lines (the multi-selection): whole lines are printed where fields were asked for")
	fn := l.Fn("fzf", "(*Terminal).output")
	acc := l.Fn("fzf", "(*Item).acceptNth")
	as := l.Fn("fzf", "(*Item).AsString")
	fPr := l.Field("fzf", "Terminal", "printer")
	if fn == nil || acc == nil || as == nil || fPr == nil {
		r.unest("anchors", token.NoPos, nil, "anchors Terminal.output / Item.acceptNth / Item.AsString / Terminal.printer", "cannot resolve")
		return
	}
	callsAcc := func(f *ssa.Function) bool {
		res := false
		eachInstr(f, func(in ssa.Instruction) {
			if staticCallee(in) == acc {
				res = true
			}
		})
		return res
	}
	n := 0
	eachInstr(fn, func(in ssa.Instruction) {
		call, ok := in.(*ssa.Call)
		if !ok || call.Common().IsInvoke() || call.Common().StaticCallee() != nil || len(call.Call.Args) != 1 {
			return
		}
		if f, _ := loadedField(call.Call.Value); f != fPr {
			return
		}
		arg, ok := call.Call.Args[0].(*ssa.Call)
		if !ok {
			return // the query, the key, queued strings
		}
		// is the argument computed from an item?
		fromItem := false
		for _, a := range arg.Call.Args {
			if isPtrToNamed(a.Type(), l.Named("fzf", "Item")) {
				fromItem = true
			}
		}
		if !fromItem {
			return
		}
		n++
		good := false
		if arg.Common().StaticCallee() == nil {
			for v := range backwardSlice(arg.Call.Value, nil, nil) {
				if mc, ok := v.(*ssa.MakeClosure); ok && callsAcc(mc.Fn.(*ssa.Function)) {
					good = true
				}
			}
		}
		r.check(good, fmt.Sprintf("%s:printed item #%d", relName(fn), n), call.Pos(), fn,
			"printed through the accept-nth aware closure", "the line printed for this item is "+describe(arg)+", not the result of the closure that applies --accept-nth")
	})
	r.floor("items printed by Terminal.output", n, 2)
}

// c10r14: a literal --delimiter is a string: the fields end after each occurrence of the whole string, found by
// strings.SplitAfter (round-10 mutant C10c10 added a fast path for one-character delimiters that compared the
// first BYTE: `-d é` split in the middle of every character sharing the lead byte).
func c10r14(c *Ctx, r *Report) {
	l := c.L
	r.rule("C10-R14", "D (a literal delimiter splits by the whole string)", "P1",
		"in Tokenize, every result returned under `delimiter.str != nil` is derived from a call strings.SplitAfter(text, *delimiter.str)",
		"a non-ASCII (or, with another shortcut, multi-character) literal delimiter cuts fields at the wrong places: --nth/--with-nth/--accept-nth see other fields than documented")
	fn := l.Fn("fzf", "Tokenize")
	fStr := l.Field("fzf", "Delimiter", "str")
	if fn == nil || fStr == nil {
		r.unest("anchors", token.NoPos, nil, "anchors Tokenize / Delimiter.str", "cannot resolve")
		return
	}
	var thenBlock *ssa.BasicBlock
	eachInstr(fn, func(in ssa.Instruction) {
		iff, ok := in.(*ssa.If)
		if !ok {
			return
		}
		b, ok := iff.Cond.(*ssa.BinOp)
		if !ok || b.Op != token.NEQ {
			return
		}
		if f, _ := loadedField(b.X); f != fStr {
			return
		}
		if k, ok := b.Y.(*ssa.Const); !ok || k.Value != nil {
			return
		}
		thenBlock = in.Block().Succs[0]
	})
	if thenBlock == nil {
		r.unest("fzf.Tokenize:literal branch", fn.Pos(), fn, "the branch `delimiter.str != nil`", "not found")
		return
	}
	n := 0
	eachInstr(fn, func(in ssa.Instruction) {
		ret, ok := in.(*ssa.Return)
		if !ok || len(ret.Results) == 0 {
			return
		}
		if ret.Block() != thenBlock && !thenBlock.Dominates(ret.Block()) {
			return
		}
		n++
		good := false
		for v := range backwardSlice(ret.Results[0], func(*ssa.CallCommon) bool { return true }, nil) {
			call, ok := v.(*ssa.Call)
			if !ok {
				continue
			}
			// strings.SplitAfter(text, sep), or the same spelled strings.SplitAfterN(text, sep, -1)
			switch nm := calleeName(call.Common()); {
			case nm == "strings.SplitAfter" && len(call.Call.Args) == 2:
			case nm == "strings.SplitAfterN" && len(call.Call.Args) == 3 && isConstInt(call.Call.Args[2], -1):
			default:
				continue
			}
			sep := call.Call.Args[1]
			if u, ok := sep.(*ssa.UnOp); ok && u.Op == token.MUL {
				if f, _ := loadedField(u.X); f == fStr && call.Call.Args[0] == ssa.Value(fn.Params[0]) {
					good = true
				}
			}
		}
		r.check(good, fmt.Sprintf("%s:return #%d under a literal delimiter", relName(fn), n), ret.Pos(), fn,
			"the tokens are strings.SplitAfter(text, *delimiter.str)", "tokens returned for a literal delimiter are not the result of strings.SplitAfter(text, *delimiter.str)")
	})
	r.floor("returns of Tokenize under a literal delimiter", n, 1)
}

// c11r22: a hyperlink opened while a line is printed is closed before the function returns, whether or not
// text follows the linked part (round-10 mutant C11c10 moved the closing LinkEnd under `index < maxOffset`:
// a line that ends with the link left the link open and everything printed afterwards was part of it).
func c11r22(c *Ctx, r *Report) {
	l := c.L
	r.rule("C11-R22", "A (pairing: LinkEnd after the loop depends on the link state only)", "P1",
		"in every function that calls Window.LinkBegin inside a loop, each call of LinkEnd placed after the loop is control dependent on nothing but nil tests of the link (no length, width or offset comparison)",
		"a line whose last visible character belongs to an OSC 8 hyperlink leaves the link open: the rest of the screen becomes part of the hyperlink")
	n := 0
	cc := cdCache{}
	for _, fn := range l.funcs {
		if fn.Pkg == nil || fn.Pkg.Pkg.Path() != pkgAlias["fzf"] {
			continue
		}
		hasBegin := false
		var ends []*ssa.Call
		eachInstr(fn, func(in ssa.Instruction) {
			call, ok := in.(*ssa.Call)
			if !ok || !call.Common().IsInvoke() {
				return
			}
			switch call.Common().Method.Name() {
			case "LinkBegin":
				if inLoop(call.Block()) {
					hasBegin = true
				}
			case "LinkEnd":
				if !inLoop(call.Block()) {
					ends = append(ends, call)
				}
			}
		})
		if !hasBegin {
			continue
		}
		for i, call := range ends {
			n++
			good := true
			why := ""
			for cond := range cc.of(call) {
				b, ok := cond.(*ssa.BinOp)
				isNil := false
				if ok && (b.Op == token.NEQ || b.Op == token.EQL) {
					if k, ok := b.Y.(*ssa.Const); ok && k.Value == nil {
						if _, ok := b.X.Type().Underlying().(*types.Pointer); ok {
							isNil = true
						}
					}
				}
				if !isNil {
					good = false
					why = describe(cond)
				}
			}
			r.check(good, fmt.Sprintf("%s:LinkEnd #%d after the loop", relName(fn), i+1), call.Pos(), fn,
				"the link is closed whenever one is open", "the closing LinkEnd also depends on "+why+": on the other branch an open link is never closed")
		}
	}
	r.floor("LinkEnd calls after a printing loop", n, 1)
}

// lowerBoundAt: a proven lower bound of the integer value v at block b: constants, x±const, len(), and the
// comparisons with constants on every path to b.
func lowerBoundAt(pc *PathConds, b *ssa.BasicBlock, v ssa.Value, depth int) (int64, bool) {
	if k, ok := constIntVal(v); ok {
		return k, true
	}
	if depth > 4 {
		return 0, false
	}
	best, have := int64(0), false
	if call, ok := v.(*ssa.Call); ok {
		if bi, ok := call.Call.Value.(*ssa.Builtin); ok && bi.Name() == "len" {
			best, have = 0, true
		}
	}
	if bo, ok := v.(*ssa.BinOp); ok {
		if k, isK := constIntVal(bo.Y); isK && (bo.Op == token.SUB || bo.Op == token.ADD) {
			if lb, ok := lowerBoundAt(pc, b, bo.X, depth+1); ok {
				if bo.Op == token.SUB {
					lb -= k
				} else {
					lb += k
				}
				best, have = lb, true
			}
		}
	}
	// from the path conditions
	dnf := pc.At(b)
	if len(dnf) > 0 {
		all := true
		var minOver int64
		for i, dj := range dnf {
			found := false
			var bestDj int64
			for _, lt := range dj {
				bo, ok := lt.Atom.(*ssa.BinOp)
				if !ok {
					continue
				}
				switch bo.Op {
				case token.LSS, token.LEQ, token.GTR, token.GEQ, token.EQL:
				default:
					continue
				}
				x, op, k, ok := cmpInt(lt.Atom)
				if !ok || x != v {
					continue
				}
				var lb int64
				okLit := true
				switch {
				case op == token.GEQ && lt.Val:
					lb = k
				case op == token.GTR && lt.Val:
					lb = k + 1
				case op == token.LSS && !lt.Val:
					lb = k
				case op == token.LEQ && !lt.Val:
					lb = k + 1
				case op == token.EQL && lt.Val:
					lb = k
				default:
					okLit = false
				}
				if okLit && (!found || lb > bestDj) {
					found, bestDj = true, lb
				}
			}
			if !found {
				all = false
				break
			}
			if i == 0 || bestDj < minOver {
				minOver = bestDj
			}
		}
		if all && (!have || minOver > best) {
			best, have = minOver, true
		}
	}
	return best, have
}

// c14r21: the closure of printInfoImpl that pads the info line hands `fillLength+1` to strings.Repeat, which
// panics on a negative count. Every call that asks for padding passes a length proven to be at least -1
// (round-10 mutant C14c10 relaxed the guard of `printSeparator(fillLength-2, true)` from >= 2 to >= 0: with
// --info=right --no-separator, a window exactly as wide as the info text crashed fzf while the input loads).
func c14r21(c *Ctx, r *Report) {
	l := c.L
	r.rule("C14-R21", "C (non-negative repeat count)", "P1",
		"for every local closure of Terminal.printInfoImpl that passes `param + d` to strings.Repeat, each call that can reach the Repeat (the pad argument is not the constant false) passes an argument whose proven lower bound plus d is >= 0",
		"strings.Repeat panics with a negative count while the info line is drawn: fzf dies with the terminal in raw mode")
	fn := l.Fn("fzf", "(*Terminal).printInfoImpl")
	if fn == nil {
		r.unest("anchors", token.NoPos, nil, "anchor Terminal.printInfoImpl", "cannot resolve")
		return
	}
	pc := pathConds(fn)
	n, closures := 0, 0
	eachInstr(fn, func(in ssa.Instruction) {
		mc, ok := in.(*ssa.MakeClosure)
		if !ok {
			return
		}
		cf := mc.Fn.(*ssa.Function)
		// param index and delta handed to Repeat
		pi, delta := -1, int64(0)
		eachInstr(cf, func(in2 ssa.Instruction) {
			call, ok := in2.(*ssa.Call)
			if !ok || calleeName(call.Common()) != "strings.Repeat" {
				return
			}
			cnt := call.Call.Args[1]
			d := int64(0)
			if bo, ok := cnt.(*ssa.BinOp); ok && bo.Op == token.ADD {
				if k, isK := constIntVal(bo.Y); isK {
					cnt, d = bo.X, k
				}
			}
			for i, p := range cf.Params {
				if ssa.Value(p) == cnt {
					pi, delta = i, d
				}
			}
		})
		if pi < 0 {
			return
		}
		closures++
		eachInstr(fn, func(in2 ssa.Instruction) {
			call, ok := in2.(*ssa.Call)
			if !ok || call.Call.Value != ssa.Value(mc) || len(call.Call.Args) <= pi {
				return
			}
			// a constant-false bool argument switches the padding off
			for _, a := range call.Call.Args {
				if bv, ok := constBool(a); ok && !bv {
					return
				}
			}
			n++
			arg := call.Call.Args[pi]
			lb, ok := lowerBoundAt(pc, call.Block(), arg, 0)
			r.check(ok && lb+delta >= 0, fmt.Sprintf("%s:padding call #%d of %s", relName(fn), n, relName(cf)), call.Pos(), fn,
				fmt.Sprintf("the repeat count is at least %d", lb+delta),
				fmt.Sprintf("the argument %s is not proven to be >= %d on every path to this call: strings.Repeat receives a negative count", describe(arg), -delta))
		})
	})
	r.floor("closures of printInfoImpl that pad with strings.Repeat", closures, 1)
	r.floor("padding calls", n, 2)
}

// c17r28: an option given twice takes its last value: a parser that writes into an existing struct sets every
// field it can set before it looks at the argument (round-10 mutant C17b10 dropped the two resets at the top
// of parseLabelPosition: `--border-label-pos 5:bottom --border-label-pos center` kept the label at the bottom).
func c17r28(c *Ctx, r *Report) {
	l := c.L
	r.rule("C17-R28", "A (must-pass-through: reset before the argument is read)", "P1",
		"in parseLabelPosition, every field of labelOpts the function stores into anywhere is also stored into by an instruction that dominates every return",
		"a label-position option given twice (or after $FZF_DEFAULT_OPTS) keeps parts of the earlier value: the last occurrence does not determine the result")
	fn := l.Fn("fzf", "parseLabelPosition")
	if fn == nil || len(fn.Params) == 0 {
		r.unest("anchors", token.NoPos, nil, "anchor parseLabelPosition", "cannot resolve")
		return
	}
	opts := fn.Params[0]
	stores := map[*types.Var][]*ssa.Store{}
	var rets []*ssa.Return
	eachInstr(fn, func(in ssa.Instruction) {
		switch x := in.(type) {
		case *ssa.Store:
			fa, ok := x.Addr.(*ssa.FieldAddr)
			if !ok || fa.X != ssa.Value(opts) {
				return
			}
			f, _ := fieldOf(fa)
			stores[f] = append(stores[f], x)
		case *ssa.Return:
			rets = append(rets, x)
		}
	})
	var fields []*types.Var
	for f := range stores {
		fields = append(fields, f)
	}
	sort.Slice(fields, func(i, j int) bool { return fields[i].Name() < fields[j].Name() })
	for _, f := range fields {
		good := false
		for _, st := range stores[f] {
			all := true
			for _, ret := range rets {
				if !dominates(st, ret) {
					all = false
				}
			}
			if all {
				good = true
			}
		}
		r.check(good, relName(fn)+":"+f.Name()+" is set on every path", stores[f][0].Pos(), fn,
			"a store into labelOpts."+f.Name()+" dominates every return", "labelOpts."+f.Name()+" is assigned only for some arguments: otherwise the value of an earlier occurrence of the option survives")
	}
	r.floor("fields parseLabelPosition stores into", len(fields), 2)
}

// c17r29: validateOptions dereferences optional string options (*string) only under the nil test of the same
// field (round-10 mutant C17c10 validated *opts.Pointer under `opts.Marker != nil`: `--marker X` without
// --pointer crashed with a nil dereference instead of being accepted).
func c17r29(c *Ctx, r *Report) {
	l := c.L
	r.rule("C17-R29", "C (nil guard names the field that is dereferenced)", "P1",
		"in validateOptions and postProcessOptions, every dereference of a pointer-typed field of Options happens on paths that have tested that same field against nil (or stored a non-nil value into it)",
		"an argument vector is neither accepted nor rejected with a message: fzf panics with a nil pointer dereference while validating the options")
	optsT := l.Named("fzf", "Options")
	if optsT == nil {
		r.unest("anchors", token.NoPos, nil, "anchor Options", "cannot resolve")
		return
	}
	n := 0
	for _, name := range []string{"validateOptions", "postProcessOptions"} {
		fn := l.Fn("fzf", name)
		if fn == nil {
			r.unest("anchors", token.NoPos, nil, "anchor "+name, "cannot resolve")
			continue
		}
		_ = pathConds
		eachInstr(fn, func(in ssa.Instruction) {
			u, ok := in.(*ssa.UnOp)
			if !ok || u.Op != token.MUL {
				return
			}
			// u = *p where p = *(&opts.F), F of type *string / *T (basic pointee)
			f, root := loadedField(u.X)
			if f == nil || root == nil {
				return
			}
			pt, ok := f.Type().Underlying().(*types.Pointer)
			if !ok {
				return
			}
			if _, isBasic := pt.Elem().Underlying().(*types.Basic); !isBasic {
				return
			}
			if !isPtrToNamed(root.Type(), optsT) {
				return
			}
			n++
			// a path from the entry to the dereference that neither stores a non-nil value into the field nor
			// takes the non-nil edge of a nil test of the field
			isSet := func(in2 ssa.Instruction) bool {
				st, ok := in2.(*ssa.Store)
				if !ok {
					return false
				}
				if g, _ := fieldOf(st.Addr); g != f {
					return false
				}
				if k, ok := st.Val.(*ssa.Const); ok && k.Value == nil {
					return false
				}
				return true
			}
			edgeOK := func(from, to *ssa.BasicBlock) bool {
				iff, ok := from.Instrs[len(from.Instrs)-1].(*ssa.If)
				if !ok {
					return true
				}
				bo, ok := iff.Cond.(*ssa.BinOp)
				if !ok || (bo.Op != token.NEQ && bo.Op != token.EQL) {
					return true
				}
				if k, ok := bo.Y.(*ssa.Const); !ok || k.Value != nil {
					return true
				}
				if g, _ := loadedField(bo.X); g != f {
					return true
				}
				if bo.Op == token.NEQ {
					return to != from.Succs[0]
				}
				return to != from.Succs[1]
			}
			start := fn.Blocks[0].Instrs[0]
			bad := pathAvoiding(start, func(x ssa.Instruction) bool { return x == ssa.Instruction(u) }, isSet, edgeOK)
			stored, holds, reach := bad == nil, false, true
			r.check(stored || holds || !reach, fmt.Sprintf("%s:*opts.%s #%d", relName(fn), f.Name(), n), u.Pos(), fn,
				"dereferenced under `opts."+f.Name()+" != nil`", "opts."+f.Name()+" is dereferenced on a path that has not tested opts."+f.Name()+" against nil (the guard names another field)")
		})
	}
	r.floor("dereferences of optional Options fields in the validation functions", n, 4)
}

// c19r16: a Reader is created in the not-cancelled state, and NewReader stores each parameter into the field
// of the same name (the literal is positional and has three bool slots; round-10 mutant C19c10 put delimNil
// into the slot of `killed`: with --read0 the walker was born cancelled and listed nothing).
func c19r16(c *Ctx, r *Report) {
	l := c.L
	r.rule("C19-R16", "E (constructor: killed=false, parameter -> field of the same name)", "P1",
		"in NewReader, Reader.killed is initialised with the constant false (or not at all), and every parameter stored into a field of the new Reader goes to the field that has the parameter's name",
		"the built-in walker starts out cancelled (or another flag is swapped) for some option combination: the candidate list is empty or cut short without any message")
	fn := l.Fn("fzf", "NewReader")
	fK := l.Field("fzf", "Reader", "killed")
	if fn == nil || fK == nil {
		r.unest("anchors", token.NoPos, nil, "anchors NewReader / Reader.killed", "cannot resolve")
		return
	}
	n := 0
	killedOK := true
	eachInstr(fn, func(in ssa.Instruction) {
		st, ok := in.(*ssa.Store)
		if !ok {
			return
		}
		f, _ := fieldOf(st.Addr)
		if f == nil {
			return
		}
		if f == fK {
			if bv, ok := constBool(st.Val); !ok || bv {
				killedOK = false
				r.bad(relName(fn)+":killed starts false", st.Pos(), fn, "a new Reader is not cancelled", "Reader.killed is initialised with "+describe(st.Val)+", not with false")
			}
			return
		}
		if p, ok := st.Val.(*ssa.Parameter); ok {
			n++
			r.check(p.Name() == f.Name(), fmt.Sprintf("%s:parameter %s", relName(fn), p.Name()), st.Pos(), fn,
				"stored into the field of the same name", "parameter "+p.Name()+" is stored into Reader."+f.Name())
		}
	})
	if killedOK {
		r.ok(relName(fn)+":killed starts false", fn.Pos(), fn, "Reader.killed is false in a new Reader")
	}
	r.floor("parameters stored by NewReader", n, 4)
}

// storesPwindow: the function (or a closure nested in it) stores a non-nil value into Terminal.pwindow.
func storesNonNilField(fn *ssa.Function, f *types.Var) bool {
	res := false
	for _, g := range withClosures(fn) {
		eachInstr(g, func(in ssa.Instruction) {
			st, ok := in.(*ssa.Store)
			if !ok {
				return
			}
			if fld, _ := fieldOf(st.Addr); fld != f {
				return
			}
			if k, ok := st.Val.(*ssa.Const); ok && k.Value == nil {
				return
			}
			res = true
		})
	}
	return res
}

// c20r16: resizeWindows throws the preview window away and makes a new one; the new window is empty, so the
// record of what has been rendered (Terminal.previewed.version) is reset first, on every path (round-10 mutant
// C20b10 reset it only when there had been no preview window before: after a resize the preview pane stayed blank
// until the next preview result).
func c20r16(c *Ctx, r *Report) {
	l := c.L
	r.rule("C20-R16", "A (must-pass-through: reset before the preview window is re-created)", "P1",
		"in Terminal.resizeWindows, a store of 0 into Terminal.previewed.version dominates every creation of, and every call of a local closure that creates, the preview window (a non-nil store into Terminal.pwindow)",
		"after a resize / layout change the new, empty preview window is considered up to date: the pane shows nothing although a preview result is available")
	fn := l.Fn("fzf", "(*Terminal).resizeWindows")
	fPw := l.Field("fzf", "Terminal", "pwindow")
	fVer := l.Field("fzf", "previewed", "version")
	if fn == nil || fPw == nil || fVer == nil {
		r.unest("anchors", token.NoPos, nil, "anchors Terminal.resizeWindows / pwindow / previewed.version", "cannot resolve")
		return
	}
	var resets []ssa.Instruction
	eachInstr(fn, func(in ssa.Instruction) {
		st, ok := in.(*ssa.Store)
		if !ok {
			return
		}
		if f, _ := fieldOf(st.Addr); f == fVer && isConstInt(st.Val, 0) {
			resets = append(resets, st)
		}
	})
	dominated := func(in ssa.Instruction) bool {
		for _, rs := range resets {
			if dominates(rs, in) {
				return true
			}
		}
		return false
	}
	n := 0
	eachInstr(fn, func(in ssa.Instruction) {
		switch x := in.(type) {
		case *ssa.Store:
			if f, _ := fieldOf(x.Addr); f == fPw {
				if k, ok := x.Val.(*ssa.Const); ok && k.Value == nil {
					return
				}
				n++
				r.check(dominated(x), fmt.Sprintf("%s:creation #%d of the preview window", relName(fn), n), x.Pos(), fn, "after the reset of previewed.version", "the preview window is re-created on a path that has not reset previewed.version")
			}
		case *ssa.Call:
			if x.Common().StaticCallee() != nil || x.Common().IsInvoke() {
				return
			}
			creates := false
			for v := range backwardSlice(x.Call.Value, nil, nil) {
				if mc, ok := v.(*ssa.MakeClosure); ok && storesNonNilField(mc.Fn.(*ssa.Function), fPw) {
					creates = true
				}
			}
			if !creates {
				return
			}
			n++
			r.check(dominated(x), fmt.Sprintf("%s:call #%d of a closure that creates the preview window", relName(fn), n), x.Pos(), fn, "after the reset of previewed.version", "the closure that re-creates the preview window is called on a path that has not reset previewed.version (a reset inside the closure under a condition does not count)")
		}
	})
	r.floor("creations of the preview window in resizeWindows", n, 1)
}

// caseIdents: the identifiers listed in the case clauses of a function body that satisfy pred.
func caseIdents(body ast.Node, pred func(cc *ast.CaseClause) bool) map[string]token.Pos {
	res := map[string]token.Pos{}
	ast.Inspect(body, func(nd ast.Node) bool {
		cc, ok := nd.(*ast.CaseClause)
		if !ok || !pred(cc) {
			return true
		}
		for _, e := range cc.List {
			if id, ok := e.(*ast.Ident); ok {
				res[id.Name] = id.Pos()
			}
		}
		return true
	})
	return res
}

// c20r17: the previewer goroutine is started only when some binding may ever ask for a preview. An action
// whose handler parses and runs an action list produced at run time (transform) may produce preview(...) as
// well, so mayTriggerPreview has to answer true for it (round-10 mutant C20c10 dropped actTransform from the
// list: `--bind 'x:transform:echo preview:cat {}'` opened an empty pane and the command never ran).
func c20r17(c *Ctx, r *Report) {
	l := c.L
	r.rule("C20-R17", "E (mayTriggerPreview <-> the handlers of Terminal.Loop)", "P1",
		"every action type whose case clause in Terminal.Loop calls parseSingleActionList (it runs actions computed at run time) is listed in the case clause of mayTriggerPreview that returns true",
		"a preview requested through transform(...) is never rendered because no previewer goroutine was started")
	loop := fzfFuncDecl(l, "fzf", "Terminal.Loop")
	mtp := fzfFuncDecl(l, "fzf", "mayTriggerPreview")
	fn := l.Fn("fzf", "mayTriggerPreview")
	if loop == nil || mtp == nil {
		r.unest("anchors", token.NoPos, nil, "syntax of Terminal.Loop / mayTriggerPreview", "cannot resolve")
		return
	}
	dynamic := caseIdents(loop.Body, func(cc *ast.CaseClause) bool {
		found := false
		for _, st := range cc.Body {
			ast.Inspect(st, func(nd ast.Node) bool {
				if _, nested := nd.(*ast.CaseClause); nested {
					return false
				}
				if call, ok := nd.(*ast.CallExpr); ok {
					if id, ok := call.Fun.(*ast.Ident); ok && id.Name == "parseSingleActionList" {
						found = true
					}
				}
				return true
			})
		}
		return found
	})
	listed := caseIdents(mtp.Body, func(cc *ast.CaseClause) bool {
		for _, st := range cc.Body {
			if ret, ok := st.(*ast.ReturnStmt); ok && len(ret.Results) == 1 {
				if id, ok := ret.Results[0].(*ast.Ident); ok && id.Name == "true" {
					return true
				}
			}
		}
		return false
	})
	var names []string
	for n := range dynamic {
		names = append(names, n)
	}
	sort.Strings(names)
	for _, n := range names {
		_, ok := listed[n]
		r.check(ok, "fzf.mayTriggerPreview:"+n+" may trigger a preview", mtp.Pos(), fn, "listed in mayTriggerPreview", n+" runs an action list computed at run time (which may contain preview) but mayTriggerPreview does not answer true for it")
	}
	r.floor("action types that run a computed action list", len(names), 1)
}

// sliceBases: the storage a slice value is built on: follows phis, re-slicing and the first argument of append.
func sliceBases(v ssa.Value, seen map[ssa.Value]bool, out map[ssa.Value]bool) {
	if v == nil || seen[v] {
		return
	}
	seen[v] = true
	switch x := v.(type) {
	case *ssa.Phi:
		for _, e := range x.Edges {
			sliceBases(e, seen, out)
		}
	case *ssa.Slice:
		sliceBases(x.X, seen, out)
	case *ssa.Call:
		if bi, ok := x.Call.Value.(*ssa.Builtin); ok && bi.Name() == "append" {
			sliceBases(x.Call.Args[0], seen, out)
			return
		}
		out[v] = true
	case *ssa.ChangeType:
		sliceBases(x.X, seen, out)
	default:
		out[v] = true
	}
}

// c08r24: matchChunk searches either the items of the chunk or a list cached for a shorter query (`space`).
// The list it returns is new storage: `space` belongs to the cache and is read again by later queries
// (round-10 mutant C08a10 built the result in space[:0]: narrowing a query rewrote the cached list of the
// shorter query in place, and going back to the shorter query showed only the narrowed lines).
func c08r24(c *Ctx, r *Report) {
	l := c.L
	r.rule("C08-R24", "B (the cached list is read-only)", "P1",
		"in Pattern.matchChunk, the returned slice is built (through append / re-slicing / phis) on storage made in the call, never on the parameter `space` or another incoming slice",
		"a cached result is overwritten while it is being narrowed: returning to the earlier query shows fewer lines than match it")
	fn := l.Fn("fzf", "(*Pattern).matchChunk")
	if fn == nil {
		r.unest("anchors", token.NoPos, nil, "anchor Pattern.matchChunk", "cannot resolve")
		return
	}
	n := 0
	eachInstr(fn, func(in ssa.Instruction) {
		ret, ok := in.(*ssa.Return)
		if !ok || len(ret.Results) == 0 {
			return
		}
		n++
		bases := map[ssa.Value]bool{}
		sliceBases(ret.Results[0], map[ssa.Value]bool{}, bases)
		good := true
		why := ""
		for b := range bases {
			switch x := b.(type) {
			case *ssa.MakeSlice, *ssa.Alloc:
			case *ssa.Const:
				_ = x
			default:
				good = false
				why = describe(b)
			}
		}
		r.check(good, fmt.Sprintf("%s:result #%d is fresh storage", relName(fn), n), ret.Pos(), fn,
			"built on a slice made in the call", "the result is built on "+why+": appending to it writes into storage owned by the caller / the cache")
	})
	r.floor("returns of matchChunk", n, 1)
}

// c08r25: a snapshot may be searched while the reader keeps appending, so ChunkList.Snapshot hands out copies
// of the chunks that can still change (the last one; the first one under --tail). Each copy is made in the
// call that returns it (round-10 mutant C08b10 kept the copy of the previous call and returned it again when
// the chunk count and the item count were unchanged — also true after a reload that produced as many lines:
// the old items were searched).
func c08r25(c *Ctx, r *Report) {
	l := c.L
	r.rule("C08-R25", "B (snapshot copies are made per call)", "P1",
		"in ChunkList.Snapshot, every *Chunk stored into a slice made in the call is the address of a Chunk allocated in the same call, and no such allocation is stored into a field of the ChunkList",
		"a snapshot contains a chunk copied for an earlier snapshot: after a reload with the same number of lines the matcher searches the previous input")
	fn := l.Fn("fzf", "(*ChunkList).Snapshot")
	if fn == nil || len(fn.Params) == 0 {
		r.unest("anchors", token.NoPos, nil, "anchor ChunkList.Snapshot", "cannot resolve")
		return
	}
	n := 0
	eachInstr(fn, func(in ssa.Instruction) {
		st, ok := in.(*ssa.Store)
		if !ok {
			return
		}
		if ia, ok := st.Addr.(*ssa.IndexAddr); ok {
			if _, isMake := ia.X.(*ssa.MakeSlice); !isMake {
				return
			}
			n++
			al, isAlloc := st.Val.(*ssa.Alloc)
			r.check(isAlloc && al.Heap, fmt.Sprintf("%s:chunk stored into the snapshot #%d", relName(fn), n), st.Pos(), fn,
				"a copy allocated in this call", "the snapshot receives "+describe(st.Val)+", which is not a copy made in this call")
			return
		}
		if fa, ok := st.Addr.(*ssa.FieldAddr); ok && fa.X == ssa.Value(fn.Params[0]) {
			if al, isAlloc := st.Val.(*ssa.Alloc); isAlloc && al.Heap {
				r.bad(relName(fn)+":copy retained in the list", st.Pos(), fn, "copies belong to the snapshot only", "a chunk copy made for a snapshot is kept in the ChunkList and can be handed out again")
			}
		}
	})
	r.floor("chunk copies stored into the snapshot", n, 3)
}

// c08r26: the terminal shows the merger it is handed: UpdateList replaces Terminal.merger on every call
// (round-10 mutant C08c10 kept the old list when query string, sortedness and match count were the same:
// after change-nth / --tail trimming / exclude with an equal count the list of an older state stayed).
func c08r26(c *Ctx, r *Report) {
	l := c.L
	r.rule("C08-R26", "A (the result that arrives is the result that is shown)", "P1",
		"in Terminal.UpdateList, the parameter is stored into Terminal.merger by a store that is not control dependent on any condition",
		"a result computed for a newer state of the input is dropped: the list on display belongs to an older state")
	fn := l.Fn("fzf", "(*Terminal).UpdateList")
	fM := l.Field("fzf", "Terminal", "merger")
	if fn == nil || fM == nil || len(fn.Params) < 2 {
		r.unest("anchors", token.NoPos, nil, "anchors Terminal.UpdateList / Terminal.merger", "cannot resolve")
		return
	}
	cc := cdCache{}
	n := 0
	good := false
	var at token.Pos = fn.Pos()
	eachInstr(fn, func(in ssa.Instruction) {
		st, ok := in.(*ssa.Store)
		if !ok {
			return
		}
		if f, _ := fieldOf(st.Addr); f != fM || st.Val != ssa.Value(fn.Params[1]) {
			return
		}
		n++
		at = st.Pos()
		if len(cc.of(st)) == 0 {
			good = true
		}
	})
	r.check(good, relName(fn)+":the new merger is always applied", at, fn, "unconditional store of the parameter into Terminal.merger", "the merger handed to UpdateList is stored only under a condition")
	r.floor("stores of the parameter into Terminal.merger", n, 1)
}

// c15r18: when the current item is taller than the list area it still counts as one visible item: the
// closure of Terminal.constrain that counts the items that fit never returns with the count still at zero
// (round-10 mutant C15a10 dropped `numItemsFound == 0 ||`: the count stayed 0, the offset moved past the
// cursor and no row showed the current item).
func c15r18(c *Ctx, r *Report) {
	l := c.L
	r.rule("C15-R18", "A (must-pass-through: at least one item fits)", "P1",
		"in the closure of Terminal.constrain that counts the items fitting on the screen, every path from the entry to a return passes an increment of the counter, except paths that have tested the counter to be non-zero",
		"a multi-line item taller than the list leaves the count of visible items at 0: the scroll offset passes the cursor and the current item is not on the screen")
	fn := l.Fn("fzf", "(*Terminal).constrain")
	if fn == nil {
		r.unest("anchors", token.NoPos, nil, "anchor Terminal.constrain", "cannot resolve")
		return
	}
	n := 0
	for _, cf := range withClosures(fn) {
		if cf == fn {
			continue
		}
		// the counter: a captured int cell that the closure increments and whose final value the parent uses
		incs := map[ssa.Value][]ssa.Instruction{}
		eachInstr(cf, func(in ssa.Instruction) {
			st, ok := in.(*ssa.Store)
			if !ok {
				return
			}
			bo, ok := st.Val.(*ssa.BinOp)
			if !ok || bo.Op != token.ADD || !isConstInt(bo.Y, 1) {
				return
			}
			if u, ok := bo.X.(*ssa.UnOp); ok && u.Op == token.MUL && u.X == st.Addr {
				if _, isFree := st.Addr.(*ssa.FreeVar); isFree {
					incs[st.Addr] = append(incs[st.Addr], st)
				}
			}
		})
		for cell, list := range incs {
			if len(list) < 2 {
				continue // linesSum += lines is not a +1; a single increment is not the two-armed counter
			}
			isInc := func(in ssa.Instruction) bool {
				for _, x := range list {
					if x == in {
						return true
					}
				}
				return false
			}
			// edges on which the counter is known to be non-zero are not followed
			edgeOK := func(from, to *ssa.BasicBlock) bool {
				iff, ok := from.Instrs[len(from.Instrs)-1].(*ssa.If)
				if !ok {
					return true
				}
				bo, ok := iff.Cond.(*ssa.BinOp)
				if !ok || !isConstInt(bo.Y, 0) {
					return true
				}
				u, ok := bo.X.(*ssa.UnOp)
				if !ok || u.Op != token.MUL || u.X != cell {
					return true
				}
				switch bo.Op {
				case token.EQL:
					return to != from.Succs[1]
				case token.NEQ, token.GTR:
					return to != from.Succs[0]
				}
				return true
			}
			if len(cf.Blocks) == 0 {
				continue
			}
			n++
			start := cf.Blocks[0].Instrs[0]
			path := pathAvoiding(start, isReturn, isInc, edgeOK)
			if isInc(start) {
				path = nil
			}
			pos := cf.Pos()
			if path != nil {
				pos = path.Pos()
			}
			r.check(path == nil, fmt.Sprintf("%s:the first item always counts", relName(cf)), pos, cf,
				"every return with the counter at zero is preceded by an increment", "a path returns without counting the item although the counter may still be zero")
		}
	}
	r.floor("fit-counting closures of Terminal.constrain", n, 1)
}

// linearOf decomposes an integer value into a sum of terms with constant offsets: v = sum(terms) + k.
func linearOf(v ssa.Value, terms map[ssa.Value]int, sign int, depth int) int64 {
	if k, ok := constIntVal(v); ok {
		return int64(sign) * k
	}
	if bo, ok := v.(*ssa.BinOp); ok && depth < 6 {
		switch bo.Op {
		case token.ADD:
			return linearOf(bo.X, terms, sign, depth+1) + linearOf(bo.Y, terms, sign, depth+1)
		case token.SUB:
			return linearOf(bo.X, terms, sign, depth+1) + linearOf(bo.Y, terms, -sign, depth+1)
		}
	}
	terms[v] += sign
	return 0
}

// c15r19: a loop that looks for the next separator byte with IndexByte(s[idx:], c) and continues behind it
// advances by exactly found+1 per hit: less never ends, more skips a byte that may be a separator itself
// (round-10 mutant C15b10 wrote `idx += found + 1` in Chars.NumLines on top of the loop's own idx++: an empty
// line inside a multi-line item was not counted, the item was drawn taller than it was accounted for and the
// rows below it were painted over).
func c15r19(c *Ctx, r *Report) {
	l := c.L
	r.rule("C15-R19", "C (scan step = found + 1)", "P1",
		"in every loop of package util whose index i is advanced by the result of bytes.IndexByte / strings.IndexByte applied to s[i:], the value of i on the back edge is i + found + 1",
		"the number of lines of an item (Chars.NumLines) disagrees with the lines that are drawn (Chars.Lines): rows overlap or stay blank")
	n := 0
	for _, fn := range l.funcs {
		if fn.Pkg == nil || fn.Pkg.Pkg.Path() != pkgAlias["util"] {
			continue
		}
		eachInstr(fn, func(in ssa.Instruction) {
			phi, ok := in.(*ssa.Phi)
			if !ok {
				return
			}
			if bt, ok := phi.Type().Underlying().(*types.Basic); !ok || bt.Info()&types.IsInteger == 0 {
				return
			}
			for ei, e := range phi.Edges {
				pred := phi.Block().Preds[ei]
				if !phi.Block().Dominates(pred) {
					continue // not a back edge
				}
				terms := map[ssa.Value]int{}
				k := linearOf(e, terms, 1, 0)
				if terms[phi] != 1 {
					continue
				}
				var found ssa.Value
				other := false
				for t, coef := range terms {
					if t == ssa.Value(phi) || coef == 0 {
						continue
					}
					call, ok := t.(*ssa.Call)
					nm := ""
					if ok {
						nm = calleeName(call.Common())
					}
					if ok && coef == 1 && (nm == "bytes.IndexByte" || nm == "strings.IndexByte") {
						if sl, ok := call.Call.Args[0].(*ssa.Slice); ok && sl.Low == ssa.Value(phi) {
							found = t
							continue
						}
					}
					other = true
				}
				if found == nil || other {
					continue
				}
				n++
				r.check(k == 1, fmt.Sprintf("%s:scan step of %s", relName(fn), phi.Comment), e.Pos(), fn,
					"next index = index + found + 1", fmt.Sprintf("the loop continues at index + found + %d: %s", k, map[bool]string{true: "the byte after a separator is skipped", false: "the separator is found again for ever"}[k > 1]))
			}
		})
	}
	r.floor("IndexByte scan loops in package util", n, 1)
}

// c15r20: printList paints the rows offset .. offset+height-1 of the result. Terminal.constrain is what brings
// offset (and cy) into the range of the current result, so printList reads them only after it has called it
// (round-10 mutant C15c10 computed `count := Length() - t.offset` above the call: after scrolling down, a query
// with fewer matches than the old offset left the list area blank while the info line said 19 matches).
func c15r20(c *Ctx, r *Report) {
	l := c.L
	r.rule("C15-R20", "A (constrain before the scroll position is read)", "P1",
		"in Terminal.printList, every read of Terminal.offset and Terminal.cy is dominated by the call of Terminal.constrain",
		"the list is painted from a scroll offset that belongs to the previous result: rows stay blank although there are matches")
	fn := l.Fn("fzf", "(*Terminal).printList")
	con := l.Fn("fzf", "(*Terminal).constrain")
	fOff := l.Field("fzf", "Terminal", "offset")
	fCy := l.Field("fzf", "Terminal", "cy")
	if fn == nil || con == nil || fOff == nil || fCy == nil {
		r.unest("anchors", token.NoPos, nil, "anchors Terminal.printList / constrain / offset / cy", "cannot resolve")
		return
	}
	var calls []ssa.Instruction
	eachInstr(fn, func(in ssa.Instruction) {
		if staticCallee(in) == con {
			calls = append(calls, in)
		}
	})
	if len(calls) == 0 {
		r.bad(relName(fn)+":constrain is called", fn.Pos(), fn, "printList calls constrain", "printList does not call Terminal.constrain")
		return
	}
	n := 0
	eachInstr(fn, func(in ssa.Instruction) {
		u, ok := in.(*ssa.UnOp)
		if !ok || u.Op != token.MUL {
			return
		}
		f, _ := fieldOf(u.X)
		if f != fOff && f != fCy {
			return
		}
		n++
		dom := false
		for _, cl := range calls {
			if dominates(cl, u) {
				dom = true
			}
		}
		r.check(dom, fmt.Sprintf("%s:read #%d of Terminal.%s", relName(fn), n, f.Name()), u.Pos(), fn, "after constrain()", "Terminal."+f.Name()+" is read before constrain() has adjusted it to the current result")
	})
	r.floor("reads of the scroll position in printList", n, 1)
}

// c15r21: printItem skips a row when the memo of what is on it (Terminal.prevLines: number of lines, current,
// selected, label, query length, result) is unchanged. --wrap and --multi-line change how a row is drawn without
// changing any of these when the item is clipped to the rows that are left, so the actions that toggle them
// invalidate the memo (D84: toggle-wrap / toggle-multi-line did not: the last visible row kept the truncated
// form `Lxxxx··` where a fresh --wrap shows the wrapped text).
func c15r21(c *Ctx, r *Report) {
	l := c.L
	r.rule("C15-R21", "A (a change of the wrapping mode invalidates the row memo)", "P1",
		"in Terminal.Loop and its closures, every path from a store into Terminal.wrap or Terminal.multiLine to a return passes a call of Terminal.forceRerenderList",
		"after toggle-wrap / toggle-multi-line a row keeps its old rendering: the screen does not show the line the way the current mode draws it")
	loop := l.Fn("fzf", "(*Terminal).Loop")
	force := l.Fn("fzf", "(*Terminal).forceRerenderList")
	fW := l.Field("fzf", "Terminal", "wrap")
	fM := l.Field("fzf", "Terminal", "multiLine")
	if loop == nil || force == nil || fW == nil || fM == nil {
		r.unest("anchors", token.NoPos, nil, "anchors Terminal.Loop / forceRerenderList / wrap / multiLine", "cannot resolve")
		return
	}
	isForce := func(in ssa.Instruction) bool { return staticCallee(in) == force }
	n := 0
	for _, fn := range withClosures(loop) {
		eachInstr(fn, func(in ssa.Instruction) {
			st, ok := in.(*ssa.Store)
			if !ok {
				return
			}
			fld, _ := fieldOf(st.Addr)
			if fld != fW && fld != fM {
				return
			}
			n++
			hit := pathAvoiding(st, isReturn, isForce, nil)
			r.check(hit == nil, fmt.Sprintf("%s:change of Terminal.%s invalidates the row memo", relName(rootFn(fn)), fld.Name()), st.Pos(), fn,
				"forceRerenderList follows", "Terminal."+fld.Name()+" is changed and the handler returns without invalidating prevLines")
		})
	}
	r.floor("stores into Terminal.wrap / Terminal.multiLine in Terminal.Loop", n, 2)
}

// c15r22: in the reverse-list layout the physical row of list line i depends on the number of header lines
// (see C15-R17). change-header / transform-header change that number as well, so when Terminal.changeHeader
// reports a different number of lines the row memo is invalidated (D85: it was not: with --header-first the
// separator of the old info line stayed behind `item09`).
func c15r22(c *Ctx, r *Report) {
	l := c.L
	r.rule("C15-R22", "A (a header of another height invalidates the row memo)", "P1",
		"in Terminal.Loop and its closures, every path from the true branch of a call of Terminal.changeHeader (the number of header lines changed) to a return passes a call of Terminal.forceRerenderList",
		"with --layout reverse-list, change-header to fewer or more lines leaves fragments of what was on the rows before")
	loop := l.Fn("fzf", "(*Terminal).Loop")
	force := l.Fn("fzf", "(*Terminal).forceRerenderList")
	ch := l.Fn("fzf", "(*Terminal).changeHeader")
	if loop == nil || force == nil || ch == nil {
		r.unest("anchors", token.NoPos, nil, "anchors Terminal.Loop / forceRerenderList / changeHeader", "cannot resolve")
		return
	}
	isForce := func(in ssa.Instruction) bool { return staticCallee(in) == force }
	n := 0
	for _, fn := range withClosures(loop) {
		eachInstr(fn, func(in ssa.Instruction) {
			call, ok := in.(*ssa.Call)
			if !ok || call.Common().StaticCallee() != ch {
				return
			}
			n++
			edgeOK := func(from, to *ssa.BasicBlock) bool {
				iff, ok := from.Instrs[len(from.Instrs)-1].(*ssa.If)
				if !ok || iff.Cond != ssa.Value(call) {
					return true
				}
				return to == from.Succs[0]
			}
			hit := pathAvoiding(call, isReturn, isForce, edgeOK)
			r.check(hit == nil, fmt.Sprintf("%s:changeHeader call #%d", relName(rootFn(fn)), n), call.Pos(), fn,
				"forceRerenderList follows when the number of lines changed", "the number of header lines changes and the handler returns without invalidating prevLines")
		})
	}
	r.floor("calls of Terminal.changeHeader in Terminal.Loop", n, 1)
}

// c15r23: every width computation counts U+FFFD (a valid character, and what invalid bytes of a line are
// turned into) as one column. The light renderer filters what it sends to the terminal rune by rune; utf8.RuneError
// IS U+FFFD, so a filter `r != utf8.RuneError` with no look at the decoded size also drops the valid character
// (D86: it did: the row was cleared too few cells and kept characters of the item shown there before).
func c15r23(c *Ctx, r *Report) {
	l := c.L
	r.rule("C15-R23", "D (what is counted is drawn)", "P1",
		"in LightRenderer.stderrInternal, the block that appends the decoded rune to the output is reachable with the rune equal to utf8.RuneError (the test against RuneError is combined with the size returned by utf8.DecodeRune)",
		"a line containing U+FFFD is drawn narrower than it is accounted for: cells of the previous content of the row are not cleared")
	fn := l.Fn("tui", "(*LightRenderer).stderrInternal")
	if fn == nil {
		r.unest("anchors", token.NoPos, nil, "anchor LightRenderer.stderrInternal", "cannot resolve")
		return
	}
	pc := pathConds(fn)
	n := 0
	eachInstr(fn, func(in ssa.Instruction) {
		st, ok := in.(*ssa.Store)
		if !ok {
			return
		}
		ex, ok := st.Val.(*ssa.Extract)
		if !ok || ex.Index != 0 {
			return
		}
		call, ok := ex.Tuple.(*ssa.Call)
		if !ok || calleeName(call.Common()) != "unicode/utf8.DecodeRune" {
			return
		}
		n++
		always, reach := pc.Implies(st.Block(), func(lits []Lit) bool {
			for _, lt := range lits {
				bo, ok := lt.Atom.(*ssa.BinOp)
				if !ok || bo.X != ssa.Value(ex) || !isConstInt(bo.Y, 0xFFFD) {
					continue
				}
				if (bo.Op == token.NEQ && lt.Val) || (bo.Op == token.EQL && !lt.Val) {
					return true
				}
			}
			return false
		})
		r.check(!always && reach, fmt.Sprintf("%s:the decoded rune is emitted (#%d)", relName(fn), n), st.Pos(), fn,
			"reachable with a validly encoded U+FFFD", "every path to the output of the decoded rune requires r != utf8.RuneError: a valid U+FFFD is dropped although it is counted as one column")
	})
	r.floor("places where stderrInternal emits the decoded rune", n, 1)
}

// c12r15: the command line written into the popup script is read by sh. The two fifo paths in it come from
// os.TempDir() — $TMPDIR — and have to be quoted for sh like everything else: with escapeSingleQuote. Go's %q
// produces a double-quoted Go literal, inside which sh still expands $(...) , `...` and $VAR (D87: it was %q:
// TMPDIR=/tmp/t$(touch PWNED) executed the command substitution and the re-launch failed).
func c12r15(c *Ctx, r *Report) {
	l := c.L
	r.rule("C12-R15", "B (everything pasted into the popup command is sh-quoted)", "P1",
		"in runProxy, every fmt.Sprintf that builds the redirected command (its constant format contains ` > `) has no %q verb, and each of its arguments is either the command prefix handed in by the caller or a direct result of escapeSingleQuote",
		"a $TMPDIR containing $(...) , a back-quote, a double quote or a non-printable character is executed as shell syntax by the popup script, or the fifo cannot be opened and fzf --tmux does not start")
	fn := l.Fn("fzf", "runProxy")
	esc := l.Fn("fzf", "escapeSingleQuote")
	if fn == nil || esc == nil || len(fn.Params) == 0 {
		r.unest("anchors", token.NoPos, nil, "anchors runProxy / escapeSingleQuote", "cannot resolve")
		return
	}
	var prefix ssa.Value
	for _, p := range fn.Params {
		if p.Name() == "commandPrefix" {
			prefix = p
		}
	}
	n := 0
	eachInstr(fn, func(in ssa.Instruction) {
		call, ok := in.(*ssa.Call)
		if !ok || calleeName(call.Common()) != "fmt.Sprintf" || len(call.Call.Args) != 2 {
			return
		}
		format, ok := constString(call.Call.Args[0])
		if !ok || !strings.Contains(format, " > ") {
			return
		}
		n++
		key := fmt.Sprintf("%s:redirected command #%d", relName(fn), n)
		if strings.Contains(format, "%q") {
			r.bad(key+" has no %q", call.Pos(), fn, "sh quoting, not Go quoting", "the format "+format+" quotes a path with %q: sh expands $(...), `...` and $VAR inside double quotes")
		} else {
			r.ok(key+" has no %q", call.Pos(), fn, "no Go-quoted argument in "+format)
		}
		// the variadic arguments
		sl, ok := call.Call.Args[1].(*ssa.Slice)
		if !ok {
			r.unest(key+" arguments", call.Pos(), fn, "the argument list", "not a literal variadic call")
			return
		}
		arr := sl.X
		k := 0
		eachInstr(fn, func(in2 ssa.Instruction) {
			st, ok := in2.(*ssa.Store)
			if !ok {
				return
			}
			ia, ok := st.Addr.(*ssa.IndexAddr)
			if !ok || ia.X != arr {
				return
			}
			k++
			v := stripConv(st.Val)
			good := false
			if c2, ok := v.(*ssa.Call); ok && c2.Common().StaticCallee() == esc {
				good = true
			} else if prefix != nil {
				fromPrefix, other := false, false
				for w := range backwardSlice(v, nil, nil) {
					switch x := w.(type) {
					case *ssa.Parameter:
						if ssa.Value(x) == prefix {
							fromPrefix = true
						} else {
							other = true
						}
					case *ssa.Call:
						other = true
					}
				}
				good = fromPrefix && !other
			}
			r.check(good, fmt.Sprintf("%s argument %d", key, k), st.Pos(), fn, "the caller's prefix or escapeSingleQuote(...)", "argument "+describe(v)+" is pasted into the sh command line without escapeSingleQuote")
		})
	})
	r.floor("redirected commands built in runProxy", n, 3)
}

// c09r23: the query is limited to maxPatternLength runes; Terminal.Loop cuts it after every action. The query
// a session starts with is the same query, so NewTerminal applies the same limit (D88: it did not: a --query of
// 1200 runes was searched as given, and the first action of any kind — even `up` — cut it to 1000 runes, which
// counted as a query change and re-ran the search with other results).
func c09r23(c *Ctx, r *Report) {
	l := c.L
	r.rule("C09-R23", "D (the initial query is limited like every later one)", "P1",
		"in NewTerminal, the value stored into Terminal.input is a slice expression whose upper bound is computed from the constant maxPatternLength",
		"a cursor motion changes the query: an over-long --query is shortened by the first action and the result list changes under a navigation key")
	fn := l.Fn("fzf", "NewTerminal")
	fIn := l.Field("fzf", "Terminal", "input")
	k := l.Const("fzf", "maxPatternLength")
	if fn == nil || fIn == nil || k == nil {
		r.unest("anchors", token.NoPos, nil, "anchors NewTerminal / Terminal.input / maxPatternLength", "cannot resolve")
		return
	}
	limit, _ := constantInt64(k)
	n := 0
	eachInstr(fn, func(in ssa.Instruction) {
		st, ok := in.(*ssa.Store)
		if !ok {
			return
		}
		if f, _ := fieldOf(st.Addr); f != fIn {
			return
		}
		n++
		good := false
		if sl, ok := stripConv(st.Val).(*ssa.Slice); ok && sl.High != nil {
			for v := range backwardSlice(sl.High, func(*ssa.CallCommon) bool { return true }, nil) {
				if isConstInt(v, limit) {
					good = true
				}
			}
		}
		r.check(good, fmt.Sprintf("%s:initial query #%d is cut to maxPatternLength", relName(fn), n), st.Pos(), fn,
			"input[:min(len, maxPatternLength)]", "the query given with --query is stored at its full length: the event loop cuts it after the first action, whatever the action is")
	})
	r.floor("stores into Terminal.input in NewTerminal", n, 1)
}

// c09r24: with --no-input (or after hide-input) the query cannot be edited: Terminal.Loop puts it back after
// every action. The history cursor is part of the same editor state, so previous-history / next-history leave it
// alone while the input is hidden (D89: they moved it and recorded the query as an edit of the entry: after
// hide-input, previous-history twice, show-input, the next previous-history showed the third most recent entry).
func c09r24(c *Ctx, r *Report) {
	l := c.L
	r.rule("C09-R24", "A (the history cursor moves only while the query can change)", "P1",
		"in Terminal.Loop and its closures, every call of History.previous, History.next and History.override is control dependent on a test of Terminal.inputless",
		"history navigation pressed while the input is hidden is remembered: after show-input the history continues from an entry the user never saw")
	loop := l.Fn("fzf", "(*Terminal).Loop")
	fLess := l.Field("fzf", "Terminal", "inputless")
	targets := map[*ssa.Function]bool{}
	for _, nm := range []string{"previous", "next", "override"} {
		if f := l.Fn("fzf", "(*History)."+nm); f != nil {
			targets[f] = true
		}
	}
	if loop == nil || fLess == nil || len(targets) != 3 {
		r.unest("anchors", token.NoPos, nil, "anchors Terminal.Loop / History.previous / next / override / Terminal.inputless", "cannot resolve")
		return
	}
	cc := cdCache{}
	n := 0
	for _, fn := range withClosures(loop) {
		eachInstr(fn, func(in ssa.Instruction) {
			callee := staticCallee(in)
			if callee == nil || !targets[callee] {
				return
			}
			n++
			under := false
			for cond := range cc.of(in) {
				for v := range backwardSlice(cond, nil, nil) {
					if f, _ := loadedField(v); f == fLess {
						under = true
					}
				}
			}
			r.check(under, fmt.Sprintf("%s:history call #%d (%s)", relName(rootFn(fn)), n, callee.Name()), in.Pos(), fn,
				"only while the input is shown", "History."+callee.Name()+" is called whether or not the input is hidden: the history cursor moves although the query is put back")
		})
	}
	r.floor("calls of History.previous / next / override in Terminal.Loop", n, 4)
}

// c09r25: forward-word / kill-word look for the end of the next word with the pattern Terminal.wordNext, whose
// last alternative takes "the last character, whatever it is" so that trailing non-word characters can be
// passed. A query can contain a newline (--query, change-query, replace-query on a --read0 item), and `.` does
// not match one unless the s flag is set (D90: `(.$)`: with only newlines left after the cursor forward-word did
// not move and kill-word killed nothing, while any other trailing character was passed).
func c09r25(c *Ctx, r *Report) {
	l := c.L
	r.rule("C09-R25", "D (word patterns treat a newline like any other character)", "P1",
		"no pattern stored into Terminal.wordNext or Terminal.wordRubout in NewTerminal contains an any-character-but-newline operator (`.` without the s flag)",
		"the cursor gets stuck in front of a newline in the query: forward-word and kill-word do nothing there")
	fn := l.Fn("fzf", "NewTerminal")
	fN := l.Field("fzf", "Terminal", "wordNext")
	fR := l.Field("fzf", "Terminal", "wordRubout")
	if fn == nil || fN == nil || fR == nil {
		r.unest("anchors", token.NoPos, nil, "anchors NewTerminal / Terminal.wordNext / wordRubout", "cannot resolve")
		return
	}
	var hasDot func(re *syntax.Regexp) bool
	hasDot = func(re *syntax.Regexp) bool {
		if re.Op == syntax.OpAnyCharNotNL {
			return true
		}
		for _, sub := range re.Sub {
			if hasDot(sub) {
				return true
			}
		}
		return false
	}
	n := 0
	eachInstr(fn, func(in ssa.Instruction) {
		st, ok := in.(*ssa.Store)
		if !ok {
			return
		}
		f, _ := fieldOf(st.Addr)
		if f != fN && f != fR {
			return
		}
		seen := map[string]bool{}
		var pats []string
		for v := range backwardSlice(st.Val, func(*ssa.CallCommon) bool { return true }, nil) {
			str, ok := constString(v)
			if !ok || len(str) < 3 || seen[str] {
				continue
			}
			seen[str] = true
			pats = append(pats, str)
		}
		sort.Strings(pats)
		k := 0
		for _, str := range pats {
			// a Sprintf format: the separator class takes the place of the verbs
			pat := strings.ReplaceAll(str, "%s", "x")
			re, err := syntax.Parse(pat, syntax.Perl)
			if err != nil {
				continue // not a pattern (e.g. the word separators themselves)
			}
			n++
			k++
			r.check(!hasDot(re), fmt.Sprintf("%s:pattern #%d for Terminal.%s", relName(fn), k, f.Name()), st.Pos(), fn,
				"no newline-excluding `.` in "+str, "the pattern "+str+" uses `.` without the s flag: a newline in the query is not matched")
		}
	})
	r.floor("word patterns stored by NewTerminal", n, 4)
}

// requestsEvent: the instruction is a call of the local closure `req` (Terminal.Loop) one of whose variadic
// arguments is the constant ev.
func requestsEvent(in ssa.Instruction, ev int64) bool {
	call, ok := in.(*ssa.Call)
	if !ok || call.Common().IsInvoke() || call.Common().StaticCallee() != nil || len(call.Call.Args) != 1 {
		return false
	}
	u, ok := call.Call.Value.(*ssa.UnOp)
	if !ok || u.Op != token.MUL {
		return false
	}
	if nm, ok := u.X.(interface{ Name() string }); !ok || nm.Name() != "req" {
		return false
	}
	sl, ok := call.Call.Args[0].(*ssa.Slice)
	if !ok {
		return false
	}
	found := false
	for _, in2 := range call.Block().Instrs {
		st, ok := in2.(*ssa.Store)
		if !ok {
			continue
		}
		if ia, ok := st.Addr.(*ssa.IndexAddr); ok && ia.X == sl.X && isConstInt(st.Val, ev) {
			found = true
		}
	}
	return found
}

// c15r24: the header lines shown inside the list window are indented by the width of pointer + marker
// (printHeaderImpl). An action that changes that width therefore asks for the header to be redrawn, not only
// the list (D91: change-pointer / transform-pointer requested reqList only: after `change-pointer(>)` from `>>`
// the header lines kept three blanks of indentation while the items and a fresh start use two).
func c15r24(c *Ctx, r *Report) {
	l := c.L
	r.rule("C15-R24", "A (a new pointer width redraws the header)", "P1",
		"in Terminal.Loop and its closures, every path from a store into Terminal.pointerLen to a return passes a req(...) call that includes reqHeader (or reqFullRedraw)",
		"the header rows keep the indentation of the previous pointer: they are not what a redraw in the current state would show")
	loop := l.Fn("fzf", "(*Terminal).Loop")
	fP := l.Field("fzf", "Terminal", "pointerLen")
	kH := l.Const("fzf", "reqHeader")
	kF := l.Const("fzf", "reqFullRedraw")
	if loop == nil || fP == nil || kH == nil || kF == nil {
		r.unest("anchors", token.NoPos, nil, "anchors Terminal.Loop / pointerLen / reqHeader / reqFullRedraw", "cannot resolve")
		return
	}
	vh, _ := constantInt64(kH)
	vf, _ := constantInt64(kF)
	isReq := func(in ssa.Instruction) bool { return requestsEvent(in, vh) || requestsEvent(in, vf) }
	n, reqs := 0, 0
	for _, fn := range withClosures(loop) {
		eachInstr(fn, func(in ssa.Instruction) {
			if isReq(in) {
				reqs++
			}
			st, ok := in.(*ssa.Store)
			if !ok {
				return
			}
			if f, _ := fieldOf(st.Addr); f != fP {
				return
			}
			n++
			hit := pathAvoiding(st, isReturn, isReq, nil)
			r.check(hit == nil, fmt.Sprintf("%s:change #%d of the pointer width redraws the header", relName(rootFn(fn)), n), st.Pos(), fn,
				"req(..., reqHeader) follows", "the pointer width changes and the handler returns without requesting the header to be redrawn")
		})
	}
	r.floor("stores into Terminal.pointerLen in Terminal.Loop", n, 1)
	r.floor("req(...) calls that include reqHeader or reqFullRedraw (control: the call shape resolves)", reqs, 10)
}

// c16r21: handleHttpRequest accepts a Content-Length of up to maxContentLength and reads the request with a
// bufio.Scanner, whose tokens are limited to 64 KiB unless Scanner.Buffer raises the limit (D92: it was not
// called: a POST body of more than 64 KiB without a CRLF in it made the scanner give up silently and the
// complete request was answered "400 incomplete request", while the same action list is accepted from --bind).
func c16r21(c *Ctx, r *Report) {
	l := c.L
	r.rule("C16-R21", "C (the scanner can hold what the length check admits)", "P1",
		"in handleHttpRequest, every call of bufio.Scanner.Scan is dominated by a call of Scanner.Buffer on the same scanner whose maximum is computed from the constant maxContentLength",
		"a POST whose body is within the advertised limit but has a line longer than 64 KiB is rejected as incomplete (and the connection reset): the action list is not executed as it would be from --bind")
	k := l.Const("fzf", "maxContentLength")
	var fn *ssa.Function
	for _, f := range l.funcs {
		if f.Pkg != nil && f.Pkg.Pkg.Path() == pkgAlias["fzf"] && strings.HasSuffix(f.Name(), "handleHttpRequest") {
			fn = f
		}
	}
	if fn == nil || k == nil {
		r.unest("anchors", token.NoPos, nil, "anchors handleHttpRequest / maxContentLength", "cannot resolve")
		return
	}
	limit, _ := constantInt64(k)
	var bufs []*ssa.Call
	eachInstr(fn, func(in ssa.Instruction) {
		call, ok := in.(*ssa.Call)
		if !ok || calleeName(call.Common()) != "(*bufio.Scanner).Buffer" || len(call.Call.Args) != 3 {
			return
		}
		if v, ok := lowerBoundConst(call.Call.Args[2]); ok && v >= limit {
			bufs = append(bufs, call)
		}
	})
	n := 0
	eachInstr(fn, func(in ssa.Instruction) {
		call, ok := in.(*ssa.Call)
		if !ok || calleeName(call.Common()) != "(*bufio.Scanner).Scan" {
			return
		}
		n++
		good := false
		for _, b := range bufs {
			if b.Call.Args[0] == call.Call.Args[0] && dominates(b, call) {
				good = true
			}
		}
		r.check(good, fmt.Sprintf("%s:Scan #%d reads with a buffer limit of at least maxContentLength", relName(fn), n), call.Pos(), fn,
			"Scanner.Buffer(…, >= maxContentLength) precedes", "the scanner is left at its default token limit of 64 KiB although bodies of up to maxContentLength are admitted")
	})
	r.floor("Scanner.Scan calls in handleHttpRequest", n, 1)
}

// lowerBoundConst: the value is a constant, or a sum of constants (x + k folded by the compiler is a constant
// already; this handles the unfolded `const + const` shapes and conversions).
func lowerBoundConst(v ssa.Value) (int64, bool) {
	v = stripConv(v)
	if k, ok := constIntVal(v); ok {
		return k, true
	}
	if bo, ok := v.(*ssa.BinOp); ok && bo.Op == token.ADD {
		a, ok1 := lowerBoundConst(bo.X)
		b, ok2 := lowerBoundConst(bo.Y)
		if ok1 && ok2 {
			return a + b, true
		}
	}
	return 0, false
}

// c11r23: parseAnsiCode reads a decimal parameter into an int by multiply-and-add. A terminal ignores a
// parameter that is out of range; an int that wraps around turns it into another, valid one (D93: it wrapped:
// ESC[18446744073709551650m was read as 34 = blue, ESC[18446744073709551616m as 0 = reset). The accumulation
// is therefore guarded by a comparison of the accumulator with a constant.
func c11r23(c *Ctx, r *Report) {
	l := c.L
	r.rule("C11-R23", "C (no wrap-around in the parameter parser)", "P1",
		"in parseAnsiCode, the digit loop contains a branch on a comparison of the accumulator (or of its updated value acc*10+digit) with a constant, on the way to every multiplication of the accumulator by 10",
		"an over-long SGR parameter is taken for a small valid one: text is coloured or reset by a sequence a terminal ignores")
	fn := l.Fn("fzf", "parseAnsiCode")
	if fn == nil {
		r.unest("anchors", token.NoPos, nil, "anchor parseAnsiCode", "cannot resolve")
		return
	}
	n := 0
	eachInstr(fn, func(in ssa.Instruction) {
		mul, ok := in.(*ssa.BinOp)
		if !ok || mul.Op != token.MUL || !isConstInt(mul.Y, 10) {
			return
		}
		acc, ok := mul.X.(*ssa.Phi)
		if !ok {
			return
		}
		n++
		guarded := false
		eachInstr(fn, func(in2 ssa.Instruction) {
			iff, ok := in2.(*ssa.If)
			if !ok {
				return
			}
			cmp, ok := iff.Cond.(*ssa.BinOp)
			if !ok {
				return
			}
			// the accumulator itself, or its updated value acc*10 + digit
			onAcc := cmp.X == ssa.Value(acc)
			if add, ok := cmp.X.(*ssa.BinOp); ok && add.Op == token.ADD && add.X == ssa.Value(mul) {
				onAcc = true
			}
			if !onAcc {
				return
			}
			switch cmp.Op {
			case token.GTR, token.GEQ, token.LSS, token.LEQ:
			default:
				return
			}
			if _, isK := constIntVal(cmp.Y); !isK {
				return
			}
			// in the digit loop: before the multiplication, or behind it and before the next iteration
			if iff.Block() == mul.Block() || iff.Block().Dominates(mul.Block()) || (mul.Block().Dominates(iff.Block()) && reachFrom(iff.Block())[mul.Block()]) {
				guarded = true
			}
		})
		r.check(guarded, fmt.Sprintf("%s:accumulation #%d is range-checked", relName(fn), n), mul.Pos(), fn,
			"the accumulator is compared with a constant before it is multiplied", "the accumulator is multiplied by 10 with no range check: a long digit string wraps around to a small valid parameter")
	})
	r.floor("decimal accumulations in parseAnsiCode", n, 1)
}

// c11r24: the painter keeps one hyperlink open at a time. When the next span carries ANOTHER link the open one
// has to be closed as well, so the per-span LinkEnd cannot be limited to "the next span has no link" (D94: it
// was: of two adjacent links ESC]8;;http://a/ESC\AAA ESC]8;;http://b/ESC\BBB the second was never sent and BBB
// was drawn as part of the first link — in the list and in the preview window alike).
func c11r24(c *Ctx, r *Report) {
	l := c.L
	r.rule("C11-R24", "A (a change of link closes the open one)", "P1",
		"every per-span call of Window.LinkEnd (inside a loop over spans, or in the callback extractColor runs per span) is reachable on a path that has not tested the link of the next span to be nil",
		"text that belongs to a second hyperlink directly following a first one is drawn as part of the first: the screen shows a link target the input does not give to that text")
	n := 0
	for _, fn := range l.funcs {
		if fn.Pkg == nil || fn.Pkg.Pkg.Path() != pkgAlias["fzf"] || fn.Blocks == nil {
			continue
		}
		hasBegin := false
		var ends []*ssa.Call
		eachInstr(fn, func(in ssa.Instruction) {
			call, ok := in.(*ssa.Call)
			if !ok || !call.Common().IsInvoke() {
				return
			}
			switch call.Common().Method.Name() {
			case "LinkBegin":
				hasBegin = true
			case "LinkEnd":
				ends = append(ends, call)
			}
		})
		if !hasBegin || len(ends) == 0 {
			continue
		}
		pc := pathConds(fn)
		for i, call := range ends {
			perSpan := false
			if fn.Parent() != nil {
				perSpan = true // the callback runs once per span
			} else if inLoop(call.Block()) {
				// a LinkEnd behind the loop over the spans is not per span
				for _, other := range fn.Blocks {
					for _, in := range other.Instrs {
						if c2, ok := in.(*ssa.Call); ok && c2.Common().IsInvoke() && c2.Common().Method.Name() == "LinkBegin" {
							if reachFrom(call.Block())[c2.Block()] {
								perSpan = true
							}
						}
					}
				}
			}
			if !perSpan {
				continue
			}
			n++
			onlyNil, reach := pc.Implies(call.Block(), func(lits []Lit) bool {
				for _, lt := range lits {
					bo, ok := lt.Atom.(*ssa.BinOp)
					if !ok || (bo.Op != token.EQL && bo.Op != token.NEQ) {
						continue
					}
					if k, ok := bo.Y.(*ssa.Const); !ok || k.Value != nil {
						continue
					}
					if (bo.Op == token.EQL) != lt.Val {
						continue // asserts non-nil
					}
					// the link of the next span: a field load or a parameter, not the painter's own variable
					if f, _ := loadedField(bo.X); f != nil {
						return true
					}
					if _, isP := bo.X.(*ssa.Parameter); isP {
						return true
					}
				}
				return false
			})
			r.check(!onlyNil && reach, fmt.Sprintf("%s:per-span LinkEnd #%d", relName(rootFn(fn)), i+1), call.Pos(), fn,
				"also reached when the next span has another link", "the open link is closed only when the next span has no link: a directly following different link is never begun")
		}
	}
	r.floor("per-span LinkEnd calls", n, 2)
}

// c15r25: the terminal learns the header lines of the input (--header-lines) through Terminal.UpdateHeader. When
// the input is restarted the coordinator forgets the lines it has collected, and the terminal has to be told as
// well — a new stream that has no records never sends a header of its own (D95: it was not told: after
// `reload(true)` the screen kept OLDHEAD-A / OLDHEAD-B above an empty list).
func c15r25(c *Ctx, r *Report) {
	l := c.L
	r.rule("C15-R25", "A (a restart takes the old header lines off the screen)", "P1",
		"in the closure of Run that restarts the reader, every path from the entry to the call of Reader.restart passes a call of Terminal.UpdateHeader (or a post of EvtHeader) unless it has tested Options.HeaderLines to be zero",
		"after a reload that yields fewer records than --header-lines, the header rows show lines of the previous input")
	run := l.Fn("fzf", "Run")
	rr := l.Fn("fzf", "(*Reader).restart")
	uh := l.Fn("fzf", "(*Terminal).UpdateHeader")
	fHL := l.Field("fzf", "Options", "HeaderLines")
	kH := l.Const("fzf", "EvtHeader")
	set := l.Fn("util", "(*EventBox).Set")
	if run == nil || rr == nil || uh == nil || fHL == nil || kH == nil {
		r.unest("anchors", token.NoPos, nil, "anchors Run / Reader.restart / Terminal.UpdateHeader / Options.HeaderLines / EvtHeader", "cannot resolve")
		return
	}
	vh, _ := constantInt64(kH)
	n := 0
	for _, g := range withClosures(run) {
		var calls []ssa.Instruction
		eachInstr(g, func(in ssa.Instruction) {
			// `go reader.restart(...)` or a plain call
			if staticCallee(in) == rr {
				calls = append(calls, in)
			}
		})
		if len(calls) == 0 || g == run || len(g.Blocks) == 0 {
			continue
		}
		tells := func(in ssa.Instruction) bool {
			if staticCallee(in) == uh {
				return true
			}
			if call, ok := in.(*ssa.Call); ok && set != nil && call.Common().StaticCallee() == set && len(call.Call.Args) >= 2 && isConstInt(call.Call.Args[1], vh) {
				return true
			}
			return false
		}
		// edges on which HeaderLines is known to be zero are not followed
		edgeOK := func(from, to *ssa.BasicBlock) bool {
			iff, ok := from.Instrs[len(from.Instrs)-1].(*ssa.If)
			if !ok {
				return true
			}
			x, op, k, ok := cmpInt(iff.Cond)
			if !ok || k != 0 {
				return true
			}
			if f, _ := loadedField(x); f != fHL {
				return true
			}
			switch op {
			case token.GTR, token.NEQ:
				return to != from.Succs[1]
			case token.EQL, token.LEQ:
				return to != from.Succs[0]
			}
			return true
		}
		for _, call := range calls {
			n++
			start := g.Blocks[0].Instrs[0]
			hit := pathAvoiding(start, func(in ssa.Instruction) bool { return in == call }, tells, edgeOK)
			if tells(start) {
				hit = nil
			}
			r.check(hit == nil, fmt.Sprintf("%s:restart #%d clears the header on display", relName(run), n), call.Pos(), g,
				"Terminal.UpdateHeader precedes Reader.restart", "the reader is restarted without telling the terminal that the collected header lines are gone")
		}
	}
	r.floor("restarts of the reader in Run", n, 1)
}

// c20r18: the actions that can take the preview window away (they call previewOpts.Toggle or replace the
// preview command) are siblings: toggle-preview / hide-preview and change-preview-window cancel the running
// command when the window is gone; the others have to as well, because once canPreview() is false cursor
// movements send neither requests nor cancellations (D96: `close` and `change-preview()` did not: the command of
// a line that was no longer focused stayed alive until it ended by itself).
func c20r18(c *Ctx, r *Report) {
	l := c.L
	r.rule("C20-R18", "E (sibling handlers: whoever can hide the preview can cancel its command)", "P1",
		"in Terminal.Loop and its closures, from every call of previewOpts.Toggle and from every store into previewOpts.command a direct call of Terminal.cancelPreview is reachable within the same handler",
		"a preview command keeps running after its window was closed and the cursor has moved on: a superseded command is left running instead of being terminated")
	loop := l.Fn("fzf", "(*Terminal).Loop")
	cancel := l.Fn("fzf", "(*Terminal).cancelPreview")
	tog := l.Fn("fzf", "(*previewOpts).Toggle")
	fCmd := l.Field("fzf", "previewOpts", "command")
	fPO := l.Field("fzf", "Terminal", "previewOpts")
	if loop == nil || cancel == nil || tog == nil || fCmd == nil || fPO == nil {
		r.unest("anchors", token.NoPos, nil, "anchors Terminal.Loop / cancelPreview / previewOpts.Toggle / previewOpts.command", "cannot resolve")
		return
	}
	n := 0
	for _, fn := range withClosures(loop) {
		var cancels []ssa.Instruction
		eachInstr(fn, func(in ssa.Instruction) {
			if staticCallee(in) == cancel {
				cancels = append(cancels, in)
			}
		})
		eachInstr(fn, func(in ssa.Instruction) {
			what := ""
			if staticCallee(in) == tog {
				what = "previewOpts.Toggle()"
			}
			if st, ok := in.(*ssa.Store); ok {
				if f, root := fieldOf(st.Addr); f == fCmd {
					// the command of Terminal.previewOpts (not of a local copy)
					if fa, ok := root.(*ssa.FieldAddr); ok {
						if g, _ := fieldOf(fa); g == fPO {
							what = "store into previewOpts.command"
						}
					}
				}
			}
			if what == "" {
				return
			}
			n++
			good := false
			for _, cl := range cancels {
				if canReach(in, cl) {
					good = true
				}
			}
			r.check(good, fmt.Sprintf("%s:%s #%d can cancel the running command", relName(rootFn(fn)), what, n), in.Pos(), fn,
				"cancelPreview is reachable", "the handler can take the preview window away but never cancels the command that is running for it")
		})
	}
	r.floor("handlers that toggle the preview or replace its command", n, 4)
}

// c18r16: doActions stops at a terminating action ("A terminal action performed. We should stop processing
// more."): what is accepted, printed and recorded is the state at that moment. The re-dispatch of the `focus`
// actions at the end of the same function is part of "more" (D97: it was not guarded: with
// `enter:down+accept` and `focus:change-query(FOCUS)` the history file and --print-query got FOCUS instead of the
// query that was typed).
func c18r16(c *Ctx, r *Report) {
	l := c.L
	r.rule("C18-R16", "A (nothing runs after the terminating action)", "P1",
		"in the closure of Terminal.Loop that dispatches an action list and re-dispatches the focus actions, every block that jumps back to another round of dispatch is reached only on paths that have read the variable `looping` as true",
		"actions bound to the focus event run after accept / abort and change the query that is recorded in the history (and printed)")
	loop := l.Fn("fzf", "(*Terminal).Loop")
	fKm := l.Field("fzf", "Terminal", "keymap")
	kFocus := l.Const("tui", "Focus")
	if loop == nil || fKm == nil || kFocus == nil {
		r.unest("anchors", token.NoPos, nil, "anchors Terminal.Loop / Terminal.keymap / tui.Focus", "cannot resolve")
		return
	}
	focusVal, _ := constantInt64(kFocus)
	cc := cdCache{}
	n := 0
	for _, fn := range withClosures(loop) {
		if fn == loop {
			continue
		}
		// the closure that looks up the key map entry of the focus event with a comma-ok lookup and loops
		var oks []ssa.Value
		eachInstr(fn, func(in ssa.Instruction) {
			ex, ok := in.(*ssa.Extract)
			if !ok || ex.Index != 1 {
				return
			}
			lk, ok := ex.Tuple.(*ssa.Lookup)
			if !ok || !lk.CommaOk {
				return
			}
			if f, _ := loadedField(lk.X); f != fKm {
				return
			}
			// the entry of the focus event
			kc, ok := lk.Index.(*ssa.Call)
			if !ok || len(kc.Call.Args) != 1 || !isConstInt(kc.Call.Args[0], focusVal) {
				return
			}
			oks = append(oks, ex)
		})
		if len(oks) == 0 {
			continue
		}
		for _, b := range fn.Blocks {
			if len(b.Instrs) == 0 || len(b.Succs) != 1 || !b.Succs[0].Dominates(b) {
				continue // not a back edge
			}
			conds := cc.of(b.Instrs[0])
			onOk := false
			for _, okv := range oks {
				if conds[okv] {
					onOk = true
				}
			}
			if !onOk {
				continue
			}
			n++
			// every path to the jump has seen `looping` true (control dependence alone does not say with which outcome)
			pc := pathConds(fn)
			guarded, _ := pc.Implies(b, func(lits []Lit) bool {
				for _, lt := range lits {
					if !lt.Val {
						continue
					}
					if u, ok := lt.Atom.(*ssa.UnOp); ok && u.Op == token.MUL {
						if nm, ok := u.X.(interface{ Name() string }); ok && nm.Name() == "looping" {
							return true
						}
					}
				}
				return false
			})
			r.check(guarded, fmt.Sprintf("%s:re-dispatch #%d of event actions happens only while looping", relName(rootFn(fn)), n), b.Instrs[len(b.Instrs)-1].Pos(), fn,
				"under `looping`", "the actions of the focus event are dispatched even after a terminating action has cleared `looping`")
		}
	}
	r.floor("re-dispatches of event actions in Terminal.Loop", n, 1)
}

// c11r25: SGR parameters 38, 48 and 58 (foreground, background, underline colour) are the three that are
// followed by a colour specification (5;N or 2;R;G;B); all other parameters may carry colon-separated
// sub-parameters that belong to them (4:3 = curly underline). interpretCode has to consume both, or the numbers
// are read as parameters of their own (D98: it knew neither: ESC[58;5;0m was read as blink + reset and
// ESC[31;4:0m as red + underline + reset: the colour set before was lost).
func c11r25(c *Ctx, r *Report) {
	l := c.L
	r.rule("C11-R25", "E (every parameter that takes arguments consumes them)", "P1",
		"in interpretCode, each of the SGR parameters 38, 48 and 58 has a case that enters the extended-colour state (increments state256), and the interpretation of a number as a parameter of its own is control dependent on a test of the separator byte ':' in front of it",
		"the arguments of an underline colour, or the sub-parameter of an underline style, are read as bold / blink / reset: text loses the colours the input gave it")
	fd := fzfFuncDecl(l, "fzf", "interpretCode")
	fn := l.Fn("fzf", "interpretCode")
	if fd == nil || fn == nil {
		r.unest("anchors", token.NoPos, nil, "anchor interpretCode", "cannot resolve")
		return
	}
	// the state variable: the one the case of 38 increments (not identified by its name)
	incOf := func(cc *ast.CaseClause) string {
		for _, st := range cc.Body {
			if ids, ok := st.(*ast.IncDecStmt); ok && ids.Tok == token.INC {
				if id, ok := ids.X.(*ast.Ident); ok {
					return id.Name
				}
			}
		}
		return ""
	}
	hasLit := func(cc *ast.CaseClause, v string) bool {
		for _, e := range cc.List {
			if lit, ok := e.(*ast.BasicLit); ok && lit.Kind == token.INT && lit.Value == v {
				return true
			}
		}
		return false
	}
	stateVar := ""
	ast.Inspect(fd.Body, func(nd ast.Node) bool {
		if cc, ok := nd.(*ast.CaseClause); ok && hasLit(cc, "38") && incOf(cc) != "" {
			stateVar = incOf(cc)
		}
		return true
	})
	enters := map[string]token.Pos{}
	ast.Inspect(fd.Body, func(nd ast.Node) bool {
		cc, ok := nd.(*ast.CaseClause)
		if !ok || stateVar == "" || incOf(cc) != stateVar {
			return true
		}
		for _, e := range cc.List {
			if lit, ok := e.(*ast.BasicLit); ok && lit.Kind == token.INT {
				enters[lit.Value] = cc.Pos()
			}
		}
		return true
	})
	// ECMA-48 / ITU-T T.416: the parameters that are followed by a colour specification
	for _, p := range []string{"38", "48", "58"} {
		_, ok := enters[p]
		r.check(ok, "fzf.interpretCode:parameter "+p+" consumes its colour specification", fd.Pos(), fn,
			"a case for "+p+" enters the extended-colour state", "SGR "+p+" has no case that enters the extended-colour state: the numbers that follow it are read as parameters of their own")
	}
	// the sub-parameter test
	cc := cdCache{}
	n := 0
	eachInstr(fn, func(in ssa.Instruction) {
		// count++ marks "this number is interpreted as a parameter"
		bo, ok := in.(*ssa.BinOp)
		if !ok || bo.Op != token.ADD || !isConstInt(bo.Y, 1) {
			return
		}
		phi, ok := bo.X.(*ssa.Phi)
		if !ok || phi.Comment != "count" {
			return
		}
		n++
		sepTest := false
		for cond := range cc.of(in) {
			for v := range backwardSlice(cond, nil, nil) {
				cmp, ok := v.(*ssa.BinOp)
				if !ok || (cmp.Op != token.EQL && cmp.Op != token.NEQ) || !isConstInt(cmp.Y, ':') {
					continue
				}
				if bt, ok := cmp.X.Type().Underlying().(*types.Basic); ok && bt.Kind() == types.Uint8 {
					sepTest = true
				}
			}
		}
		r.check(sepTest, fmt.Sprintf("%s:a number after a colon is not a parameter of its own (#%d)", relName(fn), n), in.Pos(), fn,
			"depends on a test of the separator ':'", "every number is interpreted as a parameter, whether it follows ';' or ':'")
	})
	r.floor("places where interpretCode counts a parameter", n, 1)
}

// c19r17: the rules about hidden directories and --walker-skip are about what is met during the walk. A root the
// user names is walked whatever its own name is (D99: it was subject to the same tests: `--walker-root
// node_modules` or `--walker-root .cfg` listed nothing, while `node_modules/.` listed everything).
func c19r17(c *Ctx, r *Report) {
	l := c.L
	r.rule("C19-R17", "A (the prune tests exempt the root)", "P1",
		"in the walker callbacks of Reader.readFiles, every return of filepath.SkipDir is reached only on paths that have read, with one and the same outcome, a bool that says whether the entry is the root (a parameter or captured variable of the callback), and readFiles has a per-root flag that a callback clears",
		"an explicitly given root whose base name is hidden or in the skip list (.git, node_modules, ~/.config) lists nothing")
	fn := l.Fn("fzf", "(*Reader).readFiles")
	if fn == nil {
		r.unest("anchors", token.NoPos, nil, "anchor Reader.readFiles", "cannot resolve")
		return
	}
	_ = cdCache{}
	isBoolSource := func(v ssa.Value) bool {
		bt, ok := v.Type().Underlying().(*types.Basic)
		if !ok || bt.Kind() != types.Bool {
			return false
		}
		if _, isP := v.(*ssa.Parameter); isP {
			return true
		}
		if u, ok := v.(*ssa.UnOp); ok && u.Op == token.MUL {
			if _, isF := u.X.(*ssa.FreeVar); isF {
				return true
			}
		}
		return false
	}
	n := 0
	for _, g := range withClosures(fn) {
		eachInstr(g, func(in ssa.Instruction) {
			// the read of filepath.SkipDir that feeds the return (returns are spilled through the result cell
			// because of the deferred Unlock)
			ret, ok := in.(*ssa.UnOp)
			if !ok || ret.Op != token.MUL {
				return
			}
			gl, ok := ret.X.(*ssa.Global)
			if !ok || gl.Name() != "SkipDir" {
				return
			}
			n++
			// every path to the prune has read the flag with one and the same outcome (control dependence alone
			// would also accept a prune that merely follows an `if … && !isRoot { return }`)
			pcg := pathConds(g)
			exempt := false
			for _, want := range []bool{false, true} {
				holds, reach := pcg.Implies(ret.Block(), func(lits []Lit) bool {
					for _, lt := range lits {
						if isBoolSource(lt.Atom) && lt.Val == want {
							return true
						}
					}
					return false
				})
				if holds && reach {
					exempt = true
				}
			}
			r.check(exempt, fmt.Sprintf("%s:prune #%d does not apply to the root", relName(fn), n), ret.Pos(), g,
				"under a test of the is-root flag", "the directory is pruned whether or not it is the root the user gave")
		})
	}
	r.floor("returns of filepath.SkipDir in the walker callback", n, 4)
	// the per-root flag: a bool cell of readFiles that a callback sets to false
	cleared := 0
	for _, g := range withClosures(fn) {
		if g == fn {
			continue
		}
		eachInstr(g, func(in ssa.Instruction) {
			st, ok := in.(*ssa.Store)
			if !ok {
				return
			}
			if _, isF := st.Addr.(*ssa.FreeVar); !isF {
				return
			}
			if bv, ok := constBool(st.Val); ok && !bv {
				cleared++
			}
		})
	}
	r.check(cleared >= 1, relName(fn)+":the first callback of a walk is told apart", fn.Pos(), fn,
		"a callback clears a flag of readFiles", "no callback clears a flag of readFiles: nothing distinguishes the root from what is met below it")
}

// c03r12: the bonus of a position is bonusMatrix[class before][class at]; in front of the first character stands
// initialCharClass (white space in the default scheme, a delimiter in the path scheme). All matchers follow that;
// bonusAt — from which the boundary-term matcher takes its score — has to as well (D100: it returned the
// constant bonusBoundaryWhite for index 0: in the path scheme `'foo'` scored the whole line `foo` 88 and
// `a/foo` 89, so the exact line was ranked below longer ones).
func c03r12(c *Ctx, r *Report) {
	l := c.L
	r.rule("C03-R12", "E (one bonus table for every position)", "P1",
		"every value bonusAt returns is read from bonusMatrix, and on the paths with idx == 0 the row is initialCharClass",
		"a term of the boundary kind scores the start of a line by another bonus than the fuzzy, exact and prefix matchers do: under --scheme=path the complete match ranks below matches after a slash")
	fn := l.Fn("algo", "bonusAt")
	gm := l.Global("algo", "bonusMatrix")
	gi := l.Global("algo", "initialCharClass")
	if fn == nil || gm == nil || gi == nil || len(fn.Params) < 2 {
		r.unest("anchors", token.NoPos, nil, "anchors bonusAt / bonusMatrix / initialCharClass", "cannot resolve")
		return
	}
	pc := pathConds(fn)
	idx := fn.Params[1]
	n := 0
	eachInstr(fn, func(in ssa.Instruction) {
		ret, ok := in.(*ssa.Return)
		if !ok || len(ret.Results) != 1 {
			return
		}
		n++
		// *(&(&bonusMatrix[row])[col])
		var row ssa.Value
		if u, ok := ret.Results[0].(*ssa.UnOp); ok && u.Op == token.MUL {
			if ia, ok := u.X.(*ssa.IndexAddr); ok {
				if ib, ok := ia.X.(*ssa.IndexAddr); ok && ib.X == ssa.Value(gm) {
					row = ib.Index
				}
			}
		}
		if !r.check(row != nil, fmt.Sprintf("%s:return #%d reads bonusMatrix", relName(fn), n), ret.Pos(), fn,
			"bonusMatrix[row][col]", "the bonus returned is "+describe(ret.Results[0])+", not an entry of bonusMatrix") {
			return
		}
		atStart, reach := pc.Implies(ret.Block(), func(lits []Lit) bool {
			for _, lt := range lits {
				x, op, k, ok := cmpInt(lt.Atom)
				if ok && x == ssa.Value(idx) && k == 0 && ((op == token.EQL && lt.Val) || (op == token.NEQ && !lt.Val)) {
					return true
				}
			}
			return false
		})
		if atStart && reach {
			u, ok := row.(*ssa.UnOp)
			good := ok && u.Op == token.MUL && u.X == ssa.Value(gi)
			r.check(good, fmt.Sprintf("%s:return #%d at index 0 uses the row of initialCharClass", relName(fn), n), ret.Pos(), fn,
				"row = initialCharClass", "the row used for the first position is "+describe(row)+", not initialCharClass")
		}
	})
	r.floor("returns of bonusAt", n, 2)
}

// c08r27: `changed` says that the event loop has to post a search request at the end of the iteration. The
// actions of one binding accumulate into it: an action may set it, none may take back what an earlier action of
// the same list asked for (D101: toggle-search assigned `changed = !t.paused`: `exclude+toggle-search`,
// `toggle-sort+toggle-search` and `change-nth(..)+toggle-search` lost the request — the exclusion never reached
// the list).
func c08r27(c *Ctx, r *Report) {
	l := c.L
	r.rule("C08-R27", "D (the search-request flag only accumulates)", "P1",
		"in the closures of Terminal.Loop, every store into the captured variable `changed` stores the constant true or a value computed from the variable's own current value by ||",
		"an action list whose last action rewrites the flag drops the search request of the actions before it: the list on display does not reflect the exclusion / sort toggle / nth change that was just made")
	loop := l.Fn("fzf", "(*Terminal).Loop")
	if loop == nil {
		r.unest("anchors", token.NoPos, nil, "anchor Terminal.Loop", "cannot resolve")
		return
	}
	n := 0
	for _, fn := range withClosures(loop) {
		eachInstr(fn, func(in ssa.Instruction) {
			st, ok := in.(*ssa.Store)
			if !ok {
				return
			}
			nm, ok := st.Addr.(interface{ Name() string })
			if !ok || nm.Name() != "changed" {
				return
			}
			switch st.Addr.(type) {
			case *ssa.FreeVar, *ssa.Alloc:
			default:
				return
			}
			n++
			good := false
			if bv, ok := constBool(st.Val); ok && bv {
				good = true
			} else if fn == loop {
				if _, isAlloc := st.Addr.(*ssa.Alloc); isAlloc {
					if bv, ok := constBool(st.Val); ok && !bv {
						good = true // the declaration at the top of an iteration
					}
				}
			}
			if !good {
				// x || y is a phi [true, y] in the block after a branch on a load of the variable
				if phi, ok := st.Val.(*ssa.Phi); ok {
					hasTrue, onSelf := false, false
					for _, e := range phi.Edges {
						if bv, ok := constBool(e); ok && bv {
							hasTrue = true
						}
					}
					for _, p := range phi.Block().Preds {
						if iff, ok := p.Instrs[len(p.Instrs)-1].(*ssa.If); ok {
							if u, ok := iff.Cond.(*ssa.UnOp); ok && u.Op == token.MUL && u.X == st.Addr {
								onSelf = true
							}
						}
					}
					good = hasTrue && onSelf
				}
			}
			r.check(good, fmt.Sprintf("%s:store #%d into changed keeps an earlier request", relName(rootFn(fn)), n), st.Pos(), fn,
				"true, or changed || …", "the flag is assigned "+describe(st.Val)+": a request made by an earlier action of the same list is overwritten")
		})
	}
	r.floor("stores into the search-request flag", n, 8)
}

// c13r17: `load`, `zero` and `one` mean "the list for the complete input is here". Terminal.UpdateList fires them
// when the reader has finished — but the merger that arrives next may still be the result of a scan over an older
// snapshot (a non-cancelling request does not stop the running scan; Matcher.Loop marks such a result
// final=false, and core.go's --select-1 / --exit-0 look at that mark). The terminal has to look at it as well
// (D102: it did not: `--bind one:accept` accepted `needle A` although the complete input had a second match, and
// `load` saw FZF_MATCH_COUNT 1280840 of a final 2000000).
func c13r17(c *Ctx, r *Report) {
	l := c.L
	r.rule("C13-R17", "A (completion events only for the final result)", "P1",
		"in Terminal.UpdateList, every send of the load, zero or one event is control dependent on the field `final` of the merger being applied",
		"actions bound to load / one / zero run on the filter of a prefix of the input: one:accept accepts although a later line matches as well, load:… sees a partial match count next to the final total")
	fn := l.Fn("fzf", "(*Terminal).UpdateList")
	fFinal := l.Field("fzf", "Merger", "final")
	if fn == nil || fFinal == nil {
		r.unest("anchors", token.NoPos, nil, "anchors Terminal.UpdateList / Merger.final", "cannot resolve")
		return
	}
	want := map[int64]string{}
	for _, nm := range []string{"Load", "Zero", "One"} {
		if k := l.Const("tui", nm); k != nil {
			if v, ok := constantInt64(k); ok {
				want[v] = strings.ToLower(nm)
			}
		}
	}
	if len(want) != 3 {
		r.unest("anchors", token.NoPos, nil, "anchors tui.Load / tui.Zero / tui.One", "cannot resolve")
		return
	}
	cc := cdCache{}
	n := 0
	eachInstr(fn, func(in ssa.Instruction) {
		snd, ok := in.(*ssa.Send)
		if !ok {
			return
		}
		name := ""
		for v := range backwardSlice(snd.X, func(*ssa.CallCommon) bool { return true }, nil) {
			if k, ok := constIntVal(v); ok {
				if nm, found := want[k]; found {
					if _, isEv := v.Type().(*types.Named); isEv {
						name = nm
					}
				}
			}
		}
		if name == "" {
			return
		}
		n++
		onFinal := false
		for cond := range cc.of(snd) {
			for v := range backwardSlice(cond, nil, nil) {
				if f, _ := loadedField(v); f == fFinal {
					onFinal = true
				}
			}
		}
		r.check(onFinal, fmt.Sprintf("%s:the %s event is sent for a final result only", relName(fn), name), snd.Pos(), fn,
			"under merger.final", "the "+name+" event is sent for whatever merger arrives first after the input has ended, also for the result of a scan over an older snapshot")
	})
	r.floor("sends of load / zero / one in UpdateList", n, 3)
}

// c08r28: while the search is disabled the coordinator keeps the query that was last searched; it forgets it
// when the input is replaced (a reload: the major revision changes), not when --tail trims the list (a minor
// bump). The two places of Run that take a new snapshot have to agree on that (D103: the EvtSearchNew branch
// compared the revisions with != where the EvtReadNew branch asks compatible(): whether the kept filter survived
// depended on whether some request happened to take the snapshot in which a trim occurred — 25 or 50 lines for
// the same final state).
func c08r28(c *Ctx, r *Report) {
	l := c.L
	r.rule("C08-R28", "E (sibling sites: when the kept query is forgotten)", "P1",
		"in the event loop of Run, every store of an empty slice into the coordinator's `query` variable is control dependent on a call of revision.compatible",
		"with the search disabled, the list shown after loading depends on the timing of unrelated requests relative to --tail trims, not on the final state")
	run := l.Fn("fzf", "Run")
	comp := l.Fn("fzf", "revision.compatible")
	if run == nil || comp == nil {
		r.unest("anchors", token.NoPos, nil, "anchors Run / revision.compatible", "cannot resolve")
		return
	}
	cc := cdCache{}
	n := 0
	for _, fn := range withClosures(run) {
		eachInstr(fn, func(in ssa.Instruction) {
			st, ok := in.(*ssa.Store)
			if !ok || !inLoop(st.Block()) {
				return
			}
			nm, ok := st.Addr.(interface{ Name() string })
			if !ok || nm.Name() != "query" {
				return
			}
			switch st.Addr.(type) {
			case *ssa.FreeVar, *ssa.Alloc:
			default:
				return
			}
			// an empty literal: slice of a fresh zero-length array
			sl, ok := st.Val.(*ssa.Slice)
			if !ok {
				return
			}
			al, ok := sl.X.(*ssa.Alloc)
			if !ok {
				return
			}
			if at, ok := deref(al.Type()).Underlying().(*types.Array); !ok || at.Len() != 0 {
				return
			}
			n++
			good := false
			for cond := range cc.of(st) {
				for v := range backwardSlice(cond, nil, nil) {
					if call, ok := v.(*ssa.Call); ok && call.Common().StaticCallee() == comp {
						good = true
					}
				}
			}
			r.check(good, fmt.Sprintf("%s:reset #%d of the kept query happens on a reload only", relName(run), n), st.Pos(), fn,
				"under !compatible(...)", "the kept query is forgotten under a condition that does not ask revision.compatible: a --tail trim (minor bump) forgets it as well")
		})
	}
	r.floor("resets of the coordinator's kept query in the event loop", n, 2)
}

// c08r29: at the end of an iteration Terminal.Loop posts a search request when `changed` is set, and a changed
// query sets it through the comparison of the input with its value at the start of the iteration. Every action
// list run in the iteration — also the ones bound to events (jump, jump-cancel, backward-eof) — has to be
// followed by that comparison before the flag is read (D104: the comparison was made once, in the middle of the
// key branch: `jump:change-query(foo)` or `backward-eof:change-query(foo)` changed the prompt and left the list of
// the old query on display).
func c08r29(c *Ctx, r *Report) {
	l := c.L
	r.rule("C08-R29", "A (must-pass-through: the query comparison follows every action list)", "P1",
		"in Terminal.Loop, every path from a call of doActions / doAction to the read of `changed` that decides whether a search request is posted passes an update of queryChanged computed from the comparison of the input with previousInput",
		"a query changed by an action bound to the jump, jump-cancel or backward-eof event is shown in the prompt but not searched: the list is that of the old query")
	loop := l.Fn("fzf", "(*Terminal).Loop")
	if loop == nil {
		r.unest("anchors", token.NoPos, nil, "anchor Terminal.Loop", "cannot resolve")
		return
	}
	cellNamed := func(v ssa.Value, name string) bool {
		u, ok := v.(*ssa.UnOp)
		if !ok || u.Op != token.MUL {
			return false
		}
		if _, isAlloc := u.X.(*ssa.Alloc); !isAlloc {
			return false
		}
		return u.X.(*ssa.Alloc).Comment == name
	}
	// the comparison
	isCmp := func(in ssa.Instruction) bool {
		bo, ok := in.(*ssa.BinOp)
		if !ok || (bo.Op != token.NEQ && bo.Op != token.EQL) {
			return false
		}
		// string(previousInput) != string(t.input): previousInput is the copy of the input taken at the start
		// of the iteration (a call of copySlice), the other side a load of Terminal.input
		copySide, inputSide := false, false
		for _, side := range []ssa.Value{bo.X, bo.Y} {
			cv, ok := side.(*ssa.Convert)
			if !ok {
				continue
			}
			if call, ok := cv.X.(*ssa.Call); ok && call.Common().StaticCallee() != nil && call.Common().StaticCallee().Name() == "copySlice" {
				copySide = true
			}
			if f, _ := loadedField(cv.X); f != nil && f.Name() == "input" {
				inputSide = true
			}
		}
		return copySide && inputSide
	}
	// the update `queryChanged = queryChanged || … previousInput != input`: a store into the flag whose value is
	// computed from the comparison (the comparison itself is skipped by the short circuit when the flag is set)
	isUpdate := func(in ssa.Instruction) bool {
		st, ok := in.(*ssa.Store)
		if !ok {
			return false
		}
		al, ok := st.Addr.(*ssa.Alloc)
		if !ok || al.Comment != "queryChanged" {
			return false
		}
		for v := range backwardSlice(st.Val, nil, nil) {
			if vi, ok := v.(ssa.Instruction); ok && isCmp(vi) {
				return true
			}
		}
		return false
	}
	// the deciding read: the last load of `changed` in the function (the one that feeds `reload`)
	var reads []ssa.Instruction
	eachInstr(loop, func(in ssa.Instruction) {
		if u, ok := in.(*ssa.UnOp); ok && cellNamed(u, "changed") {
			reads = append(reads, u)
		}
	})
	if len(reads) == 0 {
		r.unest(relName(loop)+":read of changed", loop.Pos(), loop, "the read of `changed` at the end of the iteration", "not found")
		return
	}
	sort.Slice(reads, func(i, j int) bool { return reads[i].Pos() < reads[j].Pos() })
	final := reads[len(reads)-1]
	n := 0
	eachInstr(loop, func(in ssa.Instruction) {
		call, ok := in.(*ssa.Call)
		if !ok {
			return
		}
		if !cellNamed(call.Call.Value, "doActions") && !cellNamed(call.Call.Value, "doAction") {
			return
		}
		n++
		hit := pathAvoiding(call, func(x ssa.Instruction) bool { return x == final }, isUpdate,
			func(from, to *ssa.BasicBlock) bool { return !to.Dominates(from) })
		r.check(hit == nil, fmt.Sprintf("%s:action list #%d is followed by the query comparison", relName(loop), n), call.Pos(), loop,
			"input compared with previousInput before `changed` is read", "a path from this action list reaches the decision about the search request without comparing the input with previousInput")
	})
	r.floor("action lists dispatched by Terminal.Loop", n, 5)
}

// c15r26: the number of rows an item occupies under --wrap depends on the width left after pointer and marker
// (wrapCols), and Terminal.numLinesCache remembers it per item. Whoever changes that width empties the cache
// (toggle-wrap, toggle-multi-line and a resize do) (D105: change-pointer to another width did not: the next
// repaint placed every following item by the stale count — rows overlapped and the first row of the current item
// disappeared).
func c15r26(c *Ctx, r *Report) {
	l := c.L
	r.rule("C15-R26", "A (a new pointer width empties the line-count cache)", "P1",
		"in Terminal.Loop and its closures, every store into Terminal.pointerLen is accompanied by a call of Terminal.clearNumLinesCache: on every path from the store to a return, or in front of it under a comparison of the new width with Terminal.pointerLen",
		"under --wrap, after change-pointer to another width the list is painted with the row counts of the old width: rows overlap or stay blank")
	loop := l.Fn("fzf", "(*Terminal).Loop")
	clr := l.Fn("fzf", "(*Terminal).clearNumLinesCache")
	fP := l.Field("fzf", "Terminal", "pointerLen")
	if loop == nil || clr == nil || fP == nil {
		r.unest("anchors", token.NoPos, nil, "anchors Terminal.Loop / clearNumLinesCache / pointerLen", "cannot resolve")
		return
	}
	isClr := func(in ssa.Instruction) bool { return staticCallee(in) == clr }
	n := 0
	cc := cdCache{}
	for _, fn := range withClosures(loop) {
		eachInstr(fn, func(in ssa.Instruction) {
			st, ok := in.(*ssa.Store)
			if !ok {
				return
			}
			if f, _ := fieldOf(st.Addr); f != fP {
				return
			}
			n++
			// the cache may be emptied in front of the store, under the test that the width really changes (a
			// comparison with the current Terminal.pointerLen), as forceRerenderList is
			before := false
			eachInstr(fn, func(in2 ssa.Instruction) {
				if !isClr(in2) || !canReach(in2, st) {
					return
				}
				for cond := range cc.of(in2) {
					bo, ok := cond.(*ssa.BinOp)
					if !ok || (bo.Op != token.NEQ && bo.Op != token.EQL) {
						continue
					}
					for _, side := range []ssa.Value{bo.X, bo.Y} {
						if f, _ := loadedField(side); f == fP {
							before = true
						}
					}
				}
			})
			hit := pathAvoiding(st, isReturn, isClr, nil)
			r.check(before || hit == nil, fmt.Sprintf("%s:change #%d of the pointer width empties the line-count cache", relName(rootFn(fn)), n), st.Pos(), fn,
				"clearNumLinesCache accompanies the store", "the pointer width changes and the handler returns with the cached row counts of the old width")
		})
	}
	r.floor("stores into Terminal.pointerLen in Terminal.Loop", n, 1)
}

// c15r27: header lines are drawn by the same routine as the items (printHighlighted), so their rendition depends
// on Terminal.wrap, Terminal.multiLine and Terminal.hscroll too. toggle-wrap asks for the header to be redrawn;
// its siblings have to as well (D106: toggle-multi-line and toggle-hscroll requested reqList only: a long header
// line stayed cut at the other end, a header record with an embedded newline stayed in its old form).
func c15r27(c *Ctx, r *Report) {
	l := c.L
	r.rule("C15-R27", "E (sibling handlers: a rendering mode change redraws the header)", "P1",
		"in Terminal.Loop and its closures, every path from a store into Terminal.wrap, Terminal.multiLine or Terminal.hscroll to a return passes a req(...) call that includes reqHeader (or reqFullRedraw)",
		"after toggle-hscroll / toggle-multi-line the header rows keep the rendition of the previous mode: they are not what a redraw in the current state shows")
	loop := l.Fn("fzf", "(*Terminal).Loop")
	kH := l.Const("fzf", "reqHeader")
	kF := l.Const("fzf", "reqFullRedraw")
	fields := map[*types.Var]bool{}
	for _, nm := range []string{"wrap", "multiLine", "hscroll"} {
		if f := l.Field("fzf", "Terminal", nm); f != nil {
			fields[f] = true
		}
	}
	if loop == nil || kH == nil || kF == nil || len(fields) != 3 {
		r.unest("anchors", token.NoPos, nil, "anchors Terminal.Loop / reqHeader / reqFullRedraw / wrap / multiLine / hscroll", "cannot resolve")
		return
	}
	vh, _ := constantInt64(kH)
	vf, _ := constantInt64(kF)
	isReq := func(in ssa.Instruction) bool { return requestsEvent(in, vh) || requestsEvent(in, vf) }
	n := 0
	for _, fn := range withClosures(loop) {
		eachInstr(fn, func(in ssa.Instruction) {
			st, ok := in.(*ssa.Store)
			if !ok {
				return
			}
			f, _ := fieldOf(st.Addr)
			if f == nil || !fields[f] {
				return
			}
			n++
			hit := pathAvoiding(st, isReturn, isReq, nil)
			r.check(hit == nil, fmt.Sprintf("%s:change of Terminal.%s redraws the header", relName(rootFn(fn)), f.Name()), st.Pos(), fn,
				"req(..., reqHeader) follows", "Terminal."+f.Name()+" changes and the handler returns without requesting the header to be redrawn")
		})
	}
	r.floor("stores into Terminal.wrap / multiLine / hscroll in Terminal.Loop", n, 3)
}

// c14r22: what fzf writes to the terminal is text plus the control sequences fzf itself composes.
// LightRenderer.stderrInternal filters the text rune by rune: C0 controls are dropped — and so have to be the C1
// controls U+0080..U+009F, which xterm-like terminals execute in UTF-8 mode (U+009B is CSI, U+009D OSC): a line or
// file name containing U+009B ?1049l leaves the alternate screen under fzf, U+009B ?1000h switches on a mode fzf
// never switches off (D107: they passed the filter `r >= 32`).
func c14r22(c *Ctx, r *Report) {
	l := c.L
	r.rule("C14-R22", "C (no C1 control reaches the terminal)", "P1",
		"in LightRenderer.stderrInternal, the block that appends the decoded rune to the output is reached only on paths whose conditions place the rune outside U+0080..U+009F",
		"input text can switch terminal modes or leave the alternate screen behind fzf's back: the terminal is not in the state fzf restores on exit")
	fn := l.Fn("tui", "(*LightRenderer).stderrInternal")
	if fn == nil {
		r.unest("anchors", token.NoPos, nil, "anchor LightRenderer.stderrInternal", "cannot resolve")
		return
	}
	pc := pathConds(fn)
	n := 0
	eachInstr(fn, func(in ssa.Instruction) {
		st, ok := in.(*ssa.Store)
		if !ok {
			return
		}
		ex, ok := st.Val.(*ssa.Extract)
		if !ok || ex.Index != 0 {
			return
		}
		call, ok := ex.Tuple.(*ssa.Call)
		if !ok || calleeName(call.Common()) != "unicode/utf8.DecodeRune" {
			return
		}
		n++
		excluded, reach := pc.Implies(st.Block(), func(lits []Lit) bool {
			for _, lt := range lits {
				bo, ok := lt.Atom.(*ssa.BinOp)
				if !ok || bo.X != ssa.Value(ex) {
					continue
				}
				k, isK := constIntVal(bo.Y)
				if !isK {
					continue
				}
				lo, hi := int64(-1<<62), int64(1<<62)
				switch bo.Op {
				case token.LSS:
					if lt.Val {
						hi = k - 1
					} else {
						lo = k
					}
				case token.LEQ:
					if lt.Val {
						hi = k
					} else {
						lo = k + 1
					}
				case token.GTR:
					if lt.Val {
						lo = k + 1
					} else {
						hi = k
					}
				case token.GEQ:
					if lt.Val {
						lo = k
					} else {
						hi = k - 1
					}
				case token.EQL:
					if lt.Val {
						lo, hi = k, k
					}
				}
				if hi < 0x80 || lo > 0x9f {
					return true
				}
			}
			return false
		})
		r.check(excluded && reach, fmt.Sprintf("%s:emitted rune #%d is not a C1 control", relName(fn), n), st.Pos(), fn,
			"every path excludes U+0080..U+009F", "a rune in U+0080..U+009F reaches the output: terminals that honour C1 controls in UTF-8 mode execute it (U+009B = CSI, U+009D = OSC)")
	})
	r.floor("places where stderrInternal emits the decoded rune", n, 1)
}

func round10(c *Ctx, r *Report, prop string) {
	defer round11(c, r, prop)
	switch prop {
	case "C01":
		c01r15(c, r)
		c08r5(c, r)  // a result for an incompatible revision is never applied to the list that is shown
		c02r14(c, r) // the bonus constants keep their documented order
	case "C03":
		c03r12(c, r)
	case "C04":
		c04r17(c, r)
		c08r5(c, r)
	case "C06":
		c06r14(c, r)
		c06r15(c, r)
		c06r16(c, r)
		c15r25(c, r) // the header rows hold records of the current stream only
	case "C09":
		c09r20(c, r)
		c09r21(c, r)
		c09r22(c, r)
		c09r23(c, r)
		c09r24(c, r)
		c09r25(c, r)
		c18r16(c, r) // the accepted state is the state at the accepting action
	case "C10":
		c10r13(c, r)
		c10r14(c, r)
	case "C11":
		c11r22(c, r)
		c11r23(c, r)
		c11r24(c, r)
		c11r25(c, r)
	case "C16":
		c16r21(c, r)
	case "C07":
		c04r14(c, r) // Merger.Get: the position asked for is the position returned
	case "C08":
		c08r24(c, r)
		c08r25(c, r)
		c08r26(c, r)
		c08r27(c, r)
		c08r28(c, r)
		c08r29(c, r)
		c13r17(c, r) // the events that announce the complete list act on the complete list
	case "C14":
		c14r21(c, r)
		c14r22(c, r)
	case "C15":
		c15r18(c, r)
		c15r19(c, r)
		c15r20(c, r)
		c15r21(c, r)
		c15r22(c, r)
		c15r23(c, r)
		c15r24(c, r)
		c15r25(c, r)
		c15r26(c, r)
		c15r27(c, r)
	case "C17":
		c17r28(c, r)
		c17r29(c, r)
	case "C18":
		c18r16(c, r)
	case "C19":
		c19r16(c, r)
		c19r17(c, r)
	case "C20":
		c20r16(c, r)
		c20r17(c, r)
		c20r18(c, r)
	case "C12":
		c12r15(c, r)
	case "C13":
		c13r17(c, r)
		c06r8(c, r) // the count of items is the same whichever goroutine computes it
	}
}

func constantInt64(k *types.Const) (int64, bool) {
	if k == nil || k.Val() == nil {
		return 0, false
	}
	v, ok := constantToInt64(k.Val())
	return v, ok
}

func constantToInt64(v constant.Value) (int64, bool) {
	if v.Kind() != constant.Int {
		return 0, false
	}
	return constant.Int64Val(v)
}
