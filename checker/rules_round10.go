package main

import (
	"fmt"
	"go/ast"
	"go/token"
	"go/types"
	"os"
	"path/filepath"
	"regexp"
	"sort"
	"strings"

	"golang.org/x/tools/go/ssa"
)

// Round 10: rules written for the round-10 mutants that arrived undetected (the rules for the defects of
// round 10, D76..D83, are in rules_round9.go).

// fzfFuncDecl returns the syntax of a top-level function (or method, "Recv.name") of package fzf.
func fzfFuncDecl(l *Loaded, pkg, name string) *ast.FuncDecl {
	pp := l.ByPath[pkgAlias[pkg]]
	if pp == nil {
		return nil
	}
	recv := ""
	if i := strings.Index(name, "."); i >= 0 {
		recv, name = name[:i], name[i+1:]
	}
	for _, file := range pp.Syntax {
		for _, decl := range file.Decls {
			fd, ok := decl.(*ast.FuncDecl)
			if !ok || fd.Name.Name != name || fd.Body == nil {
				continue
			}
			if recv == "" && fd.Recv == nil {
				return fd
			}
			if recv != "" && fd.Recv != nil && len(fd.Recv.List) == 1 {
				t := fd.Recv.List[0].Type
				if st, ok := t.(*ast.StarExpr); ok {
					t = st.X
				}
				if id, ok := t.(*ast.Ident); ok && id.Name == recv {
					return fd
				}
			}
		}
	}
	return nil
}

// c01r15: an extended query keeps a trailing blank that is escaped ("foo\ " searches for "foo "): BuildPattern
// removes leading blanks with TrimLeft and trailing ones in a loop that stops in front of `\ ` (round-10 mutant
// C01c10 replaced both by strings.Trim: the query `foo\ ` lost its blank and then its backslash matched nothing).
func c01r15(c *Ctx, r *Report) {
	l := c.L
	r.rule("C01-R15", "D (the escaped trailing blank survives)", "P1",
		"in BuildPattern, nothing derived from the query runes is passed to strings.Trim / TrimRight / TrimSpace / TrimSuffix, and every slice expression that shortens the query string from the right is control dependent on a strings.HasSuffix test with the escaped blank `\\ `",
		"an extended query that ends in an escaped blank is cut to a dangling backslash: `foo\\ ` no longer finds the lines containing \"foo \"")
	fn := l.Fn("fzf", "BuildPattern")
	if fn == nil || len(fn.Params) < 1 {
		r.unest("anchors", token.NoPos, nil, "anchor BuildPattern", "cannot resolve")
		return
	}
	var runes ssa.Value
	for _, p := range fn.Params {
		if p.Name() == "runes" {
			runes = p
		}
	}
	if runes == nil {
		r.unest("anchors", token.NoPos, fn, "parameter runes of BuildPattern", "cannot resolve")
		return
	}
	derived := forwardDerived(fn, []ssa.Value{runes}, func(cc *ssa.CallCommon) bool { return strings.HasPrefix(calleeName(cc), "strings.") })
	cc := cdCache{}
	trims, cuts := 0, 0
	eachInstr(fn, func(in ssa.Instruction) {
		switch x := in.(type) {
		case *ssa.Call:
			name := calleeName(x.Common())
			switch name {
			case "strings.Trim", "strings.TrimRight", "strings.TrimSpace", "strings.TrimSuffix", "strings.TrimRightFunc", "strings.TrimFunc":
				if len(x.Call.Args) > 0 && derived[x.Call.Args[0]] {
					trims++
					r.bad(fmt.Sprintf("%s:%s on the query", relName(fn), name), x.Pos(), fn, "the query is not trimmed from the right without regard to the escape",
						name+" removes the blank of a trailing `\\ ` as well")
				}
			}
		case *ssa.Slice:
			// s[:len(s)-k] of a string derived from the query
			if !derived[x.X] || x.High == nil {
				return
			}
			if _, isStr := x.X.Type().Underlying().(*types.Basic); !isStr {
				return
			}
			bo, ok := x.High.(*ssa.BinOp)
			if !ok || bo.Op != token.SUB {
				return
			}
			cuts++
			guarded := false
			for cond := range cc.of(x) {
				for v := range backwardSlice(cond, nil, nil) {
					call, ok := v.(*ssa.Call)
					if !ok || calleeName(call.Common()) != "strings.HasSuffix" || len(call.Call.Args) != 2 {
						continue
					}
					if s, ok := constString(call.Call.Args[1]); ok && s == "\\ " {
						guarded = true
					}
				}
			}
			r.check(guarded, fmt.Sprintf("%s:right cut #%d of the query string", relName(fn), cuts), x.Pos(), fn,
				"the cut happens only when the string does not end in an escaped blank", "the string is shortened from the right with no test for the escaped blank `\\ `")
		}
	})
	if trims == 0 {
		r.ok(relName(fn)+":no right trim of the query", fn.Pos(), fn, "no strings.Trim/TrimRight/TrimSpace/TrimSuffix on the query in BuildPattern")
	}
	r.floor("right cuts of the query string in BuildPattern", cuts, 1)
}

// manSchemeTiebreaks reads the --scheme section of the man page: scheme name -> the tiebreak list it is
// documented to set ("This also sets --tiebreak=pathname,length").
func manSchemeTiebreaks(repo string) (map[string][]string, string, error) {
	data, err := os.ReadFile(filepath.Join(repo, "man", "man1", "fzf.1"))
	if err != nil {
		return nil, "", err
	}
	text := string(data)
	start := strings.Index(text, `.BI "\-\-scheme="`)
	if start < 0 {
		return nil, "", fmt.Errorf("no --scheme section in man/man1/fzf.1")
	}
	sec := text[start:]
	if end := strings.Index(sec[1:], "\n.TP"); end >= 0 {
		sec = sec[:end+1]
	}
	res := map[string][]string{}
	reName := regexp.MustCompile(`(?m)^\.B (\w+)\s*$`)
	reTie := regexp.MustCompile(`\\-\\-tiebreak=([a-z,]+)`)
	idx := reName.FindAllStringSubmatchIndex(sec, -1)
	for i, m := range idx {
		name := sec[m[2]:m[3]]
		end := len(sec)
		if i+1 < len(idx) {
			end = idx[i+1][0]
		}
		body := strings.ReplaceAll(sec[m[1]:end], "\n", " ")
		if tm := reTie.FindStringSubmatch(body); tm != nil {
			res[name] = strings.Split(tm[1], ",")
		} else {
			res[name] = nil
		}
	}
	// documented default of --tiebreak
	def := ""
	if i := strings.Index(text, `.BI "\-\-tiebreak="`); i >= 0 {
		s := text[i:]
		if e := strings.Index(s[1:], "\n.SS"); e >= 0 {
			s = s[:e+1]
		}
		if m := regexp.MustCompile(`Default is \\fB([a-z,]+)\\fR`).FindStringSubmatch(s); m != nil {
			def = m[1]
		}
	}
	return res, def, nil
}

// c04r17: --scheme=NAME sets the tie-break criteria the manual documents for NAME, in the documented order
// (round-10 mutant C04c10 returned {byScore, byLength, byPathname} for "path": equal scores were ranked by
// length first and the file-name criterion only broke the remaining ties).
func c04r17(c *Ctx, r *Report) {
	l := c.L
	r.rule("C04-R17", "E (parseScheme <-> man page)", "P1",
		"for every scheme named in the --scheme section of man/man1/fzf.1, the criteria list parseScheme returns for that name is byScore followed by the constants by<Name> of the --tiebreak list the section documents (index is the implicit last criterion), in that order; a scheme documented without a list gets the documented --tiebreak default",
		"--scheme=path (the default on a terminal) ranks equal scores by another order of criteria than documented")
	fd := fzfFuncDecl(l, "fzf", "parseScheme")
	if fd == nil {
		r.unest("anchors", token.NoPos, nil, "syntax of parseScheme", "cannot resolve")
		return
	}
	doc, def, err := manSchemeTiebreaks(c.Repo)
	if err != nil {
		r.unest("anchors", token.NoPos, nil, "the --scheme section of the man page", err.Error())
		return
	}
	got := map[string][]string{}
	pos := map[string]token.Pos{}
	ast.Inspect(fd.Body, func(nd ast.Node) bool {
		cc, ok := nd.(*ast.CaseClause)
		if !ok {
			return true
		}
		for _, e := range cc.List {
			lit, ok := e.(*ast.BasicLit)
			if !ok || lit.Kind != token.STRING {
				continue
			}
			name := strings.Trim(lit.Value, "\"`")
			for _, st := range cc.Body {
				ret, ok := st.(*ast.ReturnStmt)
				if !ok || len(ret.Results) < 2 {
					continue
				}
				cl, ok := ret.Results[1].(*ast.CompositeLit)
				if !ok {
					continue
				}
				var ids []string
				for _, el := range cl.Elts {
					if id, ok := el.(*ast.Ident); ok {
						ids = append(ids, id.Name)
					} else {
						ids = append(ids, "?")
					}
				}
				got[name] = ids
				pos[name] = ret.Pos()
			}
		}
		return true
	})
	fn := l.Fn("fzf", "parseScheme")
	names := make([]string, 0, len(doc))
	for n := range doc {
		names = append(names, n)
	}
	sort.Strings(names)
	n := 0
	for _, name := range names {
		list := doc[name]
		if list == nil && def != "" {
			list = strings.Split(def, ",")
		}
		want := []string{"byScore"}
		for _, t := range list {
			if t == "index" {
				continue
			}
			want = append(want, "by"+strings.ToUpper(t[:1])+t[1:])
		}
		g, found := got[name]
		key := "fzf.parseScheme:criteria of scheme " + name
		if !found {
			r.bad(key, fd.Pos(), fn, "the documented scheme has a case in parseScheme", "no case clause returns a criteria list for the documented scheme \""+name+"\"")
			continue
		}
		n++
		r.check(strings.Join(g, ",") == strings.Join(want, ","), key, pos[name], fn,
			"the criteria are "+strings.Join(want, ", ")+" as documented",
			"parseScheme returns "+strings.Join(g, ", ")+" but the manual documents "+strings.Join(want, ", "))
	}
	r.floor("documented schemes compared with parseScheme", n, 3)
}

// c06r14: the matcher cuts the chunk list into slices, in input order, and searches them concurrently. The
// partial result of slice i has to end up at position i of the lists handed to NewMerger — with --no-sort the
// merger concatenates them (round-10 mutant C06a10 appended the partial results in the order the workers
// finished: unsorted output came out with whole blocks of lines swapped).
func c06r14(c *Ctx, r *Report) {
	l := c.L
	r.rule("C06-R14", "D (slot of a partial result = ordinal of its slice)", "P1",
		"in Matcher.scan, the lists handed to NewMerger are a slice made with one slot per chunk slice, and every store into it puts the `matches` of a received partialResult at the position given by the `index` of the same partialResult",
		"partial results are merged in completion order: with --no-sort (and for equal ranks) lines come out in an order that is not the input order")
	fn := l.Fn("fzf", "(*Matcher).scan")
	nm := l.Fn("fzf", "NewMerger")
	fIdx := l.Field("fzf", "partialResult", "index")
	fM := l.Field("fzf", "partialResult", "matches")
	if fn == nil || nm == nil || fIdx == nil || fM == nil {
		r.unest("anchors", token.NoPos, nil, "anchors Matcher.scan / NewMerger / partialResult.index / matches", "cannot resolve")
		return
	}
	n, stores := 0, 0
	eachInstr(fn, func(in ssa.Instruction) {
		call, ok := in.(*ssa.Call)
		if !ok || call.Common().StaticCallee() != nm || len(call.Call.Args) < 2 {
			return
		}
		// the final call (the one fed by the workers) is the one whose lists are not a constant nil
		lists := stripConv(call.Call.Args[1])
		if k, ok := lists.(*ssa.Const); ok && k.Value == nil {
			return
		}
		n++
		_, isMake := lists.(*ssa.MakeSlice)
		r.check(isMake, fmt.Sprintf("%s:lists of NewMerger call #%d", relName(fn), n), call.Pos(), fn,
			"the lists are a slice with one slot per chunk slice", "the lists handed to NewMerger are "+describe(lists)+", not a slice made with one slot per chunk slice: the position of a partial result is not tied to its slice")
		eachInstr(fn, func(in2 ssa.Instruction) {
			st, ok := in2.(*ssa.Store)
			if !ok {
				return
			}
			ia, ok := st.Addr.(*ssa.IndexAddr)
			if !ok || stripConv(ia.X) != lists {
				return
			}
			stores++
			fi, ri := loadedField(ia.Index)
			fv, rv := loadedField(st.Val)
			good := fi == fIdx && fv == fM && ri != nil && ri == rv
			r.check(good, fmt.Sprintf("%s:store #%d into the lists", relName(fn), stores), st.Pos(), fn,
				"slot = index of the partial result stored", "the slot is "+describe(ia.Index)+" and the value "+describe(st.Val)+": not the matches of a partial result at its own index")
		})
	})
	r.floor("NewMerger calls fed by the workers in Matcher.scan", n, 1)
	r.floor("stores into the lists", stores, 1)
}

// c06r15: EventBox.WaitFor looks at the pending events without consuming them: the events it is not waiting
// for are for the caller's main loop (round-10 mutant C06b10 cleared the box inside WaitFor "to avoid
// spinning": in --filter mode EvtReadNew/EvtHeader that arrived before EvtReadFin were lost).
func c06r15(c *Ctx, r *Report) {
	l := c.L
	r.rule("C06-R15", "B (WaitFor is read-only on the box)", "P1",
		"EventBox.WaitFor and its callback neither call Events.Clear nor delete from / store into the events map",
		"events posted while a goroutine waits for another one are dropped: the reader's notifications (new lines, header) are lost")
	fn := l.Fn("util", "(*EventBox).WaitFor")
	clr := l.Fn("util", "(*Events).Clear")
	if fn == nil || clr == nil {
		r.unest("anchors", token.NoPos, nil, "anchors EventBox.WaitFor / Events.Clear", "cannot resolve")
		return
	}
	bad := 0
	for _, f := range withClosures(fn) {
		eachInstr(f, func(in ssa.Instruction) {
			switch x := in.(type) {
			case *ssa.Call:
				if x.Common().StaticCallee() == clr {
					bad++
					r.bad(relName(fn)+":Events.Clear", x.Pos(), f, "WaitFor leaves the pending events alone", "the callback of WaitFor clears the event box: events meant for the main loop are lost")
				}
				if b, ok := x.Call.Value.(*ssa.Builtin); ok && b.Name() == "delete" {
					bad++
					r.bad(relName(fn)+":delete", x.Pos(), f, "WaitFor leaves the pending events alone", "the callback of WaitFor deletes pending events")
				}
			case *ssa.MapUpdate:
				bad++
				r.bad(relName(fn)+":map update", x.Pos(), f, "WaitFor leaves the pending events alone", "the callback of WaitFor changes the pending events")
			}
		})
	}
	if bad == 0 {
		r.ok(relName(fn)+":read-only", fn.Pos(), fn, "WaitFor and its callback do not modify the pending events")
	}
	// positive control: the consumers that do clear the box
	n := 0
	for _, f := range l.funcs {
		eachInstr(f, func(in ssa.Instruction) {
			if staticCallee(in) == clr {
				n++
			}
		})
	}
	r.floor("calls of Events.Clear in the program (control: the callee resolves)", n, 2)
}

// optsFieldsOfClause: the Options fields a case clause of parseOptions assigns (opts.F = ..., opts.F.G = ...,
// &opts.F passed to a helper).
func optsFieldsOfClause(cc *ast.CaseClause) map[string]bool {
	res := map[string]bool{}
	var root func(e ast.Expr) string
	root = func(e ast.Expr) string {
		switch x := e.(type) {
		case *ast.SelectorExpr:
			if id, ok := x.X.(*ast.Ident); ok && id.Name == "opts" {
				return x.Sel.Name
			}
			return root(x.X)
		case *ast.IndexExpr:
			return root(x.X)
		case *ast.StarExpr:
			return root(x.X)
		case *ast.ParenExpr:
			return root(x.X)
		}
		return ""
	}
	for _, st := range cc.Body {
		ast.Inspect(st, func(nd ast.Node) bool {
			switch x := nd.(type) {
			case *ast.AssignStmt:
				for _, lhs := range x.Lhs {
					if f := root(lhs); f != "" {
						res[f] = true
					}
				}
			case *ast.IncDecStmt:
				if f := root(x.X); f != "" {
					res[f] = true
				}
			case *ast.UnaryExpr:
				if x.Op == token.AND {
					if f := root(x.X); f != "" {
						res[f] = true
					}
				}
			}
			return true
		})
	}
	return res
}

// c06r16: `--no-X` undoes `--X`: the two case clauses of parseOptions assign a common Options field (round-10
// mutant C06c10 made --no-tail reset opts.Tac: `--tail 5 --no-tail` kept only five lines and `--tac --no-tail`
// lost the reversal).
func c06r16(c *Ctx, r *Report) {
	l := c.L
	r.rule("C06-R16", "E (sibling clauses: --X and --no-X)", "P1",
		"in parseOptions, whenever a case clause for \"--no-X\" assigns fields of Options and a sibling clause for \"--X\" does too, the two sets of assigned fields have a field in common",
		"a negated option resets another option than the one it names: --no-tail leaves the tail limit in force (and drops --tac)")
	fd := fzfFuncDecl(l, "fzf", "parseOptions")
	fn := l.Fn("fzf", "parseOptions")
	if fd == nil {
		r.unest("anchors", token.NoPos, nil, "syntax of parseOptions", "cannot resolve")
		return
	}
	clauses := map[string]*ast.CaseClause{}
	ast.Inspect(fd.Body, func(nd ast.Node) bool {
		cc, ok := nd.(*ast.CaseClause)
		if !ok {
			return true
		}
		for _, e := range cc.List {
			if lit, ok := e.(*ast.BasicLit); ok && lit.Kind == token.STRING {
				name := strings.Trim(lit.Value, "\"`")
				if strings.HasPrefix(name, "--") {
					if _, dup := clauses[name]; !dup {
						clauses[name] = cc
					}
				}
			}
		}
		return true
	})
	var names []string
	for n := range clauses {
		names = append(names, n)
	}
	sort.Strings(names)
	n := 0
	for _, name := range names {
		if !strings.HasPrefix(name, "--no-") {
			continue
		}
		pos, ok := clauses["--"+name[5:]]
		if !ok || pos == clauses[name] {
			continue
		}
		a, b := optsFieldsOfClause(clauses[name]), optsFieldsOfClause(pos)
		if len(a) == 0 || len(b) == 0 {
			continue
		}
		n++
		common := false
		for f := range a {
			if b[f] {
				common = true
			}
		}
		keys := func(m map[string]bool) string {
			var s []string
			for k := range m {
				s = append(s, k)
			}
			sort.Strings(s)
			return strings.Join(s, ",")
		}
		r.check(common, "fzf.parseOptions:"+name+" resets what --"+name[5:]+" sets", clauses[name].Pos(), fn,
			"both clauses assign opts."+keys(a), name+" assigns opts."+keys(a)+" but --"+name[5:]+" assigns opts."+keys(b)+": the negation does not touch what the option set")
	}
	r.floor("--no-X / --X clause pairs in parseOptions", n, 30)
}

// c09r20: History.override records the text shown for a past entry whatever the text is (round-10 mutant
// C09a10 skipped the store when the text equalled the line in the file: an entry edited and then edited back
// kept showing the first edit).
func c09r20(c *Ctx, r *Report) {
	l := c.L
	r.rule("C09-R20", "D (what is recorded does not depend on the text)", "P1",
		"in History.override, the conditions under which the text is stored into History.lines / History.modified are computed from the cursor and the number of lines only, never from the text",
		"an edit of a recalled history entry is not recorded when it restores the original text: going back to the entry shows the earlier edit")
	fn := l.Fn("fzf", "(*History).override")
	if fn == nil || len(fn.Params) < 2 {
		r.unest("anchors", token.NoPos, nil, "anchor History.override", "cannot resolve")
		return
	}
	str := fn.Params[1]
	cc := cdCache{}
	n := 0
	eachInstr(fn, func(in ssa.Instruction) {
		var val ssa.Value
		switch x := in.(type) {
		case *ssa.Store:
			val = x.Val
		case *ssa.MapUpdate:
			val = x.Value
		default:
			return
		}
		if val != ssa.Value(str) {
			return
		}
		n++
		dep := false
		for cond := range cc.of(in) {
			if backwardSlice(cond, func(*ssa.CallCommon) bool { return true }, nil)[str] {
				dep = true
			}
		}
		r.check(!dep, fmt.Sprintf("%s:store #%d of the text", relName(fn), n), in.Pos(), fn,
			"stored under conditions on the cursor only", "whether the text is recorded depends on the text itself")
	})
	r.floor("stores of the text in History.override", n, 2)
}

// c09r21: the merger of an empty query (PassMerger) translates a position into an item through the index of
// the first item of the first chunk; that index is non-zero after --tail has dropped chunks, whether the first
// chunk is full or not (round-10 mutant C09b10 took it only for a partial first chunk: with --tail and exactly
// full chunks the cursor designated another line than the one accepted).
func c09r21(c *Ctx, r *Report) {
	l := c.L
	r.rule("C09-R21", "D (minIndex whenever a chunk exists)", "P1",
		"in PassMerger, the index of the first item is read under no other condition than the chunk list being non-empty",
		"with --tail, an unfiltered list whose first chunk is full maps positions to the wrong items: the line under the cursor is not the line that is accepted or previewed")
	fn := l.Fn("fzf", "PassMerger")
	idx := l.Fn("fzf", "(*Item).Index")
	fMin := l.Field("fzf", "Merger", "minIndex")
	if fn == nil || idx == nil || fMin == nil {
		r.unest("anchors", token.NoPos, nil, "anchors PassMerger / Item.Index / Merger.minIndex", "cannot resolve")
		return
	}
	cc := cdCache{}
	n := 0
	eachInstr(fn, func(in ssa.Instruction) {
		st, ok := in.(*ssa.Store)
		if !ok {
			return
		}
		if f, _ := fieldOf(st.Addr); f != fMin {
			return
		}
		for v := range backwardSlice(st.Val, nil, nil) {
			call, ok := v.(*ssa.Call)
			if !ok || call.Common().StaticCallee() != idx {
				continue
			}
			n++
			good := true
			why := ""
			for cond := range cc.of(call) {
				b, ok := cond.(*ssa.BinOp)
				isLen := false
				if ok {
					if lc, ok := b.X.(*ssa.Call); ok {
						if bi, ok := lc.Call.Value.(*ssa.Builtin); ok && bi.Name() == "len" {
							isLen = true
						}
					}
				}
				if !isLen || !isConstInt(b.Y, 0) {
					good = false
					why = describe(cond)
				}
			}
			r.check(good, fmt.Sprintf("%s:minIndex read #%d", relName(fn), n), call.Pos(), fn,
				"read whenever the list has a chunk", "the index of the first item is read only under "+why+": a list that starts at a non-zero index is treated as starting at 0")
		}
	})
	r.floor("reads of the first item's index for Merger.minIndex", n, 1)
}

// c09r22: with --no-input the query cannot be edited: after every action the input is put back and the cursor
// is placed at its end (round-10 mutant C09c10 kept the cursor where the discarded edit had left it).
func c09r22(c *Ctx, r *Report) {
	l := c.L
	r.rule("C09-R22", "D (cursor at the end of the restored input)", "P1",
		"wherever Terminal.input is assigned under the condition Terminal.inputless, the same block assigns Terminal.cx the length of the input",
		"with --no-input, an action that moved the cursor leaves it inside the query: the next change-query/put edits the query at a position the user cannot see or change")
	fIn := l.Field("fzf", "Terminal", "input")
	fCx := l.Field("fzf", "Terminal", "cx")
	fLess := l.Field("fzf", "Terminal", "inputless")
	if fIn == nil || fCx == nil || fLess == nil {
		r.unest("anchors", token.NoPos, nil, "anchors Terminal.input / cx / inputless", "cannot resolve")
		return
	}
	cc := cdCache{}
	n := 0
	for _, fn := range l.funcs {
		if fn.Pkg == nil || fn.Pkg.Pkg.Path() != pkgAlias["fzf"] {
			continue
		}
		for _, b := range fn.Blocks {
			var stIn *ssa.Store
			for _, in := range b.Instrs {
				if st, ok := in.(*ssa.Store); ok {
					if f, _ := fieldOf(st.Addr); f == fIn {
						stIn = st
					}
				}
			}
			if stIn == nil {
				continue
			}
			under := false
			for cond := range cc.of(stIn) {
				if f, _ := loadedField(cond); f == fLess {
					under = true
				}
			}
			if !under {
				continue
			}
			n++
			good := false
			var at token.Pos = stIn.Pos()
			for _, in := range b.Instrs {
				st, ok := in.(*ssa.Store)
				if !ok {
					continue
				}
				if f, _ := fieldOf(st.Addr); f != fCx {
					continue
				}
				at = st.Pos()
				if call, ok := stripConv(st.Val).(*ssa.Call); ok {
					if bi, ok := call.Call.Value.(*ssa.Builtin); ok && bi.Name() == "len" {
						arg := call.Call.Args[0]
						if f, _ := loadedField(arg); f == fIn || arg == stIn.Val {
							good = true
						}
					}
				}
			}
			r.check(good, fmt.Sprintf("%s:cursor after the input is restored (#%d)", relName(fn), n), at, fn,
				"cx = len(input)", "the input is put back under --no-input but the cursor is not set to its length")
		}
	}
	r.floor("restores of the input under --no-input", n, 1)
}

// c10r13: what fzf prints for an accepted item is produced by the closure that knows --accept-nth, for the
// current item and for every selected one alike (round-10 mutant C10b10 printed the selected items of a
// multi-selection with Item.AsString: --accept-nth was honoured only without TAB selections).
func c10r13(c *Ctx, r *Report) {
	l := c.L
	r.rule("C10-R13", "D (every printed item goes through the accept-nth transform)", "P1",
		"in Terminal.output, every argument of Terminal.printer that is computed from an item is the result of a call of the local closure one of whose definitions calls Item.acceptNth; Item.AsString is not called directly",
		"--accept-nth is ignored for some of the printed lines (the multi-selection): whole lines are printed where fields were asked for")
	fn := l.Fn("fzf", "(*Terminal).output")
	acc := l.Fn("fzf", "(*Item).acceptNth")
	as := l.Fn("fzf", "(*Item).AsString")
	fPr := l.Field("fzf", "Terminal", "printer")
	if fn == nil || acc == nil || as == nil || fPr == nil {
		r.unest("anchors", token.NoPos, nil, "anchors Terminal.output / Item.acceptNth / Item.AsString / Terminal.printer", "cannot resolve")
		return
	}
	callsAcc := func(f *ssa.Function) bool {
		res := false
		eachInstr(f, func(in ssa.Instruction) {
			if staticCallee(in) == acc {
				res = true
			}
		})
		return res
	}
	n := 0
	eachInstr(fn, func(in ssa.Instruction) {
		call, ok := in.(*ssa.Call)
		if !ok || call.Common().IsInvoke() || call.Common().StaticCallee() != nil || len(call.Call.Args) != 1 {
			return
		}
		if f, _ := loadedField(call.Call.Value); f != fPr {
			return
		}
		arg, ok := call.Call.Args[0].(*ssa.Call)
		if !ok {
			return // the query, the key, queued strings
		}
		// is the argument computed from an item?
		fromItem := false
		for _, a := range arg.Call.Args {
			if isPtrToNamed(a.Type(), l.Named("fzf", "Item")) {
				fromItem = true
			}
		}
		if !fromItem {
			return
		}
		n++
		good := false
		if arg.Common().StaticCallee() == nil {
			for v := range backwardSlice(arg.Call.Value, nil, nil) {
				if mc, ok := v.(*ssa.MakeClosure); ok && callsAcc(mc.Fn.(*ssa.Function)) {
					good = true
				}
			}
		}
		r.check(good, fmt.Sprintf("%s:printed item #%d", relName(fn), n), call.Pos(), fn,
			"printed through the accept-nth aware closure", "the line printed for this item is "+describe(arg)+", not the result of the closure that applies --accept-nth")
	})
	r.floor("items printed by Terminal.output", n, 2)
}

// c10r14: a literal --delimiter is a string: the fields end after each occurrence of the whole string, found by
// strings.SplitAfter (round-10 mutant C10c10 added a fast path for one-character delimiters that compared the
// first BYTE: `-d é` split in the middle of every character sharing the lead byte).
func c10r14(c *Ctx, r *Report) {
	l := c.L
	r.rule("C10-R14", "D (a literal delimiter splits by the whole string)", "P1",
		"in Tokenize, every result returned under `delimiter.str != nil` is derived from a call strings.SplitAfter(text, *delimiter.str)",
		"a non-ASCII (or, with another shortcut, multi-character) literal delimiter cuts fields at the wrong places: --nth/--with-nth/--accept-nth see other fields than documented")
	fn := l.Fn("fzf", "Tokenize")
	fStr := l.Field("fzf", "Delimiter", "str")
	if fn == nil || fStr == nil {
		r.unest("anchors", token.NoPos, nil, "anchors Tokenize / Delimiter.str", "cannot resolve")
		return
	}
	var thenBlock *ssa.BasicBlock
	eachInstr(fn, func(in ssa.Instruction) {
		iff, ok := in.(*ssa.If)
		if !ok {
			return
		}
		b, ok := iff.Cond.(*ssa.BinOp)
		if !ok || b.Op != token.NEQ {
			return
		}
		if f, _ := loadedField(b.X); f != fStr {
			return
		}
		if k, ok := b.Y.(*ssa.Const); !ok || k.Value != nil {
			return
		}
		thenBlock = in.Block().Succs[0]
	})
	if thenBlock == nil {
		r.unest("fzf.Tokenize:literal branch", fn.Pos(), fn, "the branch `delimiter.str != nil`", "not found")
		return
	}
	n := 0
	eachInstr(fn, func(in ssa.Instruction) {
		ret, ok := in.(*ssa.Return)
		if !ok || len(ret.Results) == 0 {
			return
		}
		if ret.Block() != thenBlock && !thenBlock.Dominates(ret.Block()) {
			return
		}
		n++
		good := false
		for v := range backwardSlice(ret.Results[0], func(*ssa.CallCommon) bool { return true }, nil) {
			call, ok := v.(*ssa.Call)
			if !ok || calleeName(call.Common()) != "strings.SplitAfter" || len(call.Call.Args) != 2 {
				continue
			}
			sep := call.Call.Args[1]
			if u, ok := sep.(*ssa.UnOp); ok && u.Op == token.MUL {
				if f, _ := loadedField(u.X); f == fStr && call.Call.Args[0] == ssa.Value(fn.Params[0]) {
					good = true
				}
			}
		}
		r.check(good, fmt.Sprintf("%s:return #%d under a literal delimiter", relName(fn), n), ret.Pos(), fn,
			"the tokens are strings.SplitAfter(text, *delimiter.str)", "tokens returned for a literal delimiter are not the result of strings.SplitAfter(text, *delimiter.str)")
	})
	r.floor("returns of Tokenize under a literal delimiter", n, 1)
}

// c11r22: a hyperlink opened while a line is printed is closed before the function returns, whether or not
// text follows the linked part (round-10 mutant C11c10 moved the closing LinkEnd under `index < maxOffset`:
// a line that ends with the link left the link open and everything printed afterwards was part of it).
func c11r22(c *Ctx, r *Report) {
	l := c.L
	r.rule("C11-R22", "A (pairing: LinkEnd after the loop depends on the link state only)", "P1",
		"in every function that calls Window.LinkBegin inside a loop, each call of LinkEnd placed after the loop is control dependent on nothing but nil tests of the link (no length, width or offset comparison)",
		"a line whose last visible character belongs to an OSC 8 hyperlink leaves the link open: the rest of the screen becomes part of the hyperlink")
	n := 0
	cc := cdCache{}
	for _, fn := range l.funcs {
		if fn.Pkg == nil || fn.Pkg.Pkg.Path() != pkgAlias["fzf"] {
			continue
		}
		hasBegin := false
		var ends []*ssa.Call
		eachInstr(fn, func(in ssa.Instruction) {
			call, ok := in.(*ssa.Call)
			if !ok || !call.Common().IsInvoke() {
				return
			}
			switch call.Common().Method.Name() {
			case "LinkBegin":
				if inLoop(call.Block()) {
					hasBegin = true
				}
			case "LinkEnd":
				if !inLoop(call.Block()) {
					ends = append(ends, call)
				}
			}
		})
		if !hasBegin {
			continue
		}
		for i, call := range ends {
			n++
			good := true
			why := ""
			for cond := range cc.of(call) {
				b, ok := cond.(*ssa.BinOp)
				isNil := false
				if ok && (b.Op == token.NEQ || b.Op == token.EQL) {
					if k, ok := b.Y.(*ssa.Const); ok && k.Value == nil {
						if _, ok := b.X.Type().Underlying().(*types.Pointer); ok {
							isNil = true
						}
					}
				}
				if !isNil {
					good = false
					why = describe(cond)
				}
			}
			r.check(good, fmt.Sprintf("%s:LinkEnd #%d after the loop", relName(fn), i+1), call.Pos(), fn,
				"the link is closed whenever one is open", "the closing LinkEnd also depends on "+why+": on the other branch an open link is never closed")
		}
	}
	r.floor("LinkEnd calls after a printing loop", n, 1)
}

func round10(c *Ctx, r *Report, prop string) {
	switch prop {
	case "C01":
		c01r15(c, r)
		c08r5(c, r)  // a result for an incompatible revision is never applied to the list that is shown
		c02r14(c, r) // the bonus constants keep their documented order
	case "C04":
		c04r17(c, r)
		c08r5(c, r)
	case "C06":
		c06r14(c, r)
		c06r15(c, r)
		c06r16(c, r)
	case "C09":
		c09r20(c, r)
		c09r21(c, r)
		c09r22(c, r)
	case "C10":
		c10r13(c, r)
		c10r14(c, r)
	case "C11":
		c11r22(c, r)
	case "C07":
		c04r14(c, r) // Merger.Get: the position asked for is the position returned
	case "C13":
		c06r8(c, r) // the count of items is the same whichever goroutine computes it
	}
}
