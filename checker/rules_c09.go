package main

import (
	"fmt"
	"go/constant"
	"go/token"
	"go/types"
	"sort"

	"golang.org/x/tools/go/ssa"
)

func init() {
	register(&propDef{
		id:  "C09",
		run: runC09,
		explanation: "Structural clauses of query/cursor/selection evolution: (R1) the selection map is inserted into only by selectItem, after the limit test `len(selected) >= multi` failed and the already-selected test failed (so timestamps/order are kept); entries are deleted only by deselectItem; a wholesale replacement is an empty map or a filtered copy of the old one; " +
			"(R2) every actionType constant is a case of the action interpreter's switch (no action silently does nothing) and the count never shrinks; (R3) printList re-constrains cursor/offset before reading any result; (R4) the kill buffer (Terminal.yanked) never shares its backing array with the query buffer while the latter stays in use.",
		notDecided: "the readline semantics of each editing action, cursor arithmetic of vmove/vset/constrain, --cycle, --track, toggle-all ordering under a finite limit",
	})
}

// c09r1: closed, limit- and duplicate-checked writers of the selection (shared with C07: output order = selection order).
func c09r1(c *Ctx, r *Report) {
	l := c.L
	fSel := l.Field("fzf", "Terminal", "selected")
	fMulti := l.Field("fzf", "Terminal", "multi")
	selectItem := l.Fn("fzf", "(*Terminal).selectItem")
	deselectItem := l.Fn("fzf", "(*Terminal).deselectItem")
	// ---------------- R1 ----------------
	r.rule("C09-R1", "B (writer census) + A (path conditions)", "P1",
		"a map update of Terminal.selected exists only in selectItem under !(len(selected) >= multi) and !found; delete(Terminal.selected, _) only in deselectItem; a store of a new map into Terminal.selected is an empty make or a map filled only from a range over the old selection",
		"more than --multi items selected / a re-selected item loses its place in the output order / selection survives when it should not")
	if fSel == nil || fMulti == nil || selectItem == nil || deselectItem == nil {
		r.unest("anchors", token.NoPos, nil, "anchors Terminal.selected / Terminal.multi / selectItem / deselectItem", "cannot resolve")
	} else {
		nU, nD, nS := 0, 0, 0
		for _, f := range l.AllFuncs() {
			var pc *PathConds
			eachInstr(f, func(in ssa.Instruction) {
				switch x := in.(type) {
				case *ssa.MapUpdate:
					if !isLoadOf(x.Map, fSel) {
						return
					}
					nU++
					if f != selectItem {
						r.bad(relName(f)+":insert into selected", in.Pos(), f, "insertion into Terminal.selected outside selectItem", "bypasses the --multi limit check")
						return
					}
					if pc == nil {
						pc = pathConds(f)
					}
					limit, _ := pc.Implies(in.Block(), func(lits []Lit) bool {
						return hasLit(lits, func(a ssa.Value, v bool) bool {
							b, ok := a.(*ssa.BinOp)
							if !ok {
								return false
							}
							lenSel := func(y ssa.Value) bool { return isLenOf(y, func(z ssa.Value) bool { return isLoadOf(z, fSel) }) }
							multi := func(y ssa.Value) bool { return isLoadOf(y, fMulti) }
							// len >= multi false ; len < multi true ; multi <= len false ; multi > len true
							switch {
							case lenSel(b.X) && multi(b.Y):
								return (b.Op == token.GEQ && !v) || (b.Op == token.LSS && v)
							case multi(b.X) && lenSel(b.Y):
								return (b.Op == token.LEQ && !v) || (b.Op == token.GTR && v)
							}
							return false
						})
					})
					r.check(limit, relName(f)+":insert under limit", in.Pos(), f, "insertion happens only when len(selected) < multi", "limit check missing or on the wrong side")
					notFound, _ := pc.Implies(in.Block(), func(lits []Lit) bool {
						return hasLit(lits, func(a ssa.Value, v bool) bool {
							ex, ok := a.(*ssa.Extract)
							if !ok || ex.Index != 1 || v {
								return false
							}
							lk, ok := ex.Tuple.(*ssa.Lookup)
							return ok && isLoadOf(lk.X, fSel)
						})
					})
					r.check(notFound, relName(f)+":insert only when not yet selected", in.Pos(), f, "an already selected item is not inserted again (keeps its selection time)", "re-selecting overwrites the entry: the item moves to the end of the printed selection")
				case *ssa.Call:
					if calleeName(x.Common()) == "builtin.delete" && isLoadOf(x.Call.Args[0], fSel) {
						nD++
						r.check(f == deselectItem, relName(f)+":delete from selected", in.Pos(), f, "entries are removed from Terminal.selected by deselectItem only", "another function deletes selections")
					}
				case *ssa.Store:
					if fld, _ := fieldOf(x.Addr); fld != fSel {
						return
					}
					if al, isAlloc := addrRoot(x.Addr).(*ssa.Alloc); isAlloc && al.Parent() == f {
						return // constructor literal
					}
					nS++
					mm, ok := x.Val.(*ssa.MakeMap)
					if !ok {
						r.bad(relName(f)+":replace selected", in.Pos(), f, "Terminal.selected replaced by a value that is not a fresh map", "")
						return
					}
					// updates of the fresh map must sit inside a range over the old selection with the ranged key/value
					okFill := true
					for _, ref := range *mm.Referrers() {
						mu, ok := ref.(*ssa.MapUpdate)
						if !ok {
							continue
						}
						fromOld := false
						for v := range backwardSlice(mu.Value, nil, nil) {
							if nx, ok := v.(*ssa.Next); ok {
								if rg, ok := nx.Iter.(*ssa.Range); ok && isLoadOf(rg.X, fSel) {
									fromOld = true
								}
							}
						}
						if !fromOld {
							okFill = false
						}
					}
					r.check(okFill, relName(f)+":replace selected", in.Pos(), f, "Terminal.selected is replaced by an empty map or a filtered copy of itself", "the new selection contains items that were not selected")
				}
			})
		}
		r.floor("insertions into Terminal.selected", nU, 1)
		r.floor("deletions from Terminal.selected", nD, 1)
		r.floor("wholesale replacements of Terminal.selected", nS, 4)
	}
}

func runC09(c *Ctx, r *Report) {
	defer round8(c, r, "C09")
	l := c.L
	c09r1(c, r)
	defer c15r7(c, r) // a reload restarts the indices: the selection of the old list must not carry over
	defer c09r7(c, r)
	defer c09r8(c, r)
	defer c09r9(c, r)
	defer c09r10(c, r)
	defer c09r11(c, r)
	defer c09r12(c, r)
	defer c09r13(c, r)
	defer c09r14(c, r)
	defer c14r13(c, r) // cursor arithmetic modulo the list length is guarded against the empty list
	defer c07r6(c, r)  // an action list stops at the action that ends the session

	// ---------------- R2 ----------------
	r.rule("C09-R2", "E (exhaustiveness)", "P1",
		"every constant of type actionType is compared with the action's type in the interpreter closure of Terminal.Loop (a case of its switch); at least 138 action types exist",
		"a bindable action parses fine and then silently does nothing")
	actT := l.Named("fzf", "actionType")
	loop := l.Fn("fzf", "(*Terminal).Loop")
	fActT := l.Field("fzf", "action", "t")
	if actT == nil || loop == nil || fActT == nil {
		r.unest("anchors", token.NoPos, nil, "anchors actionType / Terminal.Loop / action.t", "cannot resolve")
	} else {
		consts := map[int64]string{}
		sc := l.tpkg("fzf").Scope()
		for _, n := range sc.Names() {
			if cn, ok := sc.Lookup(n).(*types.Const); ok && types.Identical(cn.Type(), actT) {
				v, _ := constant.Int64Val(cn.Val())
				consts[v] = n
			}
		}
		r.floor("actionType constants", len(consts), 138)
		// the interpreter: the closure with the most comparisons of a load of action.t
		var interp *ssa.Function
		best := 0
		handled := map[*ssa.Function]map[int64]bool{}
		for _, f := range withClosures(loop) {
			m := map[int64]bool{}
			eachInstr(f, func(in ssa.Instruction) {
				b, ok := in.(*ssa.BinOp)
				if !ok || b.Op != token.EQL {
					return
				}
				x, _, k, ok := cmpInt(b)
				if ok && isLoadOf(x, fActT) {
					m[k] = true
				}
			})
			handled[f] = m
			if len(m) > best {
				best, interp = len(m), f
			}
		}
		if interp == nil {
			r.unest(relName(loop)+":interpreter", token.NoPos, loop, "action interpreter closure", "not found")
		} else {
			var ks []int64
			for k := range consts {
				ks = append(ks, k)
			}
			sort.Slice(ks, func(i, j int) bool { return ks[i] < ks[j] })
			missing := 0
			for _, k := range ks {
				if !handled[interp][k] {
					missing++
					r.bad(relName(interp)+":case "+consts[k], interp.Pos(), interp, "action "+consts[k]+" has a case in the interpreter", "no case: the action is accepted by the parser and ignored")
				}
			}
			if missing == 0 {
				r.ok(relName(interp)+":all cases", interp.Pos(), interp, fmt.Sprintf("all %d actionType constants are cases of the interpreter's switch", len(consts)))
			}
		}
	}

	// ---------------- R3 ----------------
	r.rule("C09-R3", "A (dominance)", "P1",
		"in printList the call of constrain() dominates every Merger.Get",
		"the list is drawn with a cursor/offset pointing outside the current results (index out of range / wrong row highlighted)")
	pl := l.Fn("fzf", "(*Terminal).printList")
	constrain := l.Fn("fzf", "(*Terminal).constrain")
	get := l.Fn("fzf", "(*Merger).Get")
	if pl == nil || constrain == nil || get == nil {
		r.unest("anchors", token.NoPos, nil, "anchors printList / constrain / Merger.Get", "cannot resolve")
	} else {
		var cc ssa.Instruction
		eachInstr(pl, func(in ssa.Instruction) {
			if staticCallee(in) == constrain && cc == nil {
				cc = in
			}
		})
		n := 0
		eachInstr(pl, func(in ssa.Instruction) {
			if staticCallee(in) != get {
				return
			}
			n++
			r.check(cc != nil && dominates(cc, in), relName(pl)+":Get after constrain", in.Pos(), pl, "Merger.Get is dominated by constrain()", "results are read before cursor/offset are clamped")
		})
		r.floor("Merger.Get calls in printList", n, 1)
	}

	// ---------------- R4 ----------------
	r.rule("C09-R4", "F (alias)", "P1",
		"a value stored into Terminal.yanked that shares Terminal.input's backing array (plain load or reslice, no copy) is followed on every path to the function's exit by a store of a non-aliasing value into Terminal.input",
		"later in-place edits of the query overwrite the kill buffer: yank inserts the wrong text")
	fInput := l.Field("fzf", "Terminal", "input")
	fYank := l.Field("fzf", "Terminal", "yanked")
	if fInput == nil || fYank == nil {
		r.unest("anchors", token.NoPos, nil, "anchors Terminal.input / Terminal.yanked", "cannot resolve")
		return
	}
	aliasOfInput := func(v ssa.Value) bool {
		for d := 0; d < 6; d++ {
			if isLoadOf(v, fInput) {
				return true
			}
			switch x := v.(type) {
			case *ssa.Slice:
				v = x.X
			case *ssa.ChangeType:
				v = x.X
			default:
				return false
			}
		}
		return false
	}
	nY := 0
	for _, f := range l.AllFuncs() {
		eachInstr(f, func(in ssa.Instruction) {
			st, ok := in.(*ssa.Store)
			if !ok {
				return
			}
			if fld, _ := fieldOf(st.Addr); fld != fYank {
				return
			}
			nY++
			if !aliasOfInput(st.Val) {
				r.ok(relName(f)+":yanked gets a copy", in.Pos(), f, "kill buffer receives a value that does not alias the query buffer")
				return
			}
			goal := pathAvoiding(st, isReturn, func(i ssa.Instruction) bool {
				s2, ok := i.(*ssa.Store)
				if !ok {
					return false
				}
				fld, _ := fieldOf(s2.Addr)
				return fld == fInput && !aliasOfInput(s2.Val) && !isAppendOnInput(s2.Val, aliasOfInput)
			}, nil)
			r.check(goal == nil, relName(f)+":yanked aliases input", in.Pos(), f, "the query buffer is replaced by a fresh slice after its array was handed to the kill buffer (ownership transfer)", "kill buffer and query buffer keep sharing one array")
		})
	}
	r.floor("stores to Terminal.yanked", nY, 5)
	c09r5(c, r)
	c09r6(c, r)
	c08r10(c, r) // selection is dropped on reload: revision and snapshot must move together
}

func isAppendOnInput(v ssa.Value, alias func(ssa.Value) bool) bool {
	call, ok := v.(*ssa.Call)
	if !ok || calleeName(call.Common()) != "builtin.append" {
		return false
	}
	a0 := call.Call.Args[0]
	if alias(a0) {
		return true
	}
	return isAppendOnInput(a0, alias)
}
