package main

// Rules added after the fifth round of independent mutants. Each states a necessary condition of the
// property without reference to the mutant that prompted it; the variants in selftest/ exercise them.

import (
	"fmt"
	"go/token"
	"go/types"
	"sort"
	"strings"

	"golang.org/x/tools/go/ssa"
)

// c13r9: a changed snapshot gets a new revision at every call site.
func c13r9(c *Ctx, r *Report) {
	l := c.L
	r.rule("C13-R9", "B (result use at every call site)", "P1",
		"in the coordinator every call of ChunkList.Snapshot uses its `changed` result, and the branch taken when it is true bumps the input revision before the snapshot reaches the matcher",
		"with --tail the item count stays constant while the items change: the matcher keeps serving the cached result of an older snapshot")
	snap := l.Fn("fzf", "(*ChunkList).Snapshot")
	run := l.Fn("fzf", "Run")
	bump := l.Fn("fzf", "(*revision).bumpMinor")
	if snap == nil || run == nil || bump == nil {
		r.unest("anchors", token.NoPos, nil, "anchors ChunkList.Snapshot / Run / revision.bumpMinor", "cannot resolve")
		return
	}
	n := 0
	for _, fn := range withClosures(run) {
		pc := pathConds(fn)
		eachInstr(fn, func(in ssa.Instruction) {
			call, ok := in.(*ssa.Call)
			if !ok || !callIs(call.Common(), snap) {
				return
			}
			// only snapshots that go to the matcher loop (Matcher.Reset reachable afterwards)
			toMatcher := false
			if resetFn := l.Fn("fzf", "(*Matcher).Reset"); resetFn != nil {
				eachInstr(fn, func(i2 ssa.Instruction) {
					if c2, ok := i2.(*ssa.Call); ok && callIs(c2.Common(), resetFn) && canReach(in, i2) {
						toMatcher = true
					}
				})
			}
			if !toMatcher {
				return
			}
			n++
			var changed ssa.Value
			if call.Referrers() != nil {
				for _, ref := range *call.Referrers() {
					if ex, ok := ref.(*ssa.Extract); ok && ex.Index == 2 {
						changed = ex
					}
				}
			}
			okBump := false
			if changed != nil {
				eachInstr(fn, func(i2 ssa.Instruction) {
					c2, ok := i2.(*ssa.Call)
					if !ok || !callIs(c2.Common(), bump) {
						return
					}
					if holds, _ := pc.Implies(i2.Block(), func(lits []Lit) bool {
						return hasLit(lits, func(a ssa.Value, v bool) bool { return a == changed && v })
					}); holds {
						okBump = true
					}
				})
			}
			r.check(okBump, fmt.Sprintf("%s:Snapshot #%d changed => revision bump", relName(fn), n), call.Pos(), fn, "the revision is bumped under this call's `changed` result", "the `changed` result of this Snapshot call does not lead to a revision bump")
		})
	}
	r.floor("Snapshot call sites in the coordinator", n, 2)
}

// c14r8: children are killed as a group; exec is preceded by removing the temp files.
func c14r8(c *Ctx, r *Report) {
	l := c.L
	r.rule("C14-R8", "B (census) + P (must-pass-through)", "P1",
		"on unix no code of the module kills a single process (os.Process.Kill): children are started as process-group leaders and die through util.KillCommand; and every call of Executor.Become — which execs and never returns, so deferred clean-up does not run — is preceded on every path by os.Remove of each temp file the function created",
		"the grandchildren of a compound input/preview command survive fzf; fifos and the launcher script stay in $TMPDIR after become under --tmux")
	nKill := 0
	for _, fn := range l.AllFuncs() {
		if fn.Pkg == nil || !isModulePkg(fn.Pkg.Pkg) {
			continue
		}
		eachInstr(fn, func(in ssa.Instruction) {
			if _, ok := isCall(in, "(*os.Process).Kill"); ok {
				nKill++
				r.bad(relName(fn)+":kills one process", in.Pos(), fn, "children are killed through util.KillCommand (the whole group)", "a single process is signalled: its children keep running")
			}
		})
	}
	if nKill == 0 {
		r.ok("module:no single-process kill", token.NoPos, nil, "no call of os.Process.Kill in the analysed configuration")
	}
	// Become preceded by Remove of created temp files
	become := "(*" + modPath + "/src/util.Executor).Become"
	nB := 0
	for _, fn := range l.AllFuncs() {
		if fn.Pkg != l.pkg("fzf") {
			continue
		}
		var becomes []ssa.Instruction
		eachInstr(fn, func(in ssa.Instruction) {
			if _, ok := isCall(in, become); ok {
				becomes = append(becomes, in)
			}
		})
		if len(becomes) == 0 {
			continue
		}
		// temp paths created in the root function: values that are deferred-removed (defer os.Remove(x))
		root := rootFn(fn)
		var temps []ssa.Value
		for _, g := range withClosures(root) {
			eachInstr(g, func(in ssa.Instruction) {
				d, ok := in.(*ssa.Defer)
				if !ok {
					return
				}
				if calleeName(d.Common()) == "os.Remove" {
					temps = append(temps, d.Call.Args[0])
				}
			})
		}
		for _, b := range becomes {
			nB++
			for i, tmp := range temps {
				// the same variable: compare by cell root / value
				same := func(v ssa.Value) bool {
					if v == tmp {
						return true
					}
					cv, ct := cellRoot(v), cellRoot(tmp)
					if cv != nil && ct != nil && cv == ct {
						return true
					}
					lv, okv := v.(*ssa.UnOp)
					lt, okt := tmp.(*ssa.UnOp)
					if okv && okt {
						a, b2 := cellRoot(lv.X), cellRoot(lt.X)
						return a != nil && a == b2
					}
					return false
				}
				removed := false
				eachInstr(fn, func(in ssa.Instruction) {
					call, ok := in.(*ssa.Call)
					if !ok || calleeName(call.Common()) != "os.Remove" {
						return
					}
					if same(call.Call.Args[0]) && dominates(in, b) {
						removed = true
					}
				})
				r.check(removed, fmt.Sprintf("%s:Become after removing temp file #%d", relName(fn), i), b.Pos(), fn, "a temp file with a deferred os.Remove is removed explicitly before the exec", "exec replaces the process before the deferred os.Remove can run: the file is left behind")
			}
		}
	}
	r.floor("Become call sites", nB, 2)
}

// c16r9: only loopback names count as local.
func c16r9(c *Ctx, r *Report) {
	l := c.L
	r.rule("C16-R9", "E (constant set)", "P1",
		"listenAddress.IsLocal returns true only when the host equals one of its string constants, all of which name the loopback interface; parseListenAddress replaces an empty host by such a name",
		"`--listen :PORT` binds every interface while counting as local: no key is demanded and remote clients may execute commands")
	isLocal := l.Fn("fzf", "listenAddress.IsLocal")
	if isLocal == nil {
		r.unest("anchors", token.NoPos, nil, "anchor listenAddress.IsLocal", "cannot resolve")
		return
	}
	loop := map[string]bool{"localhost": true, "127.0.0.1": true, "::1": true, "[::1]": true}
	n := 0
	okAll := true
	var bad []string
	eachInstr(isLocal, func(in ssa.Instruction) {
		b, ok := in.(*ssa.BinOp)
		if !ok || b.Op != token.EQL {
			return
		}
		if s, isc := constString(b.Y); isc {
			n++
			if !loop[s] {
				okAll = false
				bad = append(bad, fmt.Sprintf("%q", s))
			}
		}
	})
	// no other way to return true: every return is a comparison result / phi of them
	for _, b := range isLocal.Blocks {
		if ret, ok := b.Instrs[len(b.Instrs)-1].(*ssa.Return); ok {
			if cb, isc := constBool(retResult(ret, 0)); isc && cb {
				okAll = false
				bad = append(bad, "unconditional true")
			}
		}
	}
	r.check(okAll && n >= 1, "fzf.IsLocal:loopback names only", isLocal.Pos(), isLocal, "IsLocal compares the host with loopback names only", "IsLocal also accepts "+strings.Join(bad, ", "))
	// parseListenAddress: an empty host is replaced
	pla := l.Fn("fzf", "parseListenAddress")
	fHost := l.Field("fzf", "listenAddress", "host")
	if pla == nil {
		r.unest("fzf.parseListenAddress", token.NoPos, nil, "anchor parseListenAddress", "cannot resolve")
		return
	}
	_ = fHost
	okDefault := false
	pc := pathConds(pla)
	eachInstr(pla, func(in ssa.Instruction) {
		// a loopback constant flowing into the result under len(host)==0
		phi, ok := in.(*ssa.Phi)
		if !ok {
			return
		}
		for i, e := range phi.Edges {
			if s, isc := constString(e); isc && loop[s] {
				for _, dj := range pc.At(phi.Block().Preds[i]) {
					if hasLit(dj, func(a ssa.Value, v bool) bool {
						x, op, k, ok := cmpInt(a)
						if !ok || k != 0 {
							return false
						}
						call, isCall := x.(*ssa.Call)
						return isCall && calleeName(call.Common()) == "builtin.len" && ((op == token.EQL && v) || (op == token.GTR && !v) || (op == token.NEQ && !v))
					}) {
						okDefault = true
					}
				}
			}
		}
	})
	eachInstr(pla, func(in ssa.Instruction) {
		st, ok := in.(*ssa.Store)
		if !ok {
			return
		}
		if s, isc := constString(st.Val); !isc || !loop[s] {
			return
		}
		for _, dj := range pc.At(st.Block()) {
			if hasLit(dj, func(a ssa.Value, v bool) bool {
				x, op, k, ok := cmpInt(a)
				if !ok || k != 0 {
					return false
				}
				call, isCall := x.(*ssa.Call)
				return isCall && calleeName(call.Common()) == "builtin.len" && ((op == token.EQL && v) || (op == token.GTR && !v) || (op == token.NEQ && !v))
			}) {
				okDefault = true
			}
		}
	})
	r.check(okDefault, "fzf.parseListenAddress:empty host defaults to loopback", pla.Pos(), pla, "an empty host becomes a loopback name", "an empty host is kept: net.Listen binds every interface")
}

// c18r7: history bookkeeping.
func c18r7(c *Ctx, r *Report) {
	l := c.L
	r.rule("C18-R7", "B (census)", "P1",
		"History.modified is consulted by presence (comma-ok lookup), never by the emptiness of the stored text; History.lines is cut to the size limit in append, and elsewhere (at load time) only if no function changes the limit of an existing History in place; Terminal.history is assigned once, from Options.History",
		"an entry edited to the empty string shows its stored text again; a larger --history-size given after --history loses the older part of the file; history silently disabled for the session")
	fMod := l.Field("fzf", "History", "modified")
	fLines := l.Field("fzf", "History", "lines")
	fMax := l.Field("fzf", "History", "maxSize")
	fTH := l.Field("fzf", "Terminal", "history")
	fOH := l.Field("fzf", "Options", "History")
	app := l.Fn("fzf", "(*History).append")
	if fMod == nil || fLines == nil || fMax == nil || fTH == nil || fOH == nil || app == nil {
		r.unest("anchors", token.NoPos, nil, "anchors History.{modified,lines,maxSize} / Terminal.history / Options.History / History.append", "cannot resolve")
		return
	}
	nLk := 0
	for _, fn := range l.AllFuncs() {
		if fn.Pkg != l.pkg("fzf") {
			continue
		}
		eachInstr(fn, func(in ssa.Instruction) {
			lk, ok := in.(*ssa.Lookup)
			if !ok {
				return
			}
			if f, _ := loadedField(lk.X); f != fMod {
				return
			}
			nLk++
			r.check(lk.CommaOk, relName(fn)+":modified looked up by presence", lk.Pos(), fn, "`v, ok := h.modified[i]`", "the stored text itself decides whether the entry was edited: an entry edited to \"\" counts as untouched")
		})
	}
	r.floor("lookups in History.modified", nLk, 1)
	// in-place changes of the limit of an existing History
	var inPlace []*ssa.Store
	inPlaceWhere := ""
	for _, fn := range l.AllFuncs() {
		if fn.Pkg != l.pkg("fzf") {
			continue
		}
		eachInstr(fn, func(in ssa.Instruction) {
			st, ok := in.(*ssa.Store)
			if !ok {
				return
			}
			if f, _ := fieldOf(st.Addr); f != fMax {
				return
			}
			if al, isAlloc := addrRoot(st.Addr).(*ssa.Alloc); isAlloc && al.Parent() == fn {
				return // the constructor's literal
			}
			inPlace = append(inPlace, st)
			inPlaceWhere = relName(fn)
		})
	}
	// cuts of lines by maxSize
	nCut := 0
	for _, fn := range l.AllFuncs() {
		if fn.Pkg != l.pkg("fzf") {
			continue
		}
		eachInstr(fn, func(in ssa.Instruction) {
			sl, ok := in.(*ssa.Slice)
			if !ok {
				return
			}
			dep := false
			for _, bnd := range []ssa.Value{sl.Low, sl.High} {
				if bnd == nil {
					continue
				}
				for v := range backwardSlice(bnd, nil, nil) {
					if f, _ := loadedField(v); f == fMax {
						dep = true
					}
					if p, ok := v.(*ssa.Parameter); ok && p.Name() == "maxSize" {
						dep = true
					}
				}
			}
			if !dep {
				return
			}
			nCut++
			// a cut at load time is sound only if the limit of an existing History is never changed in place: a
			// change of the limit then has to create the history again from the file (C18-R6 checks that it does)
			r.check(fn == app || len(inPlace) == 0, relName(fn)+":cut by the size limit", sl.Pos(), fn, "entries are dropped by the size limit when the file is rewritten (append), or at load time by a History whose limit is never changed afterwards", "the list is cut to the limit known at this point while "+inPlaceWhere+" changes History.maxSize later: a larger --history-size given after --history cannot bring the entries back")
		})
	}
	r.floor("cuts by History.maxSize", nCut, 1)
	// Terminal.history
	nH := 0
	for _, fn := range l.AllFuncs() {
		if fn.Pkg != l.pkg("fzf") {
			continue
		}
		eachInstr(fn, func(in ssa.Instruction) {
			st, ok := in.(*ssa.Store)
			if !ok {
				return
			}
			if f, _ := fieldOf(st.Addr); f != fTH {
				return
			}
			nH++
			f2, _ := loadedField(st.Val)
			r.check(f2 == fOH, relName(fn)+":Terminal.history <- Options.History", st.Pos(), fn, "Terminal.history is Options.History", "Terminal.history is overwritten with something else (history disabled or replaced for the session)")
		})
	}
	r.floor("assignments of Terminal.history", nH, 1)
}

// c19r5: the symlink test follows the link.
func c19r5(c *Ctx, r *Report) {
	l := c.L
	r.rule("C19-R5", "B (callee census)", "P1",
		"isSymlinkToDir decides with os.Stat (which follows the link) and not with the directory entry's own Info/Lstat: every non-constant result derives from an os.Stat call",
		"a symlink to a directory is never recognised: no trailing separator, the skip list and the hidden rule do not prune it")
	f := l.Fn("fzf", "isSymlinkToDir")
	if f == nil {
		r.unest("anchors", token.NoPos, nil, "anchor isSymlinkToDir", "cannot resolve")
		return
	}
	n := 0
	for _, b := range f.Blocks {
		ret, ok := b.Instrs[len(b.Instrs)-1].(*ssa.Return)
		if !ok {
			continue
		}
		res := retResult(ret, 0)
		if _, isc := res.(*ssa.Const); isc {
			continue
		}
		n++
		fromStat, fromLstat := false, false
		for v := range backwardSlice(res, func(*ssa.CallCommon) bool { return true }, nil) {
			if call, ok := v.(*ssa.Call); ok {
				switch calleeName(call.Common()) {
				case "os.Stat":
					fromStat = true
				case "os.Lstat":
					fromLstat = true
				default:
					if call.Common().IsInvoke() && call.Common().Method.Name() == "Info" {
						fromLstat = true
					}
				}
			}
		}
		r.check(fromStat && !fromLstat, "fzf.isSymlinkToDir:follows the link", ret.Pos(), f, "the answer comes from os.Stat", "the answer comes from the link's own (lstat) information")
	}
	r.floor("non-constant results of isSymlinkToDir", n, 1)
}

// c08r11: every request carries a new sequence number.
func c08r11(c *Ctx, r *Report) {
	l := c.L
	r.rule("C08-R11", "A (dominance)", "P1",
		"in Matcher.Reset the increment of the request sequence number is executed on every path before the request is posted, and the posted request carries the incremented value",
		"two pending requests tie: the mailbox drain may keep the older one and the final search of the current query is dropped")
	reset := l.Fn("fzf", "(*Matcher).Reset")
	fSeq := l.Field("fzf", "Matcher", "reqSeq")
	if reset == nil || fSeq == nil {
		r.unest("anchors", token.NoPos, nil, "anchors Matcher.Reset / Matcher.reqSeq", "cannot resolve")
		return
	}
	var inc ssa.Instruction
	eachInstr(reset, func(in ssa.Instruction) {
		st, ok := in.(*ssa.Store)
		if !ok {
			return
		}
		if f, _ := fieldOf(st.Addr); f != fSeq {
			return
		}
		if b, ok := st.Val.(*ssa.BinOp); ok && b.Op == token.ADD && isConstInt(b.Y, 1) {
			inc = in
		}
	})
	n := 0
	eachInstr(reset, func(in ssa.Instruction) {
		if _, ok := isCall(in, "(*"+modPath+"/src/util.EventBox).Set"); !ok {
			return
		}
		n++
		r.check(inc != nil && dominates(inc, in), "fzf.Matcher.Reset:fresh sequence number", in.Pos(), reset, "reqSeq++ dominates the post of the request", "a request can be posted with the sequence number of the previous one")
	})
	r.floor("request posts in Matcher.Reset", n, 1)
}

// c10r5: the AWK-style separator class is ASCII blank and tab.
func c10r5(c *Ctx, r *Report) {
	l := c.L
	r.rule("C10-R5", "J (byte-class folding)", "P1",
		"awkTokenizer classifies each BYTE of the line; the bytes it treats as separators are exactly tab and space — in particular no byte >= 0x80, which would be the inside of a multi-byte character",
		"a field boundary falls inside a multi-byte character (à, Å, † contain the bytes 0x85 / 0xA0): field counts and prefix lengths are wrong")
	f := l.Fn("fzf", "awkTokenizer")
	if f == nil {
		r.unest("anchors", token.NoPos, nil, "anchor awkTokenizer", "cannot resolve")
		return
	}
	// every byte read of the line: bind the byte to each value, fold, and look at the boolean values
	// computed from it that later steer a branch (the `white` flag)
	n := 0
	eachInstr(f, func(in ssa.Instruction) {
		ix, ok := in.(*ssa.Index)
		if !ok || ix.X != ssa.Value(f.Params[0]) {
			return
		}
		idx := 0
		for i, i2 := range ix.Block().Instrs {
			if i2 == in {
				idx = i + 1
			}
		}
		vals := map[ssa.Value]*[256]int8{}
		for bv := 0; bv < 256; bv++ {
			bv := bv
			foldCapture = func(env map[ssa.Value]int64) {
				for v, k := range env {
					if !isBoolType(v) {
						continue
					}
					if vals[v] == nil {
						arr := [256]int8{}
						for i := range arr {
							arr[i] = -1
						}
						vals[v] = &arr
					}
					vals[v][bv] = int8(k)
				}
			}
			foldFrom(f, ix.Block(), idx, map[ssa.Value]int64{ix: int64(bv)}, 0)
			foldCapture = nil
		}
		// flags: boolean values known for all 256 bytes that are the condition of some If
		for v, arr := range vals {
			isCond := false
			if v.Referrers() != nil {
				for _, ref := range *v.Referrers() {
					if _, ok := ref.(*ssa.If); ok {
						isCond = true
					}
				}
			}
			if _, isPhi := v.(*ssa.Phi); !isCond || !isPhi {
				continue
			}
			var set byteSet
			all := true
			for i, k := range arr {
				if k < 0 {
					all = false
				}
				set[i] = k == 1
			}
			if !all {
				continue
			}
			n++
			want := setOf(9, 32)
			r.check(set == want, fmt.Sprintf("fzf.awkTokenizer:separator bytes (%s)", v.Name()), v.Pos(), f, "separator bytes = "+want.String(), "separator bytes = "+set.String())
		}
	})
	if n == 0 {
		r.unest("fzf.awkTokenizer:byte test", f.Pos(), f, "a boolean computed from the byte alone that steers the tokenizer", "the classification of a byte does not fold (library call on a byte?): cannot show that only tab and space separate fields")
	}
	_ = sort.Strings
	_ = types.Typ
}

// c20r9: every change of the selection makes the preview stale.
func c20r9(c *Ctx, r *Report) {
	l := c.L
	r.rule("C20-R9", "A (same-block / dominance)", "P1",
		"every function that inserts into or deletes from Terminal.selected also increments Terminal.version on that path ({+} previews depend on the selection); the writers themselves are the closed set of C09-R1",
		"a {+} preview is not re-run after an item was (de)selected without moving the cursor")
	fSel := l.Field("fzf", "Terminal", "selected")
	fVer := l.Field("fzf", "Terminal", "version")
	if fSel == nil || fVer == nil {
		r.unest("anchors", token.NoPos, nil, "anchors Terminal.selected / Terminal.version", "cannot resolve")
		return
	}
	n := 0
	for _, fn := range l.AllFuncs() {
		if fn.Pkg != l.pkg("fzf") {
			continue
		}
		var bumps []ssa.Instruction
		eachInstr(fn, func(in ssa.Instruction) {
			if st, ok := in.(*ssa.Store); ok {
				if f, _ := fieldOf(st.Addr); f == fVer {
					if b, ok := st.Val.(*ssa.BinOp); ok && b.Op == token.ADD {
						bumps = append(bumps, in)
					}
				}
			}
		})
		eachInstr(fn, func(in ssa.Instruction) {
			var m ssa.Value
			switch x := in.(type) {
			case *ssa.MapUpdate:
				m = x.Map
			case *ssa.Call:
				if b, ok := x.Call.Value.(*ssa.Builtin); ok && b.Name() == "delete" {
					m = x.Call.Args[0]
				}
			}
			if m == nil {
				return
			}
			if f, _ := loadedField(m); f != fSel {
				return
			}
			n++
			ok := false
			for _, b := range bumps {
				if b.Block() == in.Block() || dominates(in, b) || dominates(b, in) {
					ok = true
				}
			}
			r.check(ok, fmt.Sprintf("%s:selection change bumps version", relName(fn)), in.Pos(), fn, "t.version++ accompanies the change of t.selected", "the selection changes without a version bump: a preview that shows {+} is not refreshed")
		})
	}
	r.floor("element updates of Terminal.selected", n, 2)
}

// c12r6: the tmux re-launch passes every argument on.
func c12r6(c *Ctx, r *Report) {
	l := c.L
	r.rule("C12-R6", "P (must-pass-through per iteration)", "P1",
		"in runTmux the loop over the argument list quotes and appends its element in every iteration: no path from the loop body back to the loop header avoids escapeSingleQuote(element)",
		"an argument (for instance an empty string given as an option value) is dropped on the way to the inner fzf: the following word is taken as the value")
	rt := l.Fn("fzf", "runTmux")
	esq := l.Fn("fzf", "escapeSingleQuote")
	if rt == nil || esq == nil {
		r.unest("anchors", token.NoPos, nil, "anchors runTmux / escapeSingleQuote", "cannot resolve")
		return
	}
	n := 0
	for _, b := range rt.Blocks {
		// loop headers of range loops: a block with a phi that has an edge from a block it dominates
		var back []*ssa.BasicBlock
		for _, p := range b.Preds {
			if b.Dominates(p) && p != b {
				back = append(back, p)
			}
		}
		if len(back) == 0 {
			continue
		}
		// the element value: load of &slice[idx] in a body block
		var body *ssa.BasicBlock
		for _, s := range b.Succs {
			if b.Dominates(s) && s != b {
				for _, p := range back {
					if s == p || s.Dominates(p) {
						body = s
					}
				}
			}
		}
		if body == nil {
			continue
		}
		// is this a loop over strings that calls escapeSingleQuote at all / ranges over a []string?
		isArgLoop := false
		for _, in := range body.Instrs {
			if u, ok := in.(*ssa.UnOp); ok && u.Op == token.MUL {
				if ia, ok := u.X.(*ssa.IndexAddr); ok {
					if sl, ok := ia.X.Type().Underlying().(*types.Slice); ok {
						if bt, ok := sl.Elem().Underlying().(*types.Basic); ok && bt.Kind() == types.String {
							isArgLoop = true
						}
					}
				}
			}
		}
		if !isArgLoop {
			continue
		}
		n++
		bad := pathAvoiding(body.Instrs[0], func(in ssa.Instruction) bool {
			return in.Block() == b && in == b.Instrs[0]
		}, func(in ssa.Instruction) bool {
			call, ok := in.(*ssa.Call)
			return ok && callIs(call.Common(), esq)
		}, nil)
		// body.Instrs[0] itself is skipped by pathAvoiding; it is the element address computation, never the quote call
		r.check(bad == nil, fmt.Sprintf("fzf.runTmux:argument loop #%d quotes every element", n), body.Instrs[0].Pos(), rt, "every iteration reaches escapeSingleQuote", "an iteration can return to the loop header without quoting/appending its element")
	}
	r.floor("loops over string lists in runTmux", n, 1)
}

// c20r10: the record of what the preview window shows is written as a whole.
func c20r10(c *Ctx, r *Report) {
	l := c.L
	r.rule("C20-R10", "B (fields of one record written together)", "P1",
		"Terminal.previewed.version — the version of the preview output that is on screen, compared with previewer.version to skip repainting — is either invalidated (constant 0) or stored together with previewed.numLines and previewed.offset in the function that renders the preview",
		"something other than the rendered output marks the version as painted: the real output arrives and is deemed unchanged, stale lines of the previous preview stay in the window")
	tPrev := l.Field("fzf", "Terminal", "previewed")
	if tPrev == nil {
		r.unest("anchors", token.NoPos, nil, "anchor Terminal.previewed", "cannot resolve")
		return
	}
	st, ok := tPrev.Type().Underlying().(*types.Struct)
	if !ok {
		r.unest("anchors", token.NoPos, nil, "Terminal.previewed is a struct", "it is not")
		return
	}
	idx := map[string]int{}
	for i := 0; i < st.NumFields(); i++ {
		idx[st.Field(i).Name()] = i
	}
	fieldOfPrev := func(addr ssa.Value) string {
		fa, ok := addr.(*ssa.FieldAddr)
		if !ok {
			return ""
		}
		if f, _ := fieldOf(fa.X); f != tPrev {
			return ""
		}
		return st.Field(fa.Field).Name()
	}
	n := 0
	for _, fn := range l.AllFuncs() {
		if fn.Pkg != l.pkg("fzf") {
			continue
		}
		stores := map[*ssa.BasicBlock]map[string]bool{}
		var verStores []*ssa.Store
		eachInstr(fn, func(in ssa.Instruction) {
			s2, ok := in.(*ssa.Store)
			if !ok {
				return
			}
			name := fieldOfPrev(s2.Addr)
			if name == "" {
				return
			}
			if stores[s2.Block()] == nil {
				stores[s2.Block()] = map[string]bool{}
			}
			stores[s2.Block()][name] = true
			if name == "version" {
				verStores = append(verStores, s2)
			}
		})
		for _, s2 := range verStores {
			n++
			if isConstInt(s2.Val, 0) {
				r.ok(fmt.Sprintf("%s:previewed.version invalidated", relName(fn)), s2.Pos(), fn, "previewed.version = 0 (forces a repaint)")
				continue
			}
			m := stores[s2.Block()]
			r.check(m["numLines"] && m["offset"], fmt.Sprintf("%s:previewed record written as a whole", relName(fn)), s2.Pos(), fn, "version, numLines and offset of the rendered output are recorded together", "previewed.version is set without the rest of the record: a paint that did not happen is recorded")
		}
	}
	r.floor("stores to Terminal.previewed.version", n, 3)
	_ = idx
}

// c09r7: the cursor is clamped against the query as it will be, not as it was.
func c09r7(c *Ctx, r *Report) {
	l := c.L
	r.rule("C09-R7", "P (ordering)", "P1",
		"in every function, once the cursor t.cx has been computed from len(t.input), the query is not shortened by a reslice (t.input = t.input[:n]) before the cursor is computed again or the function returns",
		"the cursor is left beyond the end of the shortened query: the next edit slices out of range")
	fIn := l.Field("fzf", "Terminal", "input")
	fCx := l.Field("fzf", "Terminal", "cx")
	if fIn == nil || fCx == nil {
		r.unest("anchors", token.NoPos, nil, "anchors Terminal.input / Terminal.cx", "cannot resolve")
		return
	}
	n := 0
	for _, fn := range l.AllFuncs() {
		if fn.Pkg != l.pkg("fzf") {
			continue
		}
		isCxStore := func(in ssa.Instruction) bool {
			st, ok := in.(*ssa.Store)
			if !ok {
				return false
			}
			f, _ := fieldOf(st.Addr)
			return f == fCx
		}
		isShrink := func(in ssa.Instruction) bool {
			st, ok := in.(*ssa.Store)
			if !ok {
				return false
			}
			if f, _ := fieldOf(st.Addr); f != fIn {
				return false
			}
			sl, ok := st.Val.(*ssa.Slice)
			if !ok || sl.High == nil {
				return false
			}
			f2, _ := loadedField(sl.X)
			return f2 == fIn
		}
		eachInstr(fn, func(in ssa.Instruction) {
			if !isCxStore(in) {
				return
			}
			st := in.(*ssa.Store)
			fromLen := false
			for v := range backwardSlice(st.Val, func(*ssa.CallCommon) bool { return true }, nil) {
				if call, ok := v.(*ssa.Call); ok && calleeName(call.Common()) == "builtin.len" {
					if f, _ := loadedField(call.Call.Args[0]); f == fIn {
						fromLen = true
					}
				}
			}
			if !fromLen {
				return
			}
			n++
			bad := pathAvoiding(in, isShrink, isCxStore, nil)
			key := fmt.Sprintf("%s:cursor clamp is not followed by a cut of the query", relName(fn))
			if bad != nil {
				r.bad(key, st.Pos(), fn, "no reslice of t.input after the clamp", "t.input is shortened at "+l.pos(bad.Pos())+" after the cursor was clamped against its old length")
			} else {
				r.ok(key, st.Pos(), fn, "the cursor is computed from the final length of the query")
			}
		})
	}
	r.floor("cursor updates computed from len(t.input)", n, 3)
}

// c20r11: the goroutine that kills the preview command listens for kill requests whenever it waits.
func c20r11(c *Ctx, r *Report) {
	l := c.L
	r.rule("C20-R11", "B (select census in the watcher goroutine)", "P1",
		"in the goroutine that owns util.KillCommand for the running preview command, every blocking select — also the one that grants a cancelled command its grace period — has a receive on Terminal.killChan: a kill request posted at session end (killPreview) is taken at once and not after the grace period",
		"the session ends while the watcher sits in its grace period: killPreview's bounded wait expires together with it and fzf exits before the command was killed — the preview child survives")
	fKill := l.Field("fzf", "Terminal", "killChan")
	loop := l.Fn("fzf", "(*Terminal).Loop")
	if fKill == nil || loop == nil {
		r.unest("anchors", token.NoPos, nil, "anchors Terminal.killChan / Terminal.Loop", "cannot resolve")
		return
	}
	kc := modPath + "/src/util.KillCommand"
	n := 0
	for _, fn := range withClosures(loop) {
		kills := false
		eachInstr(fn, func(in ssa.Instruction) {
			if _, ok := isCall(in, kc); ok {
				kills = true
			}
		})
		if !kills {
			continue
		}
		eachInstr(fn, func(in ssa.Instruction) {
			sel, ok := in.(*ssa.Select)
			if !ok || !sel.Blocking {
				return
			}
			n++
			listens := false
			for _, st := range sel.States {
				if st.Dir != types.RecvOnly {
					continue
				}
				if f, _ := loadedField(st.Chan); f == fKill {
					listens = true
				}
			}
			r.check(listens, fmt.Sprintf("%s:select #%d listens on killChan", relName(fn), n), sel.Pos(), fn, "the waiting watcher can be told to kill immediately", "while this select waits, a send on killChan blocks: a kill at session end is not delivered in time")
		})
	}
	r.floor("blocking selects in the watcher goroutine", n, 2)
}

// c08r12: the matcher itself empties the chunk cache when it adopts a new revision.
func c08r12(c *Ctx, r *Report) {
	l := c.L
	r.rule("C08-R12", "P (must-pass-through in the goroutine that serialises the scans)", "P1",
		"in Matcher.Loop — the only goroutine that starts scans, one after the other, each joined before the next request is looked at — every assignment of Matcher.revision is followed on every path to the next scan by ChunkCache.Clear(): entries that workers of a superseded scan added for the previous revision (after the coordinator's own, concurrent, Clear) cannot be served to the new one",
		"change-nth / exclude / reload issued while a scan is running: the old workers repopulate the chunk cache after the coordinator emptied it and the new search is answered from those entries — a wrong result that stays")
	loop := l.Fn("fzf", "(*Matcher).Loop")
	scan := l.Fn("fzf", "(*Matcher).scan")
	clear := l.Fn("fzf", "(*ChunkCache).Clear")
	fRev := l.Field("fzf", "Matcher", "revision")
	if loop == nil || scan == nil || clear == nil || fRev == nil {
		r.unest("anchors", token.NoPos, nil, "anchors Matcher.Loop / scan / ChunkCache.Clear / Matcher.revision", "cannot resolve")
		return
	}
	n := 0
	for _, fn := range withClosures(loop) {
		eachInstr(fn, func(in ssa.Instruction) {
			st, ok := in.(*ssa.Store)
			if !ok {
				return
			}
			if f, _ := fieldOf(st.Addr); f != fRev {
				return
			}
			n++
			isClear := func(i2 ssa.Instruction) bool {
				call, ok := i2.(*ssa.Call)
				return ok && callIs(call.Common(), clear)
			}
			before := false
			for _, i2 := range in.Block().Instrs {
				if i2 == in {
					break
				}
				if isClear(i2) {
					before = true
				}
			}
			var bad ssa.Instruction
			if !before {
				bad = feasiblePathAvoiding(in, func(i2 ssa.Instruction) bool {
					call, ok := i2.(*ssa.Call)
					return ok && callIs(call.Common(), scan)
				}, isClear, nil)
			}
			if bad != nil {
				// or: the Clear comes first, and the only ways around it are edges on which the
				// revision is known to be unchanged (`request.revision != m.revision` false)
				isRevCmp := func(v ssa.Value) (neq bool, ok bool) {
					b, ok2 := v.(*ssa.BinOp)
					if !ok2 || (b.Op != token.NEQ && b.Op != token.EQL) {
						return false, false
					}
					f1, _ := loadedField(b.X)
					f2, _ := loadedField(b.Y)
					if (f1 == fRev) != (f2 == fRev) || f1 == f2 {
						// exactly one side is m.revision (the other is the request's)
						if f1 != fRev && f2 != fRev {
							return false, false
						}
					}
					return b.Op == token.NEQ, true
				}
				back := pathAvoiding(fn.Blocks[0].Instrs[0], func(i2 ssa.Instruction) bool { return i2 == in }, isClear, func(from, to *ssa.BasicBlock) bool {
					iff, ok := from.Instrs[len(from.Instrs)-1].(*ssa.If)
					if !ok {
						return true
					}
					neq, ok := isRevCmp(iff.Cond)
					if !ok {
						return true
					}
					// Succs[0] is the true edge
					unchangedEdge := (neq && to == from.Succs[1]) || (!neq && to == from.Succs[0])
					return !unchangedEdge
				})
				if back == nil {
					bad = nil
				}
			}
			r.check(bad == nil, relName(fn)+":new revision => chunk cache cleared here", st.Pos(), fn, "ChunkCache.Clear() accompanies the new revision inside Matcher.Loop", "a path reaches the next scan with the chunk cache of the previous revision (the Clear is missing or sits under a condition that cannot hold)")
		})
	}
	r.floor("assignments of Matcher.revision in Loop", n, 1)
}
