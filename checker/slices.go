package main

import (
	"go/token"

	"golang.org/x/tools/go/ssa"
)

// forwardDerived computes the set of SSA values data-derived from the seeds inside one function tree:
// through phis, slicing/indexing, loads, conversions, extracts, append/copy, string concatenation,
// stores into local cells (Alloc) followed by loads of the same cell, range iteration, and — when
// `throughCalls` says so — through calls (result derived from any derived argument).
func forwardDerived(root *ssa.Function, seeds []ssa.Value, throughCall func(c *ssa.CallCommon) bool) map[ssa.Value]bool {
	der := map[ssa.Value]bool{}
	for _, s := range seeds {
		der[s] = true
	}
	cells := map[ssa.Value]bool{} // local cells holding derived content
	fns := withClosures(root)
	for changed := true; changed; {
		changed = false
		mark := func(v ssa.Value) {
			if v != nil && !der[v] {
				der[v] = true
				changed = true
			}
		}
		for _, f := range fns {
			for _, fv := range f.FreeVars {
				if b := bindingOf(fv); b != nil && der[b] {
					mark(fv)
				}
				if c := cellRoot(fv); cells[c] {
					// loads handled below through cellRoot
					_ = c
				}
			}
			eachInstr(f, func(in ssa.Instruction) {
				switch x := in.(type) {
				case *ssa.Phi:
					for _, e := range x.Edges {
						if der[e] {
							mark(x)
						}
					}
				case *ssa.Slice:
					if der[x.X] {
						mark(x)
					}
				case *ssa.Index:
					if der[x.X] {
						mark(x)
					}
				case *ssa.IndexAddr:
					if der[x.X] {
						mark(x)
					}
				case *ssa.Lookup:
					if der[x.X] {
						mark(x)
					}
				case *ssa.FieldAddr:
					if der[x.X] {
						mark(x)
					}
				case *ssa.Field:
					if der[x.X] {
						mark(x)
					}
				case *ssa.UnOp:
					if x.Op == token.MUL || x.Op == token.ARROW {
						if der[x.X] || cells[cellRoot(x.X)] || cells[addrRoot(x.X)] {
							mark(x)
						}
					} else if der[x.X] {
						mark(x)
					}
				case *ssa.Convert:
					if der[x.X] {
						mark(x)
					}
				case *ssa.ChangeType:
					if der[x.X] {
						mark(x)
					}
				case *ssa.MakeInterface:
					if der[x.X] {
						mark(x)
					}
				case *ssa.TypeAssert:
					if der[x.X] {
						mark(x)
					}
				case *ssa.Extract:
					if der[x.Tuple] {
						mark(x)
					}
				case *ssa.Range:
					if der[x.X] {
						mark(x)
					}
				case *ssa.Next:
					if der[x.Iter] {
						mark(x)
					}
				case *ssa.Select:
					for _, st := range x.States {
						if st.Dir == 2 /* recv */ && der[st.Chan] {
							mark(x)
						}
					}
				case *ssa.BinOp:
					if x.Op == token.ADD && (der[x.X] || der[x.Y]) {
						mark(x)
					}
				case *ssa.Store:
					if der[x.Val] {
						c := addrRoot(x.Addr)
						switch c.(type) {
						case *ssa.Alloc:
							if !cells[c] {
								cells[c] = true
								changed = true
							}
						}
						// store into element of a derived-tracking slice/array: mark the base
						if ia, ok := x.Addr.(*ssa.IndexAddr); ok {
							mark(ia.X)
							if u, ok := ia.X.(*ssa.UnOp); ok && u.Op == token.MUL {
								if a, ok := cellRoot(u.X).(*ssa.Alloc); ok && !cells[a] {
									cells[a] = true
									changed = true
								}
							}
							if a, ok := ia.X.(*ssa.Alloc); ok && !cells[a] {
								cells[a] = true
								changed = true
							}
						}
					}
				case *ssa.Call:
					c := x.Common()
					if b, ok := c.Value.(*ssa.Builtin); ok {
						switch b.Name() {
						case "append":
							for _, a := range c.Args {
								if der[a] {
									mark(x)
								}
							}
						case "copy":
							if der[c.Args[1]] {
								mark(c.Args[0])
							}
						}
						return
					}
					any := false
					for _, a := range callArgs(c) {
						if der[a] {
							any = true
						}
					}
					if any && throughCall != nil && throughCall(c) {
						mark(x)
					}
				case *ssa.MakeClosure:
					for _, b := range x.Bindings {
						if der[b] {
							// the closure captures derived data; the free var is marked above
							_ = b
						}
					}
				}
			})
		}
	}
	return der
}

// backwardSlice returns every value the given value is data-derived from (same operators as above,
// plus call arguments when throughCall allows), stopping at values for which stop returns true.
func backwardSlice(v ssa.Value, throughCall func(c *ssa.CallCommon) bool, stop func(ssa.Value) bool) map[ssa.Value]bool {
	seen := map[ssa.Value]bool{}
	var rec func(v ssa.Value)
	rec = func(v ssa.Value) {
		if v == nil || seen[v] {
			return
		}
		seen[v] = true
		if stop != nil && stop(v) {
			return
		}
		switch x := v.(type) {
		case *ssa.Phi:
			for _, e := range x.Edges {
				rec(e)
			}
		case *ssa.Slice:
			rec(x.X)
		case *ssa.Index:
			rec(x.X)
		case *ssa.IndexAddr:
			rec(x.X)
		case *ssa.Lookup:
			rec(x.X)
		case *ssa.FieldAddr:
			rec(x.X)
		case *ssa.Field:
			rec(x.X)
		case *ssa.UnOp:
			rec(x.X)
			if x.Op == token.MUL {
				c := addrRoot(x.X)
				if _, ok := c.(*ssa.Alloc); ok {
					for _, st := range storesIntoCell(c) {
						rec(st.Val)
					}
				}
			}
		case *ssa.Convert:
			rec(x.X)
		case *ssa.ChangeType:
			rec(x.X)
		case *ssa.MakeInterface:
			rec(x.X)
		case *ssa.TypeAssert:
			rec(x.X)
		case *ssa.Extract:
			rec(x.Tuple)
		case *ssa.BinOp:
			rec(x.X)
			rec(x.Y)
		case *ssa.FreeVar:
			if b := bindingOf(x); b != nil {
				rec(b)
			}
		case *ssa.Alloc:
			// address of a local: whatever was stored into it
			for _, st := range storesIntoCell(x) {
				rec(st.Val)
			}
		case *ssa.Range:
			rec(x.X)
		case *ssa.Next:
			rec(x.Iter)
		case *ssa.Call:
			c := x.Common()
			if b, ok := c.Value.(*ssa.Builtin); ok {
				if b.Name() == "append" || b.Name() == "len" || b.Name() == "cap" || b.Name() == "min" || b.Name() == "max" {
					for _, a := range c.Args {
						rec(a)
					}
				}
				return
			}
			if throughCall != nil && throughCall(c) {
				for _, a := range callArgs(c) {
					rec(a)
				}
			}
		}
	}
	rec(v)
	return seen
}

// addrRoot peels field/index address computations and free-variable indirections down to the storage root.
func addrRoot(v ssa.Value) ssa.Value {
	for i := 0; i < 30; i++ {
		switch x := v.(type) {
		case *ssa.FieldAddr:
			v = x.X
		case *ssa.IndexAddr:
			v = x.X
		case *ssa.FreeVar:
			b := bindingOf(x)
			if b == nil {
				return v
			}
			v = b
		default:
			return v
		}
	}
	return v
}

// storesIntoCell: stores whose address is the cell itself or a field/element address inside it.
func storesIntoCell(cell ssa.Value) []*ssa.Store {
	cell = addrRoot(cell)
	var owner *ssa.Function
	switch c := cell.(type) {
	case *ssa.Alloc:
		owner = c.Parent()
	default:
		return nil
	}
	var out []*ssa.Store
	for _, f := range withClosures(rootFn(owner)) {
		eachInstr(f, func(in ssa.Instruction) {
			if st, ok := in.(*ssa.Store); ok && addrRoot(st.Addr) == cell {
				out = append(out, st)
			}
		})
	}
	return out
}

// backwardSliceIP is backwardSlice that additionally descends into the return values of resolved
// module callees (static functions and local closures), depth-limited; call arguments are followed too.
func backwardSliceIP(v ssa.Value, stop func(ssa.Value) bool, depth int) map[ssa.Value]bool {
	seen := map[ssa.Value]bool{}
	var rec func(v ssa.Value, d int)
	through := func(c *ssa.CallCommon) bool { return true }
	rec = func(v ssa.Value, d int) {
		for x := range backwardSlice(v, through, func(y ssa.Value) bool {
			if stop != nil && stop(y) {
				return true
			}
			return false
		}) {
			if seen[x] {
				continue
			}
			seen[x] = true
			if stop != nil && stop(x) {
				continue
			}
			call, ok := x.(*ssa.Call)
			if !ok || d <= 0 {
				continue
			}
			fs, _ := calleesOf(call.Common())
			for _, f := range fs {
				if f.Pkg == nil || !isModulePkg(f.Pkg.Pkg) || f.Blocks == nil {
					continue
				}
				for _, b := range f.Blocks {
					if ret, ok := b.Instrs[len(b.Instrs)-1].(*ssa.Return); ok {
						for _, rv := range ret.Results {
							rec(rv, d-1)
						}
					}
				}
			}
		}
	}
	rec(v, depth)
	return seen
}
