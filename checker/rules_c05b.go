package main

import (
	"fmt"
	"go/token"

	"golang.org/x/tools/go/ssa"
)

// c05r9: boundary cells of left-shifted windows over slab-carved scratch arrays.
//
// A scratch array carved from the slab is NOT zeroed (it holds whatever the previous match left there).
// When a loop with index i writes W[i] and reads L[i], where W = A[b:] and L = A[b-c:] are windows of the
// same carved array and c is a positive constant, the reads L[0..c) refer to cells in front of everything
// the loop writes: they must be stored explicitly before the loop, or the result depends on the previous
// contents of the slab.
func c05r9(c *Ctx, r *Report) {
	l := c.L
	r.rule("C05-R9", "F (windows over one carved array) + dominance", "P1",
		"in every function carving scratch arrays from the slab: if a loop writes W[i] and reads L[i] with W = A[b:], L = A[b-c:] windows of the same carved array and c a positive constant, then L[0] .. L[c-1] are stored before the loop is entered",
		"a score cell is read that this call never wrote: the result depends on what the previous match left in the slab (only with a reused slab, which no unit test supplies)")
	type view struct {
		v    ssa.Value
		root ssa.Value
		low  ssa.Value // nil = 0
	}
	nPairs := 0
	for _, an := range []string{"alloc16", "alloc32"} {
		af := l.Fn("algo", an)
		if af == nil {
			r.unest("anchor "+an, token.NoPos, nil, "anchor "+an, "cannot resolve")
			return
		}
	}
	a16, a32 := l.Fn("algo", "alloc16"), l.Fn("algo", "alloc32")
	for _, fn := range l.AllFuncs() {
		if fn.Pkg != l.pkg("algo") {
			continue
		}
		carved := map[ssa.Value]bool{}
		eachInstr(fn, func(in ssa.Instruction) {
			ex, ok := in.(*ssa.Extract)
			if !ok || ex.Index != 1 {
				return
			}
			if call, ok := ex.Tuple.(*ssa.Call); ok {
				if cal := call.Common().StaticCallee(); cal == a16 || cal == a32 {
					carved[ex] = true
				}
			}
		})
		if len(carved) == 0 {
			continue
		}
		// views
		var views []view
		byVal := map[ssa.Value]view{}
		eachInstr(fn, func(in ssa.Instruction) {
			sl, ok := in.(*ssa.Slice)
			if !ok {
				return
			}
			if carved[sl.X] {
				vw := view{sl, sl.X, sl.Low}
				views = append(views, vw)
				byVal[sl] = vw
				return
			}
			if parent, ok := byVal[sl.X]; ok && sl.Low == nil {
				vw := view{sl, parent.root, parent.low}
				views = append(views, vw)
				byVal[sl] = vw
			}
		})
		// element accesses
		type acc struct {
			idx ssa.Value
			in  ssa.Instruction
		}
		reads := map[ssa.Value][]acc{}
		writes := map[ssa.Value][]acc{}
		eachInstr(fn, func(in ssa.Instruction) {
			ia, ok := in.(*ssa.IndexAddr)
			if !ok || ia.Referrers() == nil {
				return
			}
			if _, ok := byVal[ia.X]; !ok {
				return
			}
			for _, ref := range *ia.Referrers() {
				switch x := ref.(type) {
				case *ssa.Store:
					if x.Addr == ssa.Value(ia) {
						writes[ia.X] = append(writes[ia.X], acc{ia.Index, x})
					}
				case *ssa.UnOp:
					if x.Op == token.MUL {
						reads[ia.X] = append(reads[ia.X], acc{ia.Index, x})
					}
				}
			}
		})
		for _, L := range views {
			lb, ok := L.low.(*ssa.BinOp)
			if !ok || lb.Op != token.SUB {
				continue
			}
			cst, isc := constIntVal(lb.Y)
			if !isc || cst <= 0 {
				continue
			}
			for _, W := range views {
				if W.root != L.root || W.v == L.v || W.low == nil || !sameExpr(lb.X, W.low, 0) {
					continue
				}
				// a loop index used for both
				for _, rd := range reads[L.v] {
					if _, isc := rd.idx.(*ssa.Const); isc {
						continue
					}
					for _, wr := range writes[W.v] {
						if wr.idx != rd.idx {
							continue
						}
						// loop header: the block defining the index (or its phi)
						hdr := defBlock(rd.idx)
						if hdr == nil {
							continue
						}
						nPairs++
						for k := int64(0); k < cst; k++ {
							okInit := false
							for _, w0 := range writes[L.v] {
								if kk, isc := constIntVal(w0.idx); isc && kk == k && w0.in.Block() != hdr && w0.in.Block().Dominates(hdr) {
									okInit = true
								}
							}
							// or stored through the carved array itself: A[b-c+k]
							eachInstr(fn, func(in ssa.Instruction) {
								st, ok := in.(*ssa.Store)
								if !ok || st.Block() == hdr || !st.Block().Dominates(hdr) {
									return
								}
								ia, ok := st.Addr.(*ssa.IndexAddr)
								if !ok || ia.X != L.root {
									return
								}
								if k == 0 && sameExpr(ia.Index, L.low, 0) {
									okInit = true
								}
								if b, ok := ia.Index.(*ssa.BinOp); ok && b.Op == token.ADD && sameExpr(b.X, L.low, 0) {
									if kk, isc := constIntVal(b.Y); isc && kk == k {
										okInit = true
									}
								}
							})
							key := fmt.Sprintf("%s:boundary cell %d of the window shifted by %d", relName(fn), k, cst)
							if okInit {
								r.ok(key, rd.in.Pos(), fn, fmt.Sprintf("L[%d] is stored before the loop that reads L[i] and writes W[i]", k))
							} else {
								r.bad(key, rd.in.Pos(), fn, "the cell in front of the written window is initialised before the loop", fmt.Sprintf("L[%d] is read by the loop but never stored by this call: stale slab contents flow into the scores", k))
							}
						}
					}
				}
			}
		}
	}
	r.floor("left-shifted read windows over a written window", nPairs, 1)
}
