package main

import (
	"fmt"
	"go/token"

	"golang.org/x/tools/go/ssa"
)

// c05r9: boundary cells of left-shifted windows over slab-carved scratch arrays.
//
// A scratch array carved from the slab is NOT zeroed (it holds whatever the previous match left there).
// When a loop with index i writes W[i] and reads L[i], where W = A[b:] and L = A[b-c:] are windows of the
// same carved array and c is a positive constant, the reads L[0..c) refer to cells in front of everything
// the loop writes: they must be stored explicitly before the loop, or the result depends on the previous
// contents of the slab.
func c05r9(c *Ctx, r *Report) {
	l := c.L
	r.rule("C05-R9", "F (windows over one carved array) + dominance", "P1",
		"in every function carving scratch arrays from the slab: if a loop writes W[i] and reads L[i] with W = A[b:], L = A[b-c:] windows of the same carved array and c a positive constant, then L[0] .. L[c-1] are stored before the loop is entered",
		"a score cell is read that this call never wrote: the result depends on what the previous match left in the slab (only with a reused slab, which no unit test supplies)")
	type view struct {
		v    ssa.Value
		root ssa.Value
		low  ssa.Value // nil = 0
	}
	nPairs := 0
	for _, an := range []string{"alloc16", "alloc32"} {
		af := l.Fn("algo", an)
		if af == nil {
			r.unest("anchor "+an, token.NoPos, nil, "anchor "+an, "cannot resolve")
			return
		}
	}
	a16, a32 := l.Fn("algo", "alloc16"), l.Fn("algo", "alloc32")
	for _, fn := range l.AllFuncs() {
		if fn.Pkg != l.pkg("algo") {
			continue
		}
		carved := map[ssa.Value]bool{}
		eachInstr(fn, func(in ssa.Instruction) {
			ex, ok := in.(*ssa.Extract)
			if !ok || ex.Index != 1 {
				return
			}
			if call, ok := ex.Tuple.(*ssa.Call); ok {
				if cal := call.Common().StaticCallee(); cal == a16 || cal == a32 {
					carved[ex] = true
				}
			}
		})
		if len(carved) == 0 {
			continue
		}
		// views
		var views []view
		byVal := map[ssa.Value]view{}
		eachInstr(fn, func(in ssa.Instruction) {
			sl, ok := in.(*ssa.Slice)
			if !ok {
				return
			}
			if carved[sl.X] {
				vw := view{sl, sl.X, sl.Low}
				views = append(views, vw)
				byVal[sl] = vw
				return
			}
			if parent, ok := byVal[sl.X]; ok && sl.Low == nil {
				vw := view{sl, parent.root, parent.low}
				views = append(views, vw)
				byVal[sl] = vw
			}
		})
		// element accesses
		type acc struct {
			idx ssa.Value
			in  ssa.Instruction
		}
		reads := map[ssa.Value][]acc{}
		writes := map[ssa.Value][]acc{}
		eachInstr(fn, func(in ssa.Instruction) {
			ia, ok := in.(*ssa.IndexAddr)
			if !ok || ia.Referrers() == nil {
				return
			}
			if _, ok := byVal[ia.X]; !ok {
				return
			}
			for _, ref := range *ia.Referrers() {
				switch x := ref.(type) {
				case *ssa.Store:
					if x.Addr == ssa.Value(ia) {
						writes[ia.X] = append(writes[ia.X], acc{ia.Index, x})
					}
				case *ssa.UnOp:
					if x.Op == token.MUL {
						reads[ia.X] = append(reads[ia.X], acc{ia.Index, x})
					}
				}
			}
		})
		for _, L := range views {
			lb, ok := L.low.(*ssa.BinOp)
			if !ok || lb.Op != token.SUB {
				continue
			}
			cst, isc := constIntVal(lb.Y)
			if !isc || cst <= 0 {
				continue
			}
			for _, W := range views {
				if W.root != L.root || W.v == L.v || W.low == nil || !sameExpr(lb.X, W.low, 0) {
					continue
				}
				// a loop index used for both
				for _, rd := range reads[L.v] {
					if _, isc := rd.idx.(*ssa.Const); isc {
						continue
					}
					for _, wr := range writes[W.v] {
						if wr.idx != rd.idx {
							continue
						}
						// loop header: the block defining the index (or its phi)
						hdr := defBlock(rd.idx)
						if hdr == nil {
							continue
						}
						nPairs++
						for k := int64(0); k < cst; k++ {
							okInit := false
							for _, w0 := range writes[L.v] {
								if kk, isc := constIntVal(w0.idx); isc && kk == k && w0.in.Block() != hdr && w0.in.Block().Dominates(hdr) {
									okInit = true
								}
							}
							// or stored through the carved array itself: A[b-c+k]
							eachInstr(fn, func(in ssa.Instruction) {
								st, ok := in.(*ssa.Store)
								if !ok || st.Block() == hdr || !st.Block().Dominates(hdr) {
									return
								}
								ia, ok := st.Addr.(*ssa.IndexAddr)
								if !ok || ia.X != L.root {
									return
								}
								if k == 0 && sameExpr(ia.Index, L.low, 0) {
									okInit = true
								}
								if b, ok := ia.Index.(*ssa.BinOp); ok && b.Op == token.ADD && sameExpr(b.X, L.low, 0) {
									if kk, isc := constIntVal(b.Y); isc && kk == k {
										okInit = true
									}
								}
							})
							key := fmt.Sprintf("%s:boundary cell %d of the window shifted by %d", relName(fn), k, cst)
							if okInit {
								r.ok(key, rd.in.Pos(), fn, fmt.Sprintf("L[%d] is stored before the loop that reads L[i] and writes W[i]", k))
							} else {
								r.bad(key, rd.in.Pos(), fn, "the cell in front of the written window is initialised before the loop", fmt.Sprintf("L[%d] is read by the loop but never stored by this call: stale slab contents flow into the scores", k))
							}
						}
					}
				}
			}
		}
	}
	r.floor("left-shifted read windows over a written window", nPairs, 1)
}

// c05r10: neighbour reads of a partially filled scratch matrix are guarded by the fill boundary.
//
// FuzzyMatchV2 fills row r of its score matrices only from column F[r] on (the write windows start at
// row+F[r]-F[0]); the cells to the left keep whatever the previous match left in the slab. The back-trace
// reads the matrices by absolute index. A read of the current cell relies on the loop invariant
// j >= F[i]; a read of a NEIGHBOUR cell (an index with a constant offset: previous/next row or column)
// must be guarded by a comparison with an element of F, or it can hit a cell this call never wrote.
func c05r10(c *Ctx, r *Report) {
	l := c.L
	r.rule("C05-R10", "F (fill boundary of carved matrices) + A (path conditions)", "P1",
		"in every function that carves score matrices from the slab and fills each row only from a column taken from the first-occurrence table F: every read of such a matrix at an absolute index that contains a constant offset (a neighbouring row/column) happens under a comparison with an element of F",
		"the back-trace consults a cell this call never wrote: match range and highlight positions depend on what the previous match left in the slab")
	a16, a32 := l.Fn("algo", "alloc16"), l.Fn("algo", "alloc32")
	if a16 == nil || a32 == nil {
		r.unest("anchors", token.NoPos, nil, "anchors alloc16 / alloc32", "cannot resolve")
		return
	}
	nReads := 0
	for _, fn := range l.AllFuncs() {
		if fn.Pkg != l.pkg("algo") {
			continue
		}
		carved16, carved32 := map[ssa.Value]bool{}, map[ssa.Value]bool{}
		eachInstr(fn, func(in ssa.Instruction) {
			ex, ok := in.(*ssa.Extract)
			if !ok || ex.Index != 1 {
				return
			}
			if call, ok := ex.Tuple.(*ssa.Call); ok {
				switch call.Common().StaticCallee() {
				case a16:
					carved16[ex] = true
				case a32:
					carved32[ex] = true
				}
			}
		})
		if len(carved16) == 0 || len(carved32) == 0 {
			continue
		}
		// loads of elements of a carved int32 array (through views)
		isFload := func(v ssa.Value) (ssa.Value, bool) {
			u, ok := v.(*ssa.UnOp)
			if !ok || u.Op != token.MUL {
				return nil, false
			}
			ia, ok := u.X.(*ssa.IndexAddr)
			if !ok {
				return nil, false
			}
			root := ia.X
			for {
				if sl, ok := root.(*ssa.Slice); ok {
					root = sl.X
					continue
				}
				break
			}
			return root, carved32[root]
		}
		dependsOnF := func(v ssa.Value) ssa.Value {
			for w := range backwardSlice(v, nil, nil) {
				if root, ok := isFload(w); ok {
					return root
				}
			}
			return nil
		}
		// partially filled matrices: carved16 arrays with a write window whose low bound depends on an F load
		partial := map[ssa.Value]ssa.Value{} // matrix -> F
		eachInstr(fn, func(in ssa.Instruction) {
			sl, ok := in.(*ssa.Slice)
			if !ok || !carved16[sl.X] || sl.Low == nil {
				return
			}
			// only windows that are written through (directly or via a re-slice)
			written := false
			var refs func(v ssa.Value, d int)
			refs = func(v ssa.Value, d int) {
				if d > 3 || v.Referrers() == nil {
					return
				}
				for _, ref := range *v.Referrers() {
					switch x := ref.(type) {
					case *ssa.Slice:
						refs(x, d+1)
					case *ssa.IndexAddr:
						if x.Referrers() != nil {
							for _, r2 := range *x.Referrers() {
								if st, ok := r2.(*ssa.Store); ok && st.Addr == ssa.Value(x) {
									written = true
								}
							}
						}
					}
				}
			}
			refs(sl, 0)
			if f := dependsOnF(sl.Low); f != nil && written {
				partial[sl.X] = f
			}
		})
		if len(partial) == 0 {
			continue
		}
		// a non-zero constant inside the index expression, looking only at arithmetic done inside the
		// loop that carries the index (the stride `width` etc. are computed before it and are atoms)
		hasConst := func(v ssa.Value) bool {
			var hdr *ssa.BasicBlock
			var findPhi func(v ssa.Value, d int)
			findPhi = func(v ssa.Value, d int) {
				if d > 8 || hdr != nil {
					return
				}
				switch x := v.(type) {
				case *ssa.Phi:
					hdr = x.Block()
				case *ssa.BinOp:
					findPhi(x.X, d+1)
					findPhi(x.Y, d+1)
				}
			}
			findPhi(v, 0)
			found := false
			var walk func(v ssa.Value, d int)
			walk = func(v ssa.Value, d int) {
				if d > 8 || found {
					return
				}
				switch x := v.(type) {
				case *ssa.Const:
					if k, isc := constIntVal(x); isc && k != 0 {
						found = true
					}
				case *ssa.BinOp:
					if hdr != nil && !hdr.Dominates(x.Block()) {
						return
					}
					walk(x.X, d+1)
					walk(x.Y, d+1)
				}
			}
			walk(v, 0)
			return found
		}
		pc := pathConds(fn)
		eachInstr(fn, func(in ssa.Instruction) {
			u, ok := in.(*ssa.UnOp)
			if !ok || u.Op != token.MUL {
				return
			}
			ia, ok := u.X.(*ssa.IndexAddr)
			if !ok {
				return
			}
			F, isPartial := partial[ia.X]
			if !isPartial || !hasConst(ia.Index) {
				return
			}
			nReads++
			guarded := false
			for d := in.Block(); d != nil && !guarded; d = d.Idom() {
				ds := pc.At(d)
				if len(ds) == 0 {
					continue
				}
				for _, lt := range ds[0] {
					b, ok := lt.Atom.(*ssa.BinOp)
					if !ok {
						continue
					}
					switch b.Op {
					case token.LSS, token.LEQ, token.GTR, token.GEQ, token.EQL, token.NEQ:
					default:
						continue
					}
					// one side of the comparison is an element of F itself (possibly converted)
					direct := func(v ssa.Value) bool {
						root, ok := isFload(stripConv(v))
						return ok && root == F
					}
					if !direct(b.X) && !direct(b.Y) {
						continue
					}
					common := true
					for _, dj := range ds[1:] {
						if !hasLit(dj, func(a ssa.Value, v bool) bool { return a == lt.Atom && v == lt.Val }) {
							common = false
						}
					}
					if common && (d == in.Block() || d.Dominates(in.Block())) {
						guarded = true
					}
				}
			}
			key := fmt.Sprintf("%s:neighbour read %s[%s]", relName(fn), ia.X.Name(), ia.Index.Name())
			if guarded {
				r.ok(key, in.Pos(), fn, "the neighbouring cell is read only under a comparison with the fill boundary F[..]")
			} else {
				r.bad(key, in.Pos(), fn, "neighbour reads are guarded by the fill boundary", "a neighbouring cell of a partially filled matrix is read without comparing its column with F[row]: it may never have been written by this call")
			}
		})
	}
	r.floor("neighbour reads of partially filled matrices", nReads, 3)
}
